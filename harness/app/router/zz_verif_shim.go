//go:build verif

package router

import (
	"context"
	"crypto/tls"
	"fmt"
	"net/netip"

	"github.com/IrineSistiana/mosproxy/internal/dnsmsg"
	domainmatcher "github.com/IrineSistiana/mosproxy/internal/domain_matcher"
	"github.com/IrineSistiana/mosproxy/internal/mlog"
	"github.com/IrineSistiana/mosproxy/internal/pool"
)

// Export shims for the verification harness (overlay file, not part of the repository).

type VerifRouter struct{ r *router }

// VerifRun starts a router in-process. A panic during start-up is reported as an error
// whose text starts with "panic:" (the harness records it as a crash event).
func VerifRun(cfg *Config) (vr *VerifRouter, err error) {
	defer func() {
		if p := recover(); p != nil {
			vr, err = nil, fmt.Errorf("panic: %v", p)
		}
	}()
	r, err := run(context.Background(), cfg)
	if err != nil {
		return nil, err
	}
	return &VerifRouter{r: r}, nil
}

func (v *VerifRouter) Close() (err error) {
	defer func() {
		if p := recover(); p != nil {
			err = fmt.Errorf("panic: %v", p)
		}
	}()
	v.r.close(nil)
	return nil
}

func (v *VerifRouter) Same(x any) bool { r, ok := x.(*router); return ok && r == v.r }

func (v *VerifRouter) FatalErr() error {
	select {
	case fe := <-v.r.fatalErr:
		return fmt.Errorf("%s: %w", fe.msg, fe.err)
	default:
		return nil
	}
}

type VerifRC struct {
	Remote  netip.AddrPort
	RuleIdx int
	Cached  bool
	IpMark  string
	HasMsg  bool
	RCode   int
	Uid     uint32
}

func VerifReadRC(x any) VerifRC {
	rc := x.(*RequestContext)
	o := VerifRC{Remote: rc.RemoteAddr, RuleIdx: rc.Response.RuleIdx, Cached: rc.Response.Cached, IpMark: rc.Response.IpMark, Uid: rc.uid}
	if rc.Response.Msg != nil {
		o.HasMsg = true
		o.RCode = int(rc.Response.Msg.RCode)
	}
	return o
}

func VerifCacheKey(q *dnsmsg.Question, mark string) []byte {
	k := cacheKey(q, mark)
	return append([]byte(nil), k...)
}

func VerifIpMarker(file string) (func(netip.Addr) string, error) {
	m, err := loadIpMarkerFromFile(file)
	if err != nil {
		return nil, err
	}
	return m.Mark, nil
}

// Owns reports whether x (a *router, *cacheCtl, *prefetchCtl or *limiter.ClientLimiter seen in a hook)
// belongs to this router instance.
func (v *VerifRouter) Owns(x any) bool {
	switch o := x.(type) {
	case *router:
		return o == v.r
	case *cacheCtl:
		return o == v.r.cache
	case *prefetchCtl:
		return o == v.r.prefetch
	}
	if v.r.limiter != nil && v.r.limiter.cl != nil {
		if any(v.r.limiter.cl) == x {
			return true
		}
	}
	return false
}

// VerifMakeTlsConfig exposes makeTlsConfig (CA / skip-verify / certificate / client verification handling).
func VerifMakeTlsConfig(cfg *TlsConfig, server bool) (*tls.Config, error) {
	return makeTlsConfig(cfg, server)
}

// Handle does what a stream listener does with one decoded query from `remote`: it is handed to the router and
// the response is packed. Used for bursts of simultaneous queries that sockets cannot deliver at the same instant.
func (v *VerifRouter) Handle(wire []byte, remote netip.AddrPort) ([]byte, error) {
	m, err := dnsmsg.UnpackMsg(wire)
	if err != nil {
		return nil, err
	}
	defer dnsmsg.ReleaseMsg(m)
	rc := getRequestContext()
	rc.RemoteAddr = remote
	rc.LocalAddr = netip.AddrPortFrom(netip.MustParseAddr("127.0.0.1"), 53)
	defer releaseRequestContext(rc)
	v.r.handleServerReq(m, rc)
	b := mustHaveRespB(m, rc.Response.Msg, dnsmsg.RCodeRefused, true, 0)
	out := append([]byte(nil), b[2:]...)
	pool.ReleaseBuf(b)
	return out, nil
}

// VerifResourceLimiter builds the router's resource limiter (global bucket + per-subnet buckets) from a limiter
// configuration and returns its decision function ("ok" | "global" | "client").
func VerifResourceLimiter(cfg LimiterConfig) (func(netip.Addr, int) string, func()) {
	l := initResourceLimiter(cfg)
	return func(a netip.Addr, n int) string {
		switch l.AllowN(a, n) {
		case nil:
			return "ok"
		case errGlobalResLimit:
			return "global"
		default:
			return "client"
		}
	}, func() { l.Close() }
}

// VerifLoadDomainSet loads the files of one domain set the way the router does at start-up and returns the
// set's matcher.
func VerifLoadDomainSet(files []string) (interface{ Match([]byte) bool }, error) {
	r := &router{logger: mlog.Nop(), domainSets: make(map[string]*domainmatcher.MixMatcher)}
	if err := r.loadDomainSet(&DomainSetConfig{Tag: "s", Files: files}); err != nil {
		return nil, err
	}
	return r.domainSets["s"], nil
}
