//go:build verif

package transport

import (
	"context"
	"net"
	"time"

	"github.com/IrineSistiana/mosproxy/internal/dnsmsg"
)

// Export shims for the verification harness (overlay file, not part of the repository).

func VerifConnAddr(x any) string {
	switch c := x.(type) {
	case *pipelineConn:
		return c.c.LocalAddr().String()
	case *reusableConn:
		return c.c.LocalAddr().String()
	}
	return ""
}

func VerifKind(x any) string {
	switch x.(type) {
	case *pipelineConn:
		return "pc"
	case *reusableConn:
		return "rc"
	case *ReuseConnTransport:
		return "rt"
	case *PipelineTransport:
		return "pt"
	}
	return ""
}

func VerifSetRespTimeout(t *ReuseConnTransport, d time.Duration) { t.testRespTimeout = d }

// VerifPipelineConn exposes one pipelineConn (with its read loop) for direct use.
type VerifPipelineConn struct{ c *pipelineConn }

func VerifNewPipelineConn(c net.Conn, t *PipelineTransport) *VerifPipelineConn {
	return &VerifPipelineConn{c: newPipelineConn(c, t)}
}

func (v *VerifPipelineConn) ExchangeContext(ctx context.Context, m []byte) (*dnsmsg.Msg, error) {
	return v.c.exchange(ctx, m)
}

func (v *VerifPipelineConn) Close() { v.c.Close() }

// VerifQuicState reads the shared fields of a QuicTransport under its lock.
func VerifQuicState(t *QuicTransport) (closed bool, c any, call any) {
	t.m.Lock()
	defer t.m.Unlock()
	if t.c != nil {
		c = t.c
	}
	if t.dialingCall != nil {
		call = t.dialingCall
	}
	return t.closed, c, call
}
