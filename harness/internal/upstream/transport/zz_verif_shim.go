//go:build verif

package transport

import (
	"context"
	"net"
	"time"

	"github.com/IrineSistiana/connpool"
	"github.com/IrineSistiana/mosproxy/internal/dnsmsg"
)

// Export shims for the verification harness (overlay file, not part of the repository).

func VerifConnAddr(x any) string {
	switch c := x.(type) {
	case *pipelineConn:
		return c.c.LocalAddr().String()
	case *reusableConn:
		return c.c.LocalAddr().String()
	}
	return ""
}

func VerifKind(x any) string {
	switch x.(type) {
	case *pipelineConn:
		return "pc"
	case *reusableConn:
		return "rc"
	case *ReuseConnTransport:
		return "rt"
	case *PipelineTransport:
		return "pt"
	}
	return ""
}

func VerifSetRespTimeout(t *ReuseConnTransport, d time.Duration) { t.testRespTimeout = d }

// VerifPipelineConn exposes one pipelineConn (with its read loop) for direct use.
type VerifPipelineConn struct{ c *pipelineConn }

func VerifNewPipelineConn(c net.Conn, t *PipelineTransport) *VerifPipelineConn {
	return &VerifPipelineConn{c: newPipelineConn(c, t)}
}

func (v *VerifPipelineConn) ExchangeContext(ctx context.Context, m []byte) (*dnsmsg.Msg, error) {
	return v.c.exchange(ctx, m)
}

func (v *VerifPipelineConn) Close() { v.c.Close() }

// VerifQuicState reads the shared fields of a QuicTransport under its lock.
func VerifQuicState(t *QuicTransport) (closed bool, c any, call any) {
	t.m.Lock()
	defer t.m.Unlock()
	if t.c != nil {
		c = t.c
	}
	if t.dialingCall != nil {
		call = t.dialingCall
	}
	return t.closed, c, call
}

// VerifReuseState reads the transport's closed flag and its two connection sets under its lock.
func VerifReuseState(t *ReuseConnTransport) (closed bool, conns, idle []any) {
	t.m.Lock()
	defer t.m.Unlock()
	for c := range t.conns {
		conns = append(conns, c)
	}
	for c := range t.idleConns {
		idle = append(idle, c)
	}
	return t.closed, conns, idle
}

// VerifRcState reads a reusable connection's flags under its lock.
func VerifRcState(x any) (serving, closed bool) {
	rc := x.(*reusableConn)
	rc.m.Lock()
	defer rc.m.Unlock()
	return rc.serving, rc.closed
}

// VerifFireIdleTimer runs the idle timer's function of a reusable connection.
func VerifFireIdleTimer(x any) { x.(*reusableConn).closeIfIdle() }

// VerifRcConn returns the net.Conn of a reusable connection.
func VerifRcConn(x any) net.Conn { return x.(*reusableConn).c }

// VerifPipePool returns the connection pool of a pipelined transport.
func VerifPipePool(t *PipelineTransport) *connpool.Pool { return t.pool }

// VerifPcState reads a pipelined connection's fields under its lock.
func VerifPcState(x any) (closed bool, nextQid, reserved int, qids []int) {
	pc := x.(*pipelineConn)
	pc.m.RLock()
	defer pc.m.RUnlock()
	for q := range pc.queue {
		qids = append(qids, int(q))
	}
	return pc.closed, pc.nextQid, pc.reserved, qids
}

// VerifPcSetNextQid moves a fresh connection's ID counter (to bring the end of the ID space within reach).
func VerifPcSetNextQid(x any, n int) {
	pc := x.(*pipelineConn)
	pc.m.Lock()
	pc.nextQid = n
	pc.m.Unlock()
}

// VerifPcNetConn returns the net.Conn of a pipelined connection.
func VerifPcNetConn(x any) net.Conn { return x.(*pipelineConn).c }

// VerifPcTransport returns the transport a pipelined connection belongs to.
func VerifPcTransport(x any) *PipelineTransport { return x.(*pipelineConn).t }
