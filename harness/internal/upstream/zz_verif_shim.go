//go:build verif

package upstream

import (
	"context"

	"github.com/IrineSistiana/mosproxy/internal/dnsmsg"
)

// Export shims for the verification harness (overlay file, not part of the repository).

// VerifTCPLeg returns the TCP fall-back transport of a plain (UDP) upstream, nil for every other kind.
func VerifTCPLeg(u Upstream) interface {
	ExchangeContext(ctx context.Context, m []byte) (*dnsmsg.Msg, error)
} {
	if f, ok := u.(*udpWithFallback); ok {
		return f.t
	}
	return nil
}
