//go:build verif

package main

import (
	"encoding/json"
	"fmt"
	"math/rand"
	"net/netip"
	"os"
	"path/filepath"
	"strings"

	"github.com/IrineSistiana/mosproxy/app/router"
	"github.com/IrineSistiana/mosproxy/internal/netlist"
	"github.com/IrineSistiana/mosproxy/internal/zzverif/vtrace"
)

type absRange struct {
	S int    `json:"s"`
	E int    `json:"e"`
	V string `json:"v"`
}

// concrete addresses in ascending 128-bit order: below the IPv4-mapped block, IPv4 (as IPv4 and as IPv4-mapped
// IPv6 text), above it
var addrPool = []string{"::", "::5", "::fffe:ffff:ffff", "0.0.0.0", "0.0.0.9", "10.1.2.3", "10.1.2.4", "127.255.255.255", "128.0.0.0",
	"255.255.255.255", "::1:0:0:0", "2001:db8::", "2001:db8::1", "2001:db8:0:1::", "fe80::1", "ffff:ffff:ffff:ffff:ffff:ffff:ffff:ffff"}

func pickPoints(rng *rand.Rand, n int) []netip.Addr {
	idx := rng.Perm(len(addrPool))[:n]
	for i := range idx { // ascending
		for j := i + 1; j < len(idx); j++ {
			if idx[j] < idx[i] {
				idx[i], idx[j] = idx[j], idx[i]
			}
		}
	}
	out := make([]netip.Addr, n)
	for i, k := range idx {
		out[i] = netip.MustParseAddr(addrPool[k])
	}
	return out
}

// alt: the other textual family of the same address (IPv4 <-> IPv4-mapped IPv6)
func alt(a netip.Addr) (netip.Addr, bool) {
	if a.Is4() {
		return netip.AddrFrom16(a.As16()), true
	}
	if a.Is4In6() {
		return a.Unmap(), true
	}
	return a, false
}

func netlistMode(stimFile string, random int, dir string) {
	rng := rand.New(rand.NewSource(vtrace.Seed()))
	var lists [][]absRange
	u := 3
	if stimFile != "" {
		raw, err := os.ReadFile(stimFile)
		if err != nil {
			panic(err)
		}
		if err := json.Unmarshal(raw, &lists); err != nil {
			panic(err)
		}
	}
	for i := 0; i < random; i++ { // longer lists over a larger universe
		n := rng.Intn(7)
		var rs []absRange
		for k := 0; k < n; k++ {
			s := rng.Intn(10)
			e := s + rng.Intn(3)
			if e > 9 {
				e = 9
			}
			if rng.Intn(12) == 0 && s > 0 { // an invalid range: start above end
				e = s - 1
			}
			rs = append(rs, absRange{s, e, []string{"a", "b", "c"}[rng.Intn(3)]})
		}
		lists = append(lists, rs)
	}
	for li, rs := range lists {
		npts := u + 1
		for _, r := range rs {
			if r.S+1 > npts {
				npts = r.S + 1
			}
			if r.E+1 > npts {
				npts = r.E + 1
			}
		}
		if li >= len(lists)-random {
			npts = 10
		}
		pts := pickPoints(rng, npts)
		form := func(a netip.Addr) netip.Addr { // either textual family
			if b, ok := alt(a); ok && rng.Intn(2) == 0 {
				return b
			}
			return a
		}
		rsJS := make([]map[string]any, len(rs))
		for i, r := range rs {
			rsJS[i] = map[string]any{"s": r.S, "e": r.E, "v": r.V}
		}
		// the library
		b := netlist.NewBuilder[string](0)
		addok := make([]bool, len(rs))
		for i, r := range rs {
			addok[i] = b.Add(form(pts[r.S]), form(pts[r.E]), r.V)
		}
		lst, err := b.Build()
		tr.Emit("nl.build", "rs", rsJS, "via", "lib", "addok", addok, "ok", err == nil)
		if err == nil {
			for a, p := range pts {
				probes := []netip.Addr{p}
				if q, ok := alt(p); ok {
					probes = append(probes, q)
				}
				for _, q := range probes {
					v, ok := lst.LookupAddr(q)
					if !ok {
						v = "none"
					}
					tr.Emit("nl.lookup", "a", a, "v", v)
				}
			}
		}
		// the ip-marker file loader in front of it
		var sb strings.Builder
		sb.WriteString("# ranges\n\n")
		for i, r := range rs {
			fmt.Fprintf(&sb, "%s,%s,%s", form(pts[r.S]), form(pts[r.E]), r.V)
			if i%3 == 1 {
				sb.WriteString("   # note")
			}
			sb.WriteString("\n")
			if i%4 == 2 {
				sb.WriteString("   \n")
			}
		}
		fp := filepath.Join(dir, "marker.txt")
		os.WriteFile(fp, []byte(sb.String()), 0o644)
		mark, err := router.VerifIpMarker(fp)
		tr.Emit("nl.build", "rs", rsJS, "via", "marker", "addok", []bool{}, "ok", err == nil)
		if err == nil {
			for a, p := range pts {
				v := mark(p)
				if v == "" {
					v = "none"
				}
				tr.Emit("nl.lookup", "a", a, "v", v)
			}
		}
	}
	fmt.Printf("lists=%d events=%d\n", len(lists), tr.N)
}
