//go:build verif

// cachedrv drives the real cache.MemoryCache with many concurrent Store / Get calls on a cache that is far too
// small for the key set (entries are replaced, evicted and expire all the time, entry objects and value buffers
// are recycled) and records what the lookups returned. Every stored value names its key and its version, so
// the trace specification (MemCacheTrace) can say whether a hit returned what was stored for the key asked.
package main

import (
	"encoding/binary"
	"flag"
	"fmt"
	"math/rand"
	"path/filepath"
	"runtime"
	"sync"
	"sync/atomic"
	"time"

	"github.com/IrineSistiana/mosproxy/internal/cache"
	"github.com/IrineSistiana/mosproxy/internal/pool"
	"github.com/IrineSistiana/mosproxy/internal/zzverif/vtrace"
)

var tr *vtrace.T
var epoch = time.Unix(1_700_000_000, 0)

const hdr = 18 // k u32, n u32, expire (unix ms) u64, len u16

func fill(k, n, i int) byte { return byte(k*131 + n*31 + i*7 + 1) }

func mkValue(k, n int, exp time.Time, l int) []byte {
	b := make([]byte, hdr+l)
	binary.BigEndian.PutUint32(b, uint32(k))
	binary.BigEndian.PutUint32(b[4:], uint32(n))
	binary.BigEndian.PutUint64(b[8:], uint64(exp.UnixMilli()))
	binary.BigEndian.PutUint16(b[16:], uint16(l))
	for i := 0; i < l; i++ {
		b[hdr+i] = fill(k, n, i)
	}
	return b
}

func keyBytes(k int) []byte { return []byte(fmt.Sprintf("key-%05d-%s", k, "abcdefghij"[:k%10])) }

func main() {
	out := flag.String("out", "trace.ndjson", "")
	ms := flag.Int("ms", 4000, "duration")
	nkeys := flag.Int("keys", 600, "")
	size := flag.Int("size", 24*1024, "cache capacity (cost = key + value octets)")
	pairs := flag.Int("pairs", 0, "rounds of one plain store racing one store-if-absent on a fresh key")
	nlStim := flag.String("netlist", "", "TLC-enumerated range lists (json) for the address-range table")
	nlRandom := flag.Int("nlrandom", 0, "random range lists for the address-range table")
	nopoison := flag.Bool("nopoison", false, "released buffers go straight back to the pool (as in production)")
	flag.Parse()
	if *nopoison {
		pool.VerifPassThrough.Store(true)
	}
	seed := vtrace.Seed()
	tr = vtrace.Open(*out)
	defer tr.Close()
	if *pairs > 0 {
		pairPhase(*pairs)
		return
	}
	if *nlStim != "" || *nlRandom > 0 {
		netlistMode(*nlStim, *nlRandom, filepath.Dir(*out))
		return
	}
	c, err := cache.NewMemoryCache(*size)
	if err != nil {
		panic(err)
	}
	vers := make([]atomic.Int64, *nkeys)
	deadline := time.Now().Add(time.Duration(*ms) * time.Millisecond)
	var gets, hits, stores, logged, odd atomic.Int64
	var wg sync.WaitGroup
	procs := runtime.GOMAXPROCS(0)
	for g := 0; g < procs*2; g++ {
		wg.Add(1)
		go func(g int) {
			defer wg.Done()
			defer func() {
				if p := recover(); p != nil {
					tr.Emit("crash", "what", "memcache", "panic", fmt.Sprint(p))
					panic(p)
				}
			}()
			rng := rand.New(rand.NewSource(seed*1000 + int64(g)))
			zipf := rand.NewZipf(rng, 1.2, 8, uint64(*nkeys-1))
			for i := 0; time.Now().Before(deadline) && odd.Load() < 20; i++ {
				k := int(zipf.Uint64())
				if rng.Intn(3) == 0 {
					k = rng.Intn(*nkeys) // cold keys: eviction pressure
				}
				kb := keyBytes(k)
				if rng.Intn(100) < 35 {
					n := int(vers[k].Add(1))
					ttl := time.Duration(2+rng.Intn(600)) * time.Second
					if rng.Intn(8) == 0 {
						ttl = time.Duration(1000+rng.Intn(1500)) * time.Millisecond // expires during the run
					}
					exp := time.Now().Add(ttl)
					v := mkValue(k, n, exp, 20+rng.Intn(300))
					c.Store(kb, epoch.Add(time.Duration(k*100000+n)*time.Second), exp, v, rng.Intn(4) == 0)
					for j := range v { // the caller's buffer is the caller's again
						v[j] = 0xA5
					}
					stores.Add(1)
					continue
				}
				v, st, ex := c.Get(kb)
				maxv := int(vers[k].Load())
				gets.Add(1)
				if v == nil {
					continue
				}
				hits.Add(1)
				rk, rn, l, tagEx, intact := -1, -1, -1, int64(-1), false
				if len(v) >= hdr {
					rk, rn = int(binary.BigEndian.Uint32(v)), int(binary.BigEndian.Uint32(v[4:]))
					tagEx = int64(binary.BigEndian.Uint64(v[8:]))
					l = int(binary.BigEndian.Uint16(v[16:]))
					intact = len(v) == hdr+l
					for j := 0; intact && j < l; j++ {
						intact = v[hdr+j] == fill(rk, rn, j)
					}
				}
				stN := int64(st.Sub(epoch) / time.Second)
				good := rk == k && rn >= 1 && rn <= maxv && intact && stN == int64(k*100000+rn) && ex.UnixMilli() == tagEx
				if !good {
					odd.Add(1)
				}
				if !good || hits.Load()%97 == 0 {
					if logged.Add(1) <= 30000 {
						tr.Emit("mc.get", "k", k, "rk", rk, "rn", rn, "maxv", maxv, "intact", intact, "len", len(v),
							"st", stN, "ex", ex.UnixMilli(), "tagex", tagEx)
					}
				}
				pool.ReleaseBuf(v)
			}
		}(g)
	}
	wg.Wait()
	c.Close()
	tr.Emit("mc.sum", "gets", gets.Load(), "hits", hits.Load(), "stores", stores.Load(), "odd", odd.Load())
	fmt.Printf("gets=%d hits=%d stores=%d odd=%d events=%d\n", gets.Load(), hits.Load(), stores.Load(), odd.Load(), tr.N)
}

// pairPhase: on a cache with ample room, a plain store (version 1, what a positive answer does) and a
// store-if-absent (version 2, what an error response does) for the same fresh key are released at the same
// instant. Whatever the order, once both have returned the key holds version 1: either the store-if-absent
// found the key present, or the plain store replaced what it had put there.
func pairPhase(rounds int) {
	c, err := cache.NewMemoryCache(32 << 20)
	if err != nil {
		panic(err)
	}
	defer c.Close()
	var round atomic.Int64 // bumped by the coordinator: both workers spin on it
	var done sync.WaitGroup
	exp := time.Now().Add(time.Hour)
	worker := func(n int, nx bool) {
		last := int64(0)
		for {
			r := round.Load()
			if r == last {
				continue
			}
			if r < 0 {
				return
			}
			last = r
			k := 1000000 + int(r)
			c.Store(keyBytes(k), epoch.Add(time.Duration(k*100000+n)*time.Second), exp, mkValue(k, n, exp, 24), nx)
			done.Done()
		}
	}
	go worker(1, false)
	go worker(2, true)
	neg := 0
	for r := 1; r <= rounds; r++ {
		done.Add(2)
		round.Store(int64(r))
		done.Wait()
		k := 1000000 + r
		v, _, _ := c.Get(keyBytes(k))
		got := 0
		if len(v) >= hdr && int(binary.BigEndian.Uint32(v)) == k {
			got = int(binary.BigEndian.Uint32(v[4:]))
		} else if v != nil {
			got = -1
		}
		if v != nil {
			pool.ReleaseBuf(v)
		}
		if got != 1 {
			neg++
		}
		if got != 1 || r%10 == 0 {
			tr.Emit("mc.pair", "k", k, "got", got)
		}
		if r%5 == 0 {
			// what the cache keeps is its own: the caller overwrites the key and value buffers it passed to Store
			// as soon as Store has returned (the proxy hands them back to the buffer pool); the entry is still
			// found under the key and holds the value
			k3 := 2000000 + r
			kb, vb := keyBytes(k3), mkValue(k3, 1, exp, 24)
			c.Store(kb, epoch.Add(time.Duration(k3*100000+1)*time.Second), exp, vb, r%10 == 0)
			for j := range kb {
				kb[j] = 0xDB
			}
			for j := range vb {
				vb[j] = 0xDB
			}
			v3, _, _ := c.Get(keyBytes(k3))
			hit, intact := v3 != nil, false
			if hit {
				intact = string(v3) == string(mkValue(k3, 1, exp, 24))
				pool.ReleaseBuf(v3)
			}
			if !hit || !intact || r%50 == 0 {
				tr.Emit("mc.keep", "k", k3, "hit", hit, "intact", intact)
			}
		}
	}
	round.Store(-1)
	// a hot entry: many lookups of one stored key at the same time, nothing is stored or evicted meanwhile -
	// every one of them finds it (readers do not exclude each other; MemCache: GetTry fails only for a writer)
	{
		k := 3000001
		c.Store(keyBytes(k), epoch.Add(time.Duration(k*100000+1)*time.Second), exp, mkValue(k, 1, exp, 40), false)
		var misses, gets atomic.Int64
		var wg sync.WaitGroup
		for g := 0; g < 16; g++ {
			wg.Add(1)
			go func() {
				defer wg.Done()
				kb := keyBytes(k)
				for i := 0; i < 20000; i++ {
					v, _, _ := c.Get(kb)
					gets.Add(1)
					if v == nil {
						misses.Add(1)
					} else {
						pool.ReleaseBuf(v)
					}
				}
			}()
		}
		wg.Wait()
		tr.Emit("mc.hot", "gets", gets.Load(), "misses", misses.Load())
	}
	tr.Emit("mc.sum", "gets", rounds, "hits", rounds, "stores", 2*rounds, "odd", neg)
	fmt.Printf("pairs=%d not-positive=%d events=%d\n", rounds, neg, tr.N)
}
