//go:build verif

package main

import (
	"context"
	"errors"
	"flag"
	"fmt"
	"math/rand"
	"net"
	"sync/atomic"
	"time"

	"crypto/tls"
	"sync"

	"github.com/IrineSistiana/mosproxy/internal/pool"
	"github.com/IrineSistiana/mosproxy/internal/upstream"
	"github.com/IrineSistiana/mosproxy/internal/upstream/transport"
	"github.com/IrineSistiana/mosproxy/internal/zzverif/vtrace"
	"github.com/miekg/dns"
)

func dialer(network, addr string) func(ctx context.Context) (net.Conn, error) {
	return func(ctx context.Context) (net.Conn, error) {
		var d net.Dialer
		return d.DialContext(ctx, network, addr)
	}
}

// C05: multiplexed connections against an adversarial server
func modePipe(n int, long bool) {
	sc := func(ex int, proto string) behaviour {
		h := h32(ex, int(seed))
		b := behaviour{delay: time.Duration(h%25) * time.Millisecond}
		switch (h >> 8) % 12 {
		case 0:
			b.drop = true
		case 1:
			b.dup = true
		case 2:
			b.unsolic = 1 + int(h>>16)%3
		case 3:
			b.delay = time.Duration(60+(h>>16)%120) * time.Millisecond // late, probably after cancel
		case 4:
			b.dup = true
			b.unsolic = 2
		case 5:
			b.stranger = true
			b.delay = 30 * time.Millisecond
		}
		return b
	}
	srv := newServer("p", sc, true, true)
	defer srv.close()
	for _, tcp := range []bool{false, true} {
		netw := "udp"
		if tcp {
			netw = "tcp"
		}
		tr.Emit("seg", "name", "pipe-"+netw)
		t := transport.NewPipelineTransport(transport.PipelineOpts{
			DialContext: dialer(netw, srv.addr), IsTCP: tcp, MaxConcurrentQuery: 16, IdleTimeout: 2 * time.Second,
		})
		oversize = !tcp // UDP: some queries exceed the datagram limit (write fails, connection stays)
		runWorkers(t, 32, n/32+1, 30*time.Millisecond, 110*time.Millisecond, false)
		oversize = false
		// deadlines that fall around the arrival of the reply (0..25 ms): the cancellation races the delivery
		runWorkers(t, 32, n/32+1, 300*time.Microsecond, 26*time.Millisecond, false)
		t.Close()
		// staged race: the write of a query returns only after its reply has been read and delivered and the
		// caller's context has been cancelled - the caller's select finds the reply and the cancellation ready
		// at the same time. Whichever it takes, a reply it returns carries the caller's ID.
		tr.Emit("seg", "name", "pipe-staged-"+netw)
		var curCancel atomic.Value
		ctxHook = func(c context.CancelFunc) { curCancel.Store(c) }
		st := transport.NewPipelineTransport(transport.PipelineOpts{
			DialContext: func(ctx context.Context) (net.Conn, error) {
				c, err := dialer(netw, srv.addr)(ctx)
				if err != nil {
					return nil, err
				}
				return &stagedConn{Conn: c, cancel: &curCancel, got: make(chan struct{}, 16)}, nil
			}, IsTCP: tcp, MaxConcurrentQuery: 16, IdleTimeout: 2 * time.Second,
		})
		runWorkers(st, 1, 60, 400*time.Millisecond, 400*time.Millisecond, false)
		ctxHook = nil
		st.Close()
	}
	if long {
		// more than 65536 exchanges on ONE connection object, the first one kept in flight
		// (never answered): only the ID assignments are recorded
		tr.Emit("seg", "name", "pipe-long")
		var first atomic.Bool
		fast := newServer("l", func(ex int, _ string) behaviour {
			if first.CompareAndSwap(false, true) {
				return behaviour{drop: true}
			}
			return behaviour{}
		}, true, false)
		defer fast.close()
		onlyEvents = map[string]bool{"pc.add": true, "pc.eol": true}
		t := transport.NewPipelineTransport(transport.PipelineOpts{
			DialContext: dialer("udp", fast.addr), IsTCP: false, MaxConcurrentQuery: 4096, IdleTimeout: 30 * time.Second,
		})
		c, err := dialer("udp", fast.addr)(context.Background())
		if err != nil {
			panic(err)
		}
		pc := transport.VerifNewPipelineConn(c, t)
		held := make(chan struct{})
		go func() {
			rng := rand.New(rand.NewSource(seed))
			doExchange(pc, rng, 60*time.Second, true)
			close(held)
		}()
		time.Sleep(20 * time.Millisecond)
		runWorkers(pc, 8, 65560/8, 500*time.Millisecond, 500*time.Millisecond, true)
		pc.Close()
		<-held
		t.Close()
		onlyEvents = nil
	}
}

// stagedConn: see the staged race in modePipe
type stagedConn struct {
	net.Conn
	cancel *atomic.Value
	got    chan struct{}
}

func (c *stagedConn) Read(p []byte) (int, error) {
	n, err := c.Conn.Read(p)
	if n > 0 {
		select {
		case c.got <- struct{}{}:
		default:
		}
	}
	return n, err
}

func (c *stagedConn) Write(p []byte) (int, error) {
	for len(c.got) > 0 { // replies that belong to earlier queries
		<-c.got
	}
	n, err := c.Conn.Write(p)
	select {
	case <-c.got:
		time.Sleep(400 * time.Microsecond) // the read loop decodes the reply and hands it to the waiting exchange
		if f, ok := c.cancel.Load().(context.CancelFunc); ok {
			f()
		}
	case <-time.After(60 * time.Millisecond): // this query gets no reply (the server's script)
	}
	return n, err
}

// C06: one-at-a-time connections; callers cancel around the reply time; idle timers race
func modeReuse(n int) {
	sc := func(ex int, proto string) behaviour {
		h := h32(ex, int(seed), 6)
		b := behaviour{delay: time.Duration(h%20) * time.Millisecond}
		switch (h >> 8) % 14 {
		case 0:
			b.drop = true
		case 1:
			b.abort = true
		case 2:
			b.split = true
		case 3:
			b.delay = time.Duration(100+(h>>16)%120) * time.Millisecond // around / after the response timeout
		case 4:
			b.partial = true
		case 5, 6:
			b.closeAfter = true
		case 7:
			b.split = true
			b.delay = time.Duration(30+(h>>16)%40) * time.Millisecond
		case 8:
			b.short = true
		}
		return b
	}
	srv := newServer("r", sc, false, true)
	defer srv.close()
	tr.Emit("seg", "name", "reuse")
	t := transport.NewReuseConnTransport(transport.ReuseConnOpts{
		DialContext: dialer("tcp", srv.addr), IdleTimeout: 25 * time.Millisecond, DialTimeout: time.Second,
	})
	transport.VerifSetRespTimeout(t, 150*time.Millisecond)
	workerPause = 60 * time.Millisecond // lets idle timers (25 ms) fire between uses
	runWorkers(t, 12, n/12+1, 15*time.Millisecond, 220*time.Millisecond, false)
	workerPause = 0
	time.Sleep(250 * time.Millisecond) // let the workers that outlived their callers finish
	// payloads of more than 65535 octets cannot be framed: the exchange is refused and nothing of it reaches the
	// server - not even when what a wrapped length prefix would frame is a query, followed by another one
	for k := 0; k < 8; k++ {
		overExchange(t, k)
		doExchange(t, rand.New(rand.NewSource(seed+int64(k))), 200*time.Millisecond, false)
	}
	time.Sleep(250 * time.Millisecond)
	t.Close()
	time.Sleep(50 * time.Millisecond)
}

func overExchange(u exchanger, k int) {
	mk := func() []byte {
		q := new(dns.Msg)
		q.SetQuestion(exName(int(exCtr.Add(1))), dns.TypeA) // exchanges that never begin: the server must not see them
		q.Id = uint16(4000 + k)
		w, err := q.Pack()
		if err != nil {
			panic(err)
		}
		return w
	}
	q1, q2 := mk(), mk()
	m := append([]byte{}, q1...)
	m = append(m, byte(len(q2)>>8), byte(len(q2)))
	m = append(m, q2...)
	m = append(m, make([]byte, 65536+len(q1)-len(m)+[]int{0, 1, 700}[k%3])...)
	if k%3 != 0 {
		m = m[:65536+k]
	}
	ctx, cancel := context.WithTimeout(context.Background(), 300*time.Millisecond)
	defer cancel()
	r, err := u.ExchangeContext(ctx, m)
	if r != nil {
		releaseMsg(r)
	}
	tr.Emit("over.end", "len", len(m), "refused", errors.Is(err, transport.ErrPayloadOverFlow), "reply", r != nil)
}

// C16: UDP upstream with TCP fallback; per exchange the server script fixes both legs
func modeFallback(n int) {
	plan := func(ex int) (string, string) {
		h := h32(ex, int(seed), 16)
		u := []string{"ok", "tc", "tc", "tc", "drop", "ok"}[h%6]
		t := []string{"ok", "ok", "ok", "abort", "drop"}[(h>>8)%5]
		return u, t
	}
	sc := func(ex int, proto string) behaviour {
		u, t := plan(ex)
		h := h32(ex, int(seed), 17)
		b := behaviour{delay: time.Duration(h%8) * time.Millisecond}
		if proto == "udp" {
			b.tc = u == "tc"
			b.drop = u == "drop"
			if u == "ok" && (h>>24)%3 == 0 { // somebody else's datagram with the query's ID arrives before the server's reply
				b.stranger = true
				b.delay = 30 * time.Millisecond
			}
			if b.tc { // a truncated reply may carry any rcode (e.g. NXDOMAIN whose authority section did not fit)
				b.rcode = []int{0, 0, 2, 3, 5}[(h>>4)%5]
				b.hdronly = (h>>20)%4 == 0 // ... and may be nothing but the 12-octet header
			}
		} else {
			b.abort = t == "abort"
			b.drop = t == "drop"
			// the server closes some connections right after the reply: the next fall-back finds a stale
			// idle connection and has to send the same query again on a new one
			b.closeAfter = (h>>12)%3 == 0
		}
		return b
	}
	srv := newServer("f", sc, true, true)
	defer srv.close()
	tr.Emit("seg", "name", "fallback")
	u, err := upstream.NewUpstream("udp://"+srv.addr, upstream.Opt{})
	if err != nil {
		panic(err)
	}
	planOf = plan
	onlyEvents = map[string]bool{"srv.recv": true, "srv.send": true, "srv.abort": true}
	runWorkers(u, 8, n/8+1, 300*time.Millisecond, 300*time.Millisecond, false)
	// second phase: deadlines that fall around the arrival of the UDP reply (caller cancellation racing the TC check)
	shortDeadlines = true
	runWorkers(u, 8, n/4+1, 300*time.Microsecond, 9*time.Millisecond, false)
	shortDeadlines = false
	time.Sleep(350 * time.Millisecond)
	u.Close()
	// third phase: the URL names one server, dial_addr another: both legs belong to the dial_addr server; the
	// server of the URL (a decoy that would answer anything) must never see a query, on either protocol
	decoy := newServer("decoy", func(ex int, proto string) behaviour { return behaviour{} }, true, true)
	defer decoy.close()
	u2, err := upstream.NewUpstream("udp://"+decoy.addr, upstream.Opt{DialAddr: srv.addr})
	if err != nil {
		panic(err)
	}
	runWorkers(u2, 4, n/8+1, 300*time.Millisecond, 300*time.Millisecond, false)
	time.Sleep(350 * time.Millisecond)
	u2.Close()
	// fourth phase: the server's TCP port is down for a while (ten truncated replies: the fall-back's dial is
	// refused, the exchange fails), then it is back: the fall-back works again
	var tcpUp atomic.Bool
	plan4 := func(ex int) (string, string) {
		if tcpUp.Load() {
			return "tc", "ok"
		}
		return "tc", "abort"
	}
	srv4 := newServer("f4", func(ex int, proto string) behaviour { return behaviour{tc: proto == "udp"} }, true, false)
	defer srv4.close()
	u4, err := upstream.NewUpstream("udp://"+srv4.addr, upstream.Opt{})
	if err != nil {
		panic(err)
	}
	planOf = plan4
	runWorkers(u4, 2, 5, 300*time.Millisecond, 300*time.Millisecond, false)
	if l, err := net.Listen("tcp", srv4.addr); err == nil {
		srv4.tl = l
		go srv4.serveTCP()
		tcpUp.Store(true)
		time.Sleep(20 * time.Millisecond)
		runWorkers(u4, 2, 4, 300*time.Millisecond, 300*time.Millisecond, false)
	}
	time.Sleep(350 * time.Millisecond)
	u4.Close()
	// fifth phase: the TCP leg is slow (3.6 s) but succeeds well inside the caller's deadline (6 s): the caller gets
	// the TCP answer - the time the UDP leg was given does not bound the retry
	srv5 := newServer("f5", func(ex int, proto string) behaviour {
		if proto == "udp" {
			return behaviour{tc: true}
		}
		return behaviour{delay: 3600 * time.Millisecond}
	}, true, true)
	defer srv5.close()
	u5, err := upstream.NewUpstream("udp://"+srv5.addr, upstream.Opt{})
	if err != nil {
		panic(err)
	}
	planOf = func(ex int) (string, string) { return "tc", "ok" }
	runWorkers(u5, 2, 1, 6*time.Second, 6*time.Second, false)
	u5.Close()
	// sixth phase: the server is reached over IPv6 ([::1]): both legs, truncated replies retried over TCP
	if c, err := net.ListenUDP("udp", &net.UDPAddr{IP: net.ParseIP("::1")}); err == nil {
		c.Close()
		serverIP = "::1"
		srv6 := newServer("f6", sc, true, true)
		serverIP = "127.0.0.1"
		defer srv6.close()
		u6, err := upstream.NewUpstream("udp://"+srv6.addr, upstream.Opt{})
		if err != nil {
			panic(err)
		}
		planOf = plan
		runWorkers(u6, 4, n/16+1, 300*time.Millisecond, 300*time.Millisecond, false)
		time.Sleep(350 * time.Millisecond)
		u6.Close()
	}
	planOf = nil
	// the event filter stays on: hook events of worker goroutines that outlive the run must not reach this trace
}

// C20: DoH exchanges whose callers give up while the HTTP round trip is still being prepared / in flight,
// with other exchanges recycling pooled buffers meanwhile
func modeDohCancel(n int) {
	onlyEvents = map[string]bool{}
	s := newFsrv("https")
	defer s.close()
	u, err := upstream.NewUpstream(s.url(), upstream.Opt{TLSConfig: &tls.Config{InsecureSkipVerify: true}})
	if err != nil {
		panic(err)
	}
	tr.Emit("seg", "name", "dohcancel")
	var wg sync.WaitGroup
	for w := 0; w < 16; w++ {
		wg.Add(1)
		go func(w int) {
			defer wg.Done()
			rng := rand.New(rand.NewSource(seed*77 + int64(w)))
			for i := 0; i < n/16+1; i++ {
				q := new(dns.Msg)
				q.SetQuestion(exName(int(exCtr.Add(1))), dns.TypeA)
				wire, _ := q.Pack()
				d := time.Duration(rng.Intn(3000)) * time.Microsecond // often shorter than dial + TLS + request write
				if rng.Intn(4) == 0 {
					d = 200 * time.Millisecond
				}
				ctx, cancel := context.WithTimeout(context.Background(), d)
				r, _ := u.ExchangeContext(ctx, wire)
				cancel()
				if r != nil {
					releaseMsg(r)
				}
				// churn pooled buffers of the same size classes
				for k := 0; k < 4; k++ {
					b := pool.GetBuf(40 + rng.Intn(80))
					for j := range b {
						b[j] = 'X'
					}
					pool.ReleaseBuf(b)
				}
			}
		}(w)
	}
	wg.Wait()
	time.Sleep(300 * time.Millisecond)
	u.Close()
}

func main() {
	out := flag.String("out", "trace.ndjson", "")
	mode := flag.String("mode", "pipe", "")
	n := flag.Int("n", 1000, "")
	long := flag.Bool("long", false, "")
	in := flag.String("in", "", "input file (qreplay: paths)")
	ownPath := flag.String("own", "", "ownership trace (pool / object hooks)")
	flag.Parse()
	if *ownPath != "" {
		own = vtrace.NewOwn(*ownPath, 16)
		defer own.T.Close()
	}
	seed = vtrace.Seed()
	tr = vtrace.Open(*out)
	installSink()
	switch *mode {
	case "pipe":
		modePipe(*n, *long)
	case "reuse":
		modeReuse(*n)
	case "fallback":
		modeFallback(*n)
	case "fault":
		modeFault(*long)
	case "life":
		modeLife(*long)
	case "dohcancel":
		modeDohCancel(*n)
	case "quic":
		modeQuic(*n)
	case "qreplay":
		modeQReplay(*in, time.Duration(*n)*time.Millisecond)
	case "rreplay":
		modeRReplay(*in, time.Duration(*n)*time.Millisecond)
	case "preplay":
		modePReplay(*in, time.Duration(*n)*time.Millisecond)
	default:
		panic("unknown mode " + *mode)
	}
	time.Sleep(50 * time.Millisecond)
	tr.Close()
	fmt.Printf("mode=%s events=%d\n", *mode, tr.N)
}
