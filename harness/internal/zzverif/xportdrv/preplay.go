//go:build verif

package main

import (
	"context"
	"encoding/binary"
	"encoding/json"
	"errors"
	"fmt"
	"net"
	"os"
	"reflect"
	"strings"
	"sync"
	"time"
	"unsafe"

	"github.com/IrineSistiana/connpool"
	"github.com/IrineSistiana/mosproxy/internal/upstream/transport"
	"github.com/IrineSistiana/mosproxy/internal/verifhook"
	"github.com/miekg/dns"
)

// mode preplay: behaviours of PipeStep (random walks of TLC's simulator over PipeStepReplay) are stepped through
// the real PipelineTransport (connection pool + pipelined connections). Goroutines of the code under test pass a
// gate only when the behaviour's next action is theirs; the dialer and the connections are scripted (a Write
// returns when the behaviour says so, the read loop gets exactly the frames the behaviour's server sends, with
// any wire ID); the ID counter of a fresh connection is moved to MaxId+1 below the end of the 16-bit space so that
// exhaustion and retirement are within reach. After every step the projected state of the real objects - pool
// (closed, busy / idle sets, stream counts), per connection closed / ID counter / reservations / waiter table /
// read loop position, per exchange where it is, on which connection, with which wire ID, retry counter, error,
// result and the token of the reply it returned - must equal the model's.

type ppState struct {
	Tclosed  bool     `json:"tclosed"`
	Cst      []string `json:"cst"`
	Pool     []string `json:"pool"`
	Streams  []int    `json:"streams"`
	Dqsum    int      `json:"dqsum"`
	Nextqid  []int    `json:"nextqid"`
	Reserved []int    `json:"reserved"`
	Nqueue   []int    `json:"nqueue"`
	Rl       []bool   `json:"rl"`
	Pc       []string `json:"pc"`
	C        []int    `json:"c"`
	Qid      []int    `json:"qid"`
	Retry    []int    `json:"retry"`
	Err      []string `json:"err"`
	Res      []string `json:"res"`
	Got      []int    `json:"got"`
	Ctxdone  []bool   `json:"ctxdone"`
}

type ppAct struct {
	A   string `json:"a"`
	E   int    `json:"e,omitempty"`
	C   int    `json:"c,omitempty"`
	Ok  bool   `json:"ok,omitempty"`
	K   string `json:"k,omitempty"`
	Q   int    `json:"q,omitempty"`
	Tok int    `json:"tok,omitempty"`
}

type ppStep struct {
	Act    ppAct   `json:"act"`
	S      int     `json:"s"`
	Alts   []int   `json:"alts"`
	Merged []ppAct `json:"merged"`
}

type ppFile struct {
	States    []ppState  `json:"states"`
	Init      int        `json:"init"`
	Paths     [][]ppStep `json:"paths"`
	MaxID     int        `json:"maxid"`
	MaxStream int        `json:"maxstream"`
	UDP       bool       `json:"udp"`   // datagram framing (a UDP upstream): no length prefix, the wire ID is the first two octets
	Mixed     bool       `json:"mixed"` // every other behaviour with datagram framing
}

var errPPDial = errors.New("verif: scripted dial failure")
var errPPIO = errors.New("verif: scripted i/o failure")

// ---------------------------------------------------------------- scripted connection

type ppRead struct {
	frame []byte
	err   error
}

type ppConn struct {
	udp    bool
	id     int
	r      *ppRun
	mu     sync.Mutex
	closed bool
	done   chan struct{}
	rbuf   []byte
	rcmd   chan ppRead
	wcmd   map[int]chan bool // wire id -> command for the Write parked with that id
	wrote  []int             // wire ids of the frames the server received
}

func (c *ppConn) LocalAddr() net.Addr               { return fakeAddr{} }
func (c *ppConn) RemoteAddr() net.Addr              { return fakeAddr{} }
func (c *ppConn) SetDeadline(time.Time) error       { return nil }
func (c *ppConn) SetWriteDeadline(time.Time) error  { return nil }
func (c *ppConn) SetReadDeadline(t time.Time) error { return nil }
func (c *ppConn) isClosed() bool                    { c.mu.Lock(); defer c.mu.Unlock(); return c.closed }
func (c *ppConn) Close() error {
	c.mu.Lock()
	if !c.closed {
		c.closed = true
		close(c.done)
	}
	c.mu.Unlock()
	return nil
}

func (c *ppConn) wchan(wid int) chan bool {
	c.mu.Lock()
	defer c.mu.Unlock()
	ch := c.wcmd[wid]
	if ch == nil {
		ch = make(chan bool, 1)
		c.wcmd[wid] = ch
	}
	return ch
}

// Write parks until the behaviour's Write(e, ok) step for the exchange that owns the frame's wire ID
func (c *ppConn) Write(p []byte) (int, error) {
	if c.r.isFree() {
		return 0, errPPIO
	}
	if len(p) < 14 {
		c.r.note("short frame written: %d octets", len(p))
		return 0, errPPIO
	}
	msg := p[2:]
	if c.udp {
		msg = p
	}
	wid := int(binary.BigEndian.Uint16(msg))
	c.r.parkedWrite(c.id, wid, msg)
	ok := <-c.wchan(wid)
	if !ok {
		return 0, errPPIO
	}
	c.mu.Lock()
	c.wrote = append(c.wrote, wid)
	c.mu.Unlock()
	return len(p), nil
}

// Read: the read loop parks here until Lookup(c, m) hands it one frame, ReadErr(c), or the connection is closed
func (c *ppConn) Read(p []byte) (int, error) {
	c.mu.Lock()
	if len(c.rbuf) > 0 {
		n := copy(p, c.rbuf)
		c.rbuf = c.rbuf[n:]
		c.mu.Unlock()
		return n, nil
	}
	c.mu.Unlock()
	select {
	case cmd := <-c.rcmd:
		if cmd.err != nil {
			return 0, cmd.err
		}
		n := copy(p, cmd.frame)
		c.mu.Lock()
		c.rbuf = cmd.frame[n:]
		c.mu.Unlock()
		return n, nil
	case <-c.done:
		return 0, net.ErrClosed
	}
}

// ---------------------------------------------------------------- one run

type ppRun struct {
	udp       bool
	t         *transport.PipelineTransport
	nex, ncon int
	base      int // wire id = base + model id

	mu      sync.Mutex
	free    bool
	permits map[string]chan struct{}
	ctxEx   map[any]int
	cancels []context.CancelCauseFunc
	conns   []*ppConn
	pcs     []any // *pipelineConn per conn id
	dialCh  []chan bool
	ndial   int
	dialst  []string // none | dialing | ok | failed
	rl      []bool
	adding  int

	pc, errk, res      []string
	c, qid, retry, got []int
	ctxdone, afterRel  []bool
	notes              []string
	wg                 sync.WaitGroup
}

var ppCur *ppRun
var ppMu sync.Mutex

func ppCurrent() *ppRun { ppMu.Lock(); defer ppMu.Unlock(); return ppCur }

func (r *ppRun) isFree() bool { r.mu.Lock(); defer r.mu.Unlock(); return r.free }

func (r *ppRun) note(f string, a ...any) {
	r.mu.Lock()
	r.notes = append(r.notes, fmt.Sprintf(f, a...))
	r.mu.Unlock()
}

func newPPRun(nex, ncon, maxid, maxstream int, udp bool) *ppRun {
	r := &ppRun{udp: udp, nex: nex, ncon: ncon, base: 65536 - (maxid + 1), permits: map[string]chan struct{}{}, ctxEx: map[any]int{}}
	r.conns, r.pcs, r.dialCh = make([]*ppConn, ncon), make([]any, ncon), make([]chan bool, ncon)
	for i := range r.dialCh {
		r.dialCh[i] = make(chan bool, 1)
	}
	r.dialst, r.rl = fill(ncon, "none"), make([]bool, ncon)
	r.pc, r.errk, r.res = fill(nex, "idle"), fill(nex, "none"), fill(nex, "none")
	r.c, r.qid, r.retry, r.got = make([]int, nex), make([]int, nex), make([]int, nex), make([]int, nex)
	r.ctxdone, r.afterRel = make([]bool, nex), make([]bool, nex)
	for i := range r.qid {
		r.qid[i] = -1 // no wire id yet
	}
	r.cancels = make([]context.CancelCauseFunc, nex)
	r.t = transport.NewPipelineTransport(transport.PipelineOpts{DialContext: r.dial, DialTimeout: time.Hour, IdleTimeout: time.Hour,
		IsTCP: !udp, MaxConcurrentQuery: maxstream})
	return r
}

// the injected dialer: the k-th dial waits for DialDone(k, ok)
func (r *ppRun) dial(ctx context.Context) (net.Conn, error) {
	r.mu.Lock()
	r.ndial++
	k := r.ndial
	free := r.free
	if k <= r.ncon {
		r.dialst[k-1] = "dialing"
	}
	r.mu.Unlock()
	if k > r.ncon || free {
		return nil, errPPDial
	}
	ok := <-r.dialCh[k-1]
	if !ok {
		r.mu.Lock()
		r.dialst[k-1] = "failed"
		r.mu.Unlock()
		return nil, errPPDial
	}
	c := &ppConn{udp: r.udp, id: k, r: r, done: make(chan struct{}), rcmd: make(chan ppRead, 1), wcmd: map[int]chan bool{}}
	r.mu.Lock()
	r.conns[k-1] = c
	r.mu.Unlock()
	return c, nil
}

func (r *ppRun) permit(key string) chan struct{} {
	ch := r.permits[key]
	if ch == nil {
		ch = make(chan struct{}, 64)
		r.permits[key] = ch
	}
	return ch
}

func (r *ppRun) grant(key string) {
	r.mu.Lock()
	ch := r.permit(key)
	r.mu.Unlock()
	ch <- struct{}{}
}

// connOf: the id of the scripted connection under a *pipelineConn (caller holds r.mu)
func (r *ppRun) connOf(pc any) int {
	if fc, ok := transport.VerifPcNetConn(pc).(*ppConn); ok && fc.r == r {
		return fc.id
	}
	return 0
}

func (r *ppRun) exOfWire(conn, wid int) int {
	for e := 1; e <= r.nex; e++ {
		if r.c[e-1] == conn && r.qid[e-1] >= 0 && r.qid[e-1]+r.base == wid && (r.pc[e-1] == "add" || r.pc[e-1] == "write" || r.pc[e-1] == "sel" || r.pc[e-1] == "del") {
			return e
		}
	}
	return 0
}

// parkedWrite: the exchange whose frame this is has reached its write
func (r *ppRun) parkedWrite(conn, wid int, p []byte) {
	r.mu.Lock()
	defer r.mu.Unlock()
	e := r.exOfWire(conn, wid)
	if e == 0 {
		r.notes = append(r.notes, fmt.Sprintf("frame with wire id %d written on connection %d: no exchange owns that id", wid-r.base, conn))
		return
	}
	if id, ex := parseQuery(p); ex != e || id != wid {
		r.notes = append(r.notes, fmt.Sprintf("frame with wire id %d on connection %d carries the question of exchange %d, the id belongs to exchange %d", wid-r.base, conn, ex, e))
	}
	r.pc[e-1] = "write"
}

// gate: runs on the goroutine of the code under test
func (r *ppRun) gate(name string, args []any) {
	r.mu.Lock()
	if len(args) == 0 || args[0] != any(r.t) {
		r.mu.Unlock()
		return
	}
	if name == "pc.new" { // never blocks: the fresh connection's ID counter is moved near the end of the ID space
		if k := r.connOf(args[1]); k > 0 {
			r.pcs[k-1] = args[1]
			r.dialst[k-1] = "ok"
			transport.VerifPcSetNextQid(args[1], r.base)
		}
		r.mu.Unlock()
		return
	}
	if r.free {
		r.mu.Unlock()
		return
	}
	var key string
	switch name {
	case "pt.get":
		e, ok := r.ctxEx[args[1]]
		if !ok {
			r.mu.Unlock()
			return
		}
		r.pc[e-1], r.retry[e-1], r.c[e-1], r.qid[e-1], r.errk[e-1], r.afterRel[e-1] = "get", args[2].(int), 0, -1, "none", false
		key = fmt.Sprint("get:", e)
	case "pc.g.add":
		e, ok := r.ctxEx[args[1]]
		if !ok {
			r.mu.Unlock()
			return
		}
		r.pc[e-1], r.c[e-1] = "add", r.connOf(args[2])
		key = fmt.Sprint("add:", e)
	case "pc.g.sel":
		e, ok := r.ctxEx[args[1]]
		if !ok {
			r.mu.Unlock()
			return
		}
		r.pc[e-1] = "sel"
		key = fmt.Sprint("sel:", e)
	case "pc.g.del":
		e := r.exOfWire(r.connOf(args[1]), args[2].(int))
		if e == 0 {
			r.mu.Unlock()
			return
		}
		r.pc[e-1] = "del"
		key = fmt.Sprint("del:", e)
	case "pt.rel":
		e, ok := r.ctxEx[args[1]]
		if !ok {
			r.mu.Unlock()
			return
		}
		r.pc[e-1], r.afterRel[e-1] = "rel", true
		key = fmt.Sprint("rel:", e)
	case "pc.g.send":
		k := r.connOf(args[1])
		if k == 0 {
			r.mu.Unlock()
			return
		}
		r.rl[k-1] = true
		key = fmt.Sprint("send:", k)
	default:
		r.mu.Unlock()
		return
	}
	ch := r.permit(key)
	r.mu.Unlock()
	<-ch
	if name == "pc.g.send" {
		r.mu.Lock()
		r.rl[r.connOf(args[1])-1] = false
		r.mu.Unlock()
	}
}

func (r *ppRun) event(name string, args []any) {
	r.mu.Lock()
	defer r.mu.Unlock()
	if r.free || len(args) == 0 {
		return
	}
	switch name {
	case "pc.add": // c, qid, nextQid, chan: the exchange that was let through its add gate got this wire id
		if transport.VerifPcTransport(args[0]) != r.t || r.adding == 0 {
			return
		}
		r.qid[r.adding-1] = args[1].(int) - r.base
		r.adding = 0
	case "pc.eol":
		if transport.VerifPcTransport(args[0]) != r.t || r.adding == 0 {
			return
		}
		r.errk[r.adding-1] = "eol"
		r.adding = 0
	case "pc.ret":
		if transport.VerifPcTransport(args[0]) != r.t {
			return
		}
		if e, ok := r.ctxEx[args[1]]; ok {
			r.errk[e-1] = map[string]string{"reply": "none", "ctx": "ctx", "conn": "connerr"}[args[2].(string)]
		}
	}
}

func (r *ppRun) start(e int) {
	ctx, cancel := context.WithCancelCause(context.Background())
	r.mu.Lock()
	r.ctxEx[ctx] = e
	r.cancels[e-1] = cancel
	r.mu.Unlock()
	m := new(dns.Msg)
	m.SetQuestion(exName(e), dns.TypeA)
	m.Id = uint16(2000 + e)
	w, _ := m.Pack()
	r.wg.Add(1)
	go func() {
		defer r.wg.Done()
		resp, err := r.t.ExchangeContext(ctx, w)
		r.mu.Lock()
		defer r.mu.Unlock()
		cls, got := "", 0
		switch {
		case err == nil:
			cls, got = "reply", tokOf(resp)
			if resp.Header.ID != uint16(2000+e) {
				cls = fmt.Sprint("reply with id ", resp.Header.ID, " instead of the caller's")
			}
			releaseMsg(resp)
		case r.afterRel[e-1]:
			cls = r.errk[e-1]
		case errors.Is(err, connpool.ErrPoolClosed):
			cls = "closed"
		case errors.Is(err, errPPDial):
			cls = "dialerr"
		case errors.Is(err, connpool.ErrConnNotAvailable):
			cls = "notavail"
		case errors.Is(err, context.DeadlineExceeded):
			cls = "ctx"
		default:
			cls = "error: " + err.Error()
		}
		r.pc[e-1], r.res[e-1], r.got[e-1], r.c[e-1], r.qid[e-1], r.errk[e-1] = "done", cls, got, 0, -1, "none"
	}()
}

// poolMaps reads the pool's two connection maps (unexported fields of another module) under the pool's lock
func poolMaps(p *connpool.Pool) (busy, idle map[any]int, waiting int) {
	v := reflect.ValueOf(p).Elem()
	mu := (*sync.Mutex)(unsafe.Pointer(v.FieldByName("m").UnsafeAddr()))
	mu.Lock()
	defer mu.Unlock()
	read := func(name string) map[any]int {
		f := v.FieldByName(name)
		f = reflect.NewAt(f.Type(), unsafe.Pointer(f.UnsafeAddr())).Elem()
		out := map[any]int{}
		for it := f.MapRange(); it.Next(); {
			out[it.Key().Interface()] = int(it.Value().Elem().FieldByName("curStream").Int())
		}
		return out
	}
	busy, idle = read("busyConns"), read("idleConns")
	// callers queued on dials that are still in progress
	f := v.FieldByName("dialingCalls")
	f = reflect.NewAt(f.Type(), unsafe.Pointer(f.UnsafeAddr())).Elem()
	for it := f.MapRange(); it.Next(); {
		dc := it.Key().Elem()
		dm := (*sync.Mutex)(unsafe.Pointer(dc.FieldByName("m").UnsafeAddr()))
		dm.Lock()
		waiting += int(dc.FieldByName("streamQueue").Int())
		dm.Unlock()
	}
	return busy, idle, waiting
}

func (r *ppRun) project() ppState {
	busy, idle, waiting := poolMaps(transport.VerifPipePool(r.t))
	tclosed := transport.VerifPipePool(r.t).Status().Closed
	if tclosed {
		waiting = 0
	}
	// the harness's own view first; the connections are asked afterwards, without r.mu (their hooks take it
	// while holding the connection's lock)
	r.mu.Lock()
	s := ppState{Tclosed: tclosed, Dqsum: waiting, Cst: fill(r.ncon, "none"), Pool: fill(r.ncon, "x"), Streams: make([]int, r.ncon),
		Nextqid: make([]int, r.ncon), Reserved: make([]int, r.ncon), Nqueue: make([]int, r.ncon), Rl: append([]bool{}, r.rl...),
		Pc: append([]string{}, r.pc...), C: make([]int, r.nex), Qid: make([]int, r.nex), Retry: append([]int{}, r.retry...),
		Err: fill(r.nex, "none"), Res: append([]string{}, r.res...), Got: append([]int{}, r.got...), Ctxdone: append([]bool{}, r.ctxdone...)}
	dialst := append([]string{}, r.dialst...)
	pcs := append([]any{}, r.pcs...)
	conns := append([]*ppConn{}, r.conns...)
	for e := 0; e < r.nex; e++ {
		switch r.pc[e] {
		case "add", "write", "sel", "del", "rel":
			s.C[e] = r.c[e]
		}
		switch r.pc[e] {
		case "write", "sel", "del":
			s.Qid[e] = r.qid[e]
		}
		switch r.pc[e] {
		case "del", "rel":
			s.Err[e] = r.errk[e]
		}
	}
	r.mu.Unlock()
	for i := 0; i < r.ncon; i++ {
		switch dialst[i] {
		case "none", "dialing", "failed":
			s.Cst[i] = dialst[i]
			continue
		}
		pc := pcs[i]
		closed, nq, res, qids := transport.VerifPcState(pc)
		s.Nextqid[i], s.Reserved[i], s.Nqueue[i] = nq-r.base, res, len(qids)
		if closed {
			s.Cst[i] = "closed"
			if !conns[i].isClosed() {
				s.Cst[i] = "closed (socket still open)"
			}
			continue
		}
		s.Cst[i] = "open"
		if n, ok := busy[pc]; ok {
			s.Pool[i], s.Streams[i] = "busy", n
		} else if _, ok := idle[pc]; ok {
			s.Pool[i] = "idle"
		} else {
			s.Pool[i] = "out"
		}
	}
	return s
}

func ppDiff(want, got ppState) []string {
	var d []string
	add := func(f string, w, g any) {
		if !reflect.DeepEqual(w, g) {
			d = append(d, fmt.Sprintf("%s: model %v, code %v", f, w, g))
		}
	}
	add("tclosed", want.Tclosed, got.Tclosed)
	add("cst", want.Cst, got.Cst)
	add("pool", want.Pool, got.Pool)
	add("streams", want.Streams, got.Streams)
	add("dqsum", want.Dqsum, got.Dqsum)
	add("nextqid", want.Nextqid, got.Nextqid)
	add("reserved", want.Reserved, got.Reserved)
	add("nqueue", want.Nqueue, got.Nqueue)
	add("rl", want.Rl, got.Rl)
	add("pc", want.Pc, got.Pc)
	add("c", want.C, got.C)
	add("qid", want.Qid, got.Qid)
	add("retry", want.Retry, got.Retry)
	add("err", want.Err, got.Err)
	add("res", want.Res, got.Res)
	add("got", want.Got, got.Got)
	return d
}

func (r *ppRun) do(a ppAct, want ppState) {
	switch a.A {
	case "Start":
		r.start(a.E)
	case "Get":
		r.grant(fmt.Sprint("get:", a.E))
		if want.Pc[a.E-1] == "wait" {
			// the caller is inside pool.Get waiting for a dial; there is no gate in there
			deadline := time.Now().Add(2 * time.Second)
			for time.Now().Before(deadline) {
				r.mu.Lock()
				moved := r.pc[a.E-1] != "get"
				r.mu.Unlock()
				if moved {
					break
				}
				nd := 0
				for _, x := range want.Cst {
					if x != "none" {
						nd++
					}
				}
				r.mu.Lock()
				n := r.ndial
				r.mu.Unlock()
				if n >= nd {
					break
				}
				time.Sleep(20 * time.Microsecond)
			}
			time.Sleep(30 * time.Microsecond)
			r.mu.Lock()
			if r.pc[a.E-1] == "get" {
				r.pc[a.E-1] = "wait"
			}
			r.mu.Unlock()
		}
	case "DialDone":
		r.dialCh[a.C-1] <- a.Ok
	case "AddQueue":
		r.mu.Lock()
		r.adding = a.E
		r.mu.Unlock()
		r.grant(fmt.Sprint("add:", a.E))
	case "Write":
		r.mu.Lock()
		k, wid := r.c[a.E-1], r.qid[a.E-1]+r.base
		if !a.Ok {
			r.errk[a.E-1] = "werr"
		}
		fc := r.conns[k-1]
		r.mu.Unlock()
		fc.wchan(wid) <- a.Ok
	case "Ret":
		r.grant(fmt.Sprint("sel:", a.E))
	case "Del":
		r.grant(fmt.Sprint("del:", a.E))
	case "Rel":
		r.grant(fmt.Sprint("rel:", a.E))
	case "ServerSend":
	case "Lookup":
		m := new(dns.Msg)
		m.SetQuestion(fmt.Sprintf("tok%d.test.", a.Tok), dns.TypeA)
		m.Response = true
		m.Id = uint16(r.base + a.Q)
		ip := make(net.IP, 4)
		binary.BigEndian.PutUint32(ip, uint32(a.Tok))
		m.Answer = append(m.Answer, &dns.A{Hdr: dns.RR_Header{Name: m.Question[0].Name, Rrtype: dns.TypeA, Class: 1, Ttl: 5}, A: ip})
		w, _ := m.Pack()
		f := w
		if !r.udp {
			f = make([]byte, 2+len(w))
			binary.BigEndian.PutUint16(f, uint16(len(w)))
			copy(f[2:], w)
		}
		r.conns[a.C-1].rcmd <- ppRead{frame: f}
	case "Send":
		r.grant(fmt.Sprint("send:", a.C))
	case "ReadErr":
		r.conns[a.C-1].rcmd <- ppRead{err: errPPIO}
	case "Deadline":
		r.mu.Lock()
		r.ctxdone[a.E-1] = true
		c := r.cancels[a.E-1]
		r.mu.Unlock()
		c(context.DeadlineExceeded)
	case "Close":
		r.t.Close()
	}
}

// cleanup lets everything run down and looks at what is left: every caller returns, nothing stays open
func (r *ppRun) cleanup() (stuck bool, leaked []int) {
	r.mu.Lock()
	r.free = true
	for _, ch := range r.permits {
		for i := 0; i < 32; i++ {
			select {
			case ch <- struct{}{}:
			default:
			}
		}
	}
	cancels := append([]context.CancelCauseFunc{}, r.cancels...)
	cs := append([]*ppConn{}, r.conns...)
	r.mu.Unlock()
	for _, c := range cancels {
		if c != nil {
			c(context.Canceled)
		}
	}
	r.t.Close()
	for _, ch := range r.dialCh {
		select {
		case ch <- true: // a dial that completes after Close: its connection has to be closed by the pool
		default:
		}
	}
	for _, c := range cs {
		if c == nil {
			continue
		}
		c.mu.Lock()
		for _, ch := range c.wcmd {
			select {
			case ch <- false:
			default:
			}
		}
		c.mu.Unlock()
	}
	done := make(chan struct{})
	go func() { r.wg.Wait(); close(done) }()
	select {
	case <-done:
	case <-time.After(3 * time.Second):
		return true, nil
	}
	for until := time.Now().Add(1500 * time.Millisecond); ; {
		leaked = leaked[:0]
		r.mu.Lock()
		for i, c := range r.conns {
			if c != nil && !c.isClosed() {
				leaked = append(leaked, i+1)
			}
		}
		r.mu.Unlock()
		if len(leaked) == 0 || time.Now().After(until) {
			break
		}
		// writes that were parked when the gates were opened may still arrive
		for _, c := range cs {
			if c == nil {
				continue
			}
			c.mu.Lock()
			for _, ch := range c.wcmd {
				select {
				case ch <- false:
				default:
				}
			}
			c.mu.Unlock()
		}
		time.Sleep(200 * time.Microsecond)
	}
	return false, leaked
}

func modePReplay(file string, stepTimeout time.Duration) {
	b, err := os.ReadFile(file)
	if err != nil {
		panic(err)
	}
	var f ppFile
	if err := json.Unmarshal(b, &f); err != nil {
		panic(err)
	}
	verifhook.SetSink(func(name string, args []any) {
		if strings.HasPrefix(name, "pc.") {
			if r := ppCurrent(); r != nil {
				r.event(name, args)
			}
		}
	})
	verifhook.SetSched(func(name string, args []any) {
		if r := ppCurrent(); r != nil && (strings.HasPrefix(name, "pc.") || strings.HasPrefix(name, "pt.")) {
			r.gate(name, args)
		}
	})
	nex, ncon := len(f.States[f.Init].Pc), len(f.States[f.Init].Cst)
	steps, diverged, alts, noted := 0, 0, 0, 0
	for pi, p := range f.Paths {
		if diverged >= 25 {
			break
		}
		r := newPPRun(nex, ncon, f.MaxID, f.MaxStream, f.UDP || (f.Mixed && pi%2 == 1))
		ppMu.Lock()
		ppCur = r
		ppMu.Unlock()
		for si, st := range p {
			want := f.States[st.S]
			r.do(st.Act, want)
			deadline := time.Now().Add(stepTimeout)
			var d []string
			var got ppState
			altSeen, isAlt := 0, false
			for spin := 0; ; spin++ {
				got = r.project()
				d = ppDiff(want, got)
				if len(d) == 0 || time.Now().After(deadline) {
					break
				}
				// the pool's map order chose another connection than the behaviour did: the code sits in another
				// successor of the same action (seen on three polls in a row, so it is not a state in passing)
				hit := false
				for _, a := range st.Alts {
					if len(ppDiff(f.States[a], got)) == 0 {
						hit = true
					}
				}
				if hit {
					altSeen++
					if altSeen >= 3 && spin >= 50 {
						isAlt = true
						break
					}
				} else {
					altSeen = 0
				}
				if spin < 50 {
					time.Sleep(20 * time.Microsecond)
				} else {
					time.Sleep(time.Millisecond)
				}
			}
			steps++
			if len(d) > 0 {
				for _, a := range st.Alts {
					if len(ppDiff(f.States[a], got)) == 0 {
						isAlt = true
					}
				}
				if isAlt { // the pool's map order chose another connection than the behaviour: allowed, the behaviour ends here
					alts++
					break
				}
				acts := make([]ppAct, 0, si+1)
				for _, x := range p[:si+1] {
					acts = append(acts, x.Act)
				}
				tr.Emit("rp.diverge", "path", pi, "step", si+1, "act", st.Act.A, "e", st.Act.E, "c", st.Act.C, "ok", st.Act.Ok, "k", st.Act.K,
					"closed", want.Tclosed, "diff", d, "prefix", acts)
				diverged++
				break
			}
		}
		stuck, leaked := r.cleanup()
		if stuck {
			tr.Emit("rp.stuck", "path", pi)
		}
		if len(leaked) > 0 {
			tr.Emit("rp.leak", "path", pi, "conns", leaked)
		}
		r.mu.Lock()
		notes := r.notes
		r.mu.Unlock()
		if len(notes) > 0 && noted < 25 {
			noted++
			tr.Emit("rp.note", "path", pi, "notes", notes)
		}
	}
	ppMu.Lock()
	ppCur = nil
	ppMu.Unlock()
	tr.Emit("rp.done", "paths", len(f.Paths), "steps", steps, "diverged", diverged, "alts", alts)
}
