//go:build verif

// xportdrv drives the real upstream transports against scripted servers and records
// hook events (pipeline_conn.go, reuse_transport.go) together with the harness's own
// observations (exchanges, server receptions and sends).
package main

import (
	"context"
	"encoding/binary"
	"fmt"
	"hash/fnv"
	"math/rand"
	"net"
	"strconv"
	"strings"
	"sync"
	"sync/atomic"
	"time"

	"github.com/IrineSistiana/mosproxy/internal/dnsmsg"
	"github.com/IrineSistiana/mosproxy/internal/upstream/transport"
	"github.com/IrineSistiana/mosproxy/internal/verifhook"
	"github.com/IrineSistiana/mosproxy/internal/zzverif/vtrace"
	"github.com/miekg/dns"
)

var tr *vtrace.T
var seed int64
var tokCtr atomic.Uint32

// only events listed here are recorded when non-nil (used by the long ID-space run)
var onlyEvents map[string]bool

func exName(i int) string { return fmt.Sprintf("e%d.test.", i) }

func parseEx(name string) int {
	var i int
	if _, err := fmt.Sscanf(name, "e%d.test.", &i); err != nil {
		return -1
	}
	return i
}

// query payload -> (caller id, exchange number)
func parseQuery(m []byte) (int, int) {
	q := new(dns.Msg)
	if err := q.Unpack(m); err != nil || len(q.Question) != 1 {
		return -1, -1
	}
	return int(q.Id), parseEx(q.Question[0].Name)
}

// connection identity: dense ids per client-side connection object; the scripted server
// resolves the peer address of a datagram/stream to the id of the connection object that
// owns that local address at that moment.
var (
	connMu   sync.Mutex
	connIDs  = map[any]int{}
	addrConn = map[string]int{}
)

func cid(x any) int {
	connMu.Lock()
	defer connMu.Unlock()
	id, ok := connIDs[x]
	if !ok {
		id = len(connIDs) + 1
		connIDs[x] = id
		addrConn[transport.VerifConnAddr(x)] = id
	}
	return id
}

func cidOfAddr(a string) int {
	connMu.Lock()
	defer connMu.Unlock()
	return addrConn[a]
}

var own *vtrace.Own

func installSink() {
	verifhook.SetSink(func(name string, args []any) {
		if own != nil && own.Handle(name, args) {
			return
		}
		if strings.HasPrefix(name, "buf.") || strings.HasPrefix(name, "obj.") {
			return
		}
		if onlyEvents != nil && !onlyEvents[name] {
			return
		}
		switch name {
		case "pc.add":
			tr.Emit(name, "conn", cid(args[0]), "qid", args[1], "next", args[2])
		case "pc.eol":
			tr.Emit(name, "conn", cid(args[0]))
		case "pc.write":
			id, ex := parseQuery(args[2].([]byte))
			tr.Emit(name, "conn", cid(args[0]), "qid", args[1], "ex", ex, "id", id)
		case "pc.lookup":
			tr.Emit(name, "conn", cid(args[0]), "rid", args[1], "found", args[2])
		case "pc.send":
			tr.Emit(name, "conn", cid(args[0]), "rid", args[1], "delivered", args[2])
		case "pc.del":
			tr.Emit(name, "conn", cid(args[0]), "qid", args[1], "eol", args[2], "left", args[3])
		case "pc.close":
			tr.Emit(name, "conn", cid(args[0]))
		case "rc.wrote":
			p := args[2].([]byte)
			id, ex := -1, -1
			if len(p) > 2 {
				id, ex = parseQuery(p[2:])
			}
			tr.Emit(name, "conn", cid(args[0]), "ok", args[1], "ex", ex, "id", id)
		case "rc.read":
			tr.Emit(name, "conn", cid(args[0]), "ok", args[1])
		case "rc.exitIdle":
			tr.Emit(name, "conn", cid(args[0]), "closed", args[1])
		case "rc.enterIdle", "rc.close":
			tr.Emit(name, "conn", cid(args[0]))
		case "rc.closeIfIdle":
			tr.Emit(name, "conn", cid(args[0]), "did", args[1])
		case "rt.release":
			tr.Emit(name, "conn", cid(args[1]), "ok", args[2])
		case "rt.register", "rt.getIdle":
			tr.Emit(name, "conn", cid(args[1]))
		case "rt.close":
			tr.Emit(name, "n", args[1])
		}
	})
}

// ---------------------------------------------------------------- scripted server

type behaviour struct {
	delay      time.Duration
	drop       bool
	dup        bool
	unsolic    int  // extra replies for qid+1..qid+k with fresh tokens
	abort      bool // tcp: close the connection instead of replying
	split      bool // tcp: write the reply in two segments
	tc         bool // set TC in the reply
	garbage    bool // reply with undecodable bytes
	hdronly    bool // udp: the (truncated) reply is the header alone, no question
	short      bool // tcp: the reply frame's body is shorter than a DNS header (1..11 octets)
	rcode      int
	partial    bool // tcp: send half a frame then stall
	closeAfter bool // tcp: close the connection right after the reply (stale pooled connection)
	stranger   bool // udp: before the server's reply, a datagram with the query's ID arrives from another address
}

type script func(ex int, proto string) behaviour

func h32(parts ...int) uint32 {
	h := fnv.New32a()
	var b [8]byte
	for _, p := range parts {
		binary.LittleEndian.PutUint64(b[:], uint64(p))
		h.Write(b[:])
	}
	return h.Sum32()
}

func mkReply(q *dns.Msg, qid uint16, tok uint32, b behaviour) []byte {
	r := new(dns.Msg)
	r.SetReply(q)
	r.Id = qid
	r.Rcode = b.rcode
	r.Truncated = b.tc
	var ip [4]byte
	binary.BigEndian.PutUint32(ip[:], tok)
	r.Answer = append(r.Answer, &dns.A{Hdr: dns.RR_Header{Name: q.Question[0].Name, Rrtype: dns.TypeA, Class: dns.ClassINET, Ttl: 60}, A: net.IP(ip[:])})
	w, err := r.Pack()
	if err != nil {
		panic(err)
	}
	return w
}

type server struct {
	name   string
	sc     script
	uc     *net.UDPConn
	tl     net.Listener
	addr   string
	wg     sync.WaitGroup
	closed atomic.Bool
	conns  sync.Map
}

// serverIP: the loopback address scripted servers listen on ("::1" for the IPv6 phases)
var serverIP = "127.0.0.1"

func newServer(name string, sc script, udp, tcp bool) *server {
	s := &server{name: name, sc: sc}
	for try := 0; ; try++ {
		var port int
		var uc *net.UDPConn
		if udp {
			var err error
			uc, err = net.ListenUDP("udp", &net.UDPAddr{IP: net.ParseIP(serverIP)})
			if err != nil {
				panic(err)
			}
			port = uc.LocalAddr().(*net.UDPAddr).Port
			s.addr = uc.LocalAddr().String()
		}
		if tcp {
			l, err := net.Listen("tcp", net.JoinHostPort(serverIP, strconv.Itoa(port)))
			if err != nil {
				// the TCP port with the UDP socket's number is taken (ephemeral ports of outgoing connections)
				if uc != nil {
					uc.Close()
				}
				if try > 30 {
					panic(err)
				}
				continue
			}
			s.tl = l
			s.addr = l.Addr().String()
		}
		s.uc = uc
		break
	}
	if s.uc != nil {
		go s.serveUDP()
	}
	if s.tl != nil {
		go s.serveTCP()
	}
	return s
}

func (s *server) close() {
	s.closed.Store(true)
	if s.uc != nil {
		s.uc.Close()
	}
	if s.tl != nil {
		s.tl.Close()
	}
	s.conns.Range(func(k, _ any) bool { k.(net.Conn).Close(); return true })
}

func (s *server) emit(ev string, kv ...any) {
	if onlyEvents != nil && !onlyEvents[ev] {
		return
	}
	tr.Emit(ev, append([]any{"srv", s.name}, kv...)...)
}

var strangerOnce sync.Once
var strangerConn *net.UDPConn

func (s *server) serveUDP() {
	buf := make([]byte, 65535)
	for {
		n, ra, err := s.uc.ReadFromUDP(buf)
		if err != nil {
			return
		}
		if own != nil && vtrace.PoisonRun(buf[:n], 6) {
			own.T.Emit("own.poison", "where", "udp query seen by the scripted server")
		}
		q := new(dns.Msg)
		if err := q.Unpack(buf[:n]); err != nil || len(q.Question) != 1 {
			continue
		}
		ex := parseEx(q.Question[0].Name)
		laddr := ra.String()
		s.emit("srv.recv", "proto", "udp", "conn", cidOfAddr(laddr), "qid", int(q.Id), "ex", ex)
		b := s.sc(ex, "udp")
		if b.drop {
			continue
		}
		if b.stranger {
			// somebody else's socket answers first (same ID, an answer the server never gave): an upstream socket
			// takes replies from its server only
			strangerOnce.Do(func() { strangerConn, _ = net.ListenUDP("udp", &net.UDPAddr{IP: ra.IP}) })
			if strangerConn != nil {
				strangerConn.WriteToUDP(mkReply(q, q.Id, tokCtr.Add(1), behaviour{}), ra)
			}
		}
		send := func(qid uint16, bb behaviour) {
			tok := tokCtr.Add(1)
			w := mkReply(q, qid, tok, bb)
			if bb.garbage {
				w = w[:len(w)-3]
				w[5] = 9 // lie about the question count
			}
			if bb.hdronly && bb.tc { // header only: ID, flags (TC set), all counts zero
				w = append([]byte(nil), w[:12]...)
				for i := 4; i < 12; i++ {
					w[i] = 0
				}
			}
			s.emit("srv.send", "proto", "udp", "conn", cidOfAddr(laddr), "qid", int(qid), "tok", int(tok), "ex", ex, "tc", bb.tc, "garbage", bb.garbage)
			s.uc.WriteToUDP(w, ra)
			if bb.dup {
				s.uc.WriteToUDP(w, ra)
			}
		}
		go func() {
			if b.delay > 0 {
				time.Sleep(b.delay)
			}
			for k := 1; k <= b.unsolic; k++ {
				send(q.Id+uint16(k), behaviour{})
			}
			send(q.Id, b)
		}()
	}
}

func (s *server) serveTCP() {
	for {
		c, err := s.tl.Accept()
		if err != nil {
			return
		}
		s.conns.Store(c, true)
		go s.handleTCP(c)
	}
}

func (s *server) handleTCP(c net.Conn) {
	defer func() { c.Close(); s.conns.Delete(c) }()
	laddr := c.RemoteAddr().String()
	var wm sync.Mutex
	hdr := make([]byte, 2)
	for {
		if _, err := readFull(c, hdr); err != nil {
			return
		}
		body := make([]byte, binary.BigEndian.Uint16(hdr))
		if _, err := readFull(c, body); err != nil {
			return
		}
		if own != nil && vtrace.PoisonRun(body, 6) {
			own.T.Emit("own.poison", "where", "tcp query seen by the scripted server")
		}
		q := new(dns.Msg)
		if err := q.Unpack(body); err != nil || len(q.Question) != 1 {
			return
		}
		ex := parseEx(q.Question[0].Name)
		s.emit("srv.recv", "proto", "tcp", "conn", cidOfAddr(laddr), "qid", int(q.Id), "ex", ex)
		b := s.sc(ex, "tcp")
		if b.drop {
			continue
		}
		if b.abort {
			s.emit("srv.abort", "proto", "tcp", "conn", cidOfAddr(laddr), "ex", ex)
			if tc, ok := c.(*net.TCPConn); ok && ex%2 == 0 {
				tc.SetLinger(0) // RST
			}
			return
		}
		send := func(qid uint16, bb behaviour) {
			tok := tokCtr.Add(1)
			w := mkReply(q, qid, tok, bb)
			if bb.garbage {
				w = w[:len(w)-3]
				w[5] = 9
			}
			if bb.short {
				w = w[:1+int(tok)%11]
			}
			f := make([]byte, 2+len(w))
			binary.BigEndian.PutUint16(f, uint16(len(w)))
			copy(f[2:], w)
			wm.Lock()
			defer wm.Unlock()
			s.emit("srv.send", "proto", "tcp", "conn", cidOfAddr(laddr), "qid", int(qid), "tok", int(tok), "ex", ex, "tc", bb.tc, "garbage", bb.garbage || bb.short)
			if bb.partial {
				c.Write(f[:len(f)/2])
				return
			}
			if bb.split {
				k := 1 + int(tok)%(len(f)-1)
				c.Write(f[:k])
				time.Sleep(2 * time.Millisecond)
				c.Write(f[k:])
			} else {
				c.Write(f)
			}
			if bb.dup {
				c.Write(f)
			}
			if bb.closeAfter {
				time.Sleep(time.Duration(tok%4) * time.Millisecond)
				c.Close()
			}
		}
		go func() {
			if b.delay > 0 {
				time.Sleep(b.delay)
			}
			for k := 1; k <= b.unsolic; k++ {
				send(q.Id+uint16(k), behaviour{})
			}
			send(q.Id, b)
		}()
	}
}

func readFull(c net.Conn, b []byte) (int, error) {
	n := 0
	for n < len(b) {
		k, err := c.Read(b[n:])
		n += k
		if err != nil {
			return n, err
		}
	}
	return n, nil
}

// ---------------------------------------------------------------- exchanges

var exCtr atomic.Int32
var oversize bool
var workerPause time.Duration
var shortDeadlines bool
var planOf func(ex int) (string, string)

type exchanger interface {
	ExchangeContext(ctx context.Context, m []byte) (*dnsmsg.Msg, error)
}

func tokOf(r *dnsmsg.Msg) int {
	for _, rr := range r.Answers {
		if a, ok := rr.(*dnsmsg.A); ok {
			return int(binary.BigEndian.Uint32(a.A[:]))
		}
	}
	return 0
}

func qnameOf(r *dnsmsg.Msg) int {
	if len(r.Questions) != 1 {
		return -1
	}
	b, err := dnsmsg.ToReadable(r.Questions[0].Name)
	if err != nil {
		return -1
	}
	return parseEx(string(b) + ".")
}

// doExchange performs one exchange with its own unique question and records begin/end.
// ctxHook, when set, is handed the cancel function of every exchange's context (staged cancellations)
var ctxHook func(cancel context.CancelFunc)

func doExchange(u exchanger, rng *rand.Rand, timeout time.Duration, quiet bool) (ok bool) {
	ex := int(exCtr.Add(1))
	id := uint16(rng.Intn(65536))
	q := new(dns.Msg)
	q.SetQuestion(exName(ex), dns.TypeA)
	q.Id = id
	if oversize && rng.Intn(25) == 0 {
		// a valid DNS message larger than the maximum UDP payload (65507): EMSGSIZE on write
		for k := 0; k < 262; k++ {
			q.Extra = append(q.Extra, &dns.TXT{Hdr: dns.RR_Header{Name: ".", Rrtype: dns.TypeTXT, Class: dns.ClassINET}, Txt: []string{string(make([]byte, 238))}})
		}
	}
	w, err0 := q.Pack()
	if err0 != nil {
		panic(err0)
	}
	ctx, cancel := context.WithTimeout(context.Background(), timeout)
	defer cancel()
	if ctxHook != nil {
		ctxHook(cancel)
	}
	dl, _ := ctx.Deadline()
	if !quiet {
		if planOf != nil {
			u, t := planOf(ex)
			tr.Emit("ex.begin", "ex", ex, "id", int(id), "deadline", tr.MsOf(dl), "udp", u, "tcp", t, "short", shortDeadlines)
		} else {
			tr.Emit("ex.begin", "ex", ex, "id", int(id), "deadline", tr.MsOf(dl))
		}
	}
	r, err := u.ExchangeContext(ctx, w)
	if quiet {
		if r != nil {
			dnsmsg.ReleaseMsg(r)
		}
		return err == nil
	}
	if err != nil {
		tr.Emit("ex.end", "ex", ex, "kind", "err", "id", -1, "tok", 0, "rq", -1, "tc", false, "err", err.Error())
		return false
	}
	tr.Emit("ex.end", "ex", ex, "kind", "reply", "id", int(r.Header.ID), "tok", tokOf(r), "rq", qnameOf(r), "tc", r.Header.Truncated, "err", "")
	dnsmsg.ReleaseMsg(r)
	return true
}

func runWorkers(u exchanger, workers, perWorker int, tmin, tmax time.Duration, quiet bool) {
	var wg sync.WaitGroup
	for w := 0; w < workers; w++ {
		wg.Add(1)
		go func(w int) {
			defer wg.Done()
			rng := rand.New(rand.NewSource(seed*1000 + int64(w)))
			for i := 0; i < perWorker; i++ {
				to := tmin + time.Duration(rng.Int63n(int64(tmax-tmin)+1))
				doExchange(u, rng, to, quiet)
				if workerPause > 0 && rng.Intn(4) == 0 {
					time.Sleep(time.Duration(rng.Int63n(int64(workerPause))))
				}
			}
		}(w)
	}
	wg.Wait()
}

func releaseMsg(m *dnsmsg.Msg) { dnsmsg.ReleaseMsg(m) }
