//go:build verif

package main

import (
	"context"
	"crypto/tls"
	"fmt"
	"math/rand"
	"os"
	"strings"
	"sync"
	"syscall"
	"time"

	"github.com/IrineSistiana/mosproxy/internal/upstream"
	"github.com/IrineSistiana/mosproxy/internal/upstream/transport"
	"github.com/miekg/dns"
)

func socketFDs() int {
	es, err := os.ReadDir("/proc/self/fd")
	if err != nil {
		return -1
	}
	n := 0
	for _, e := range es {
		if l, err := os.Readlink("/proc/self/fd/" + e.Name()); err == nil && strings.HasPrefix(l, "socket:") {
			n++
		}
	}
	return n
}

func (s *fsrv) openConns() int {
	n := 0
	s.conns.Range(func(k, _ any) bool { n++; return true })
	return n
}

// lifeScenario: one upstream kind, one close scenario
func lifeScenario(kind, what string, rng *rand.Rand) {
	sc := fmt.Sprintf("%s/%s", kind, what)
	skind := kind
	if what == "blackhole" {
		skind = "udp-blackhole" // a peer that never answers: the QUIC / UDP dial or handshake cannot complete
	}
	s := newFsrv(skind)
	s.kind = kind
	s.closeOnEOF.Store(true)
	defer s.close()
	time.Sleep(20 * time.Millisecond)
	base := socketFDs()
	tr.Emit("life.begin", "sc", sc, "tr", kind, "what", what, "basefds", base)
	var slowDial time.Duration
	if what == "latedial" {
		slowDial = 250 * time.Millisecond
	}
	s.keepFailedHandshake.Store(what == "badcert")
	opt := upstream.Opt{TLSConfig: &tls.Config{InsecureSkipVerify: what != "badcert"}, DialTimeout: 2 * time.Second,
		Control: func(network, address string, c syscall.RawConn) error {
			if slowDial > 0 && !(strings.HasSuffix(address, ":0") || strings.HasPrefix(address, ":") || strings.HasPrefix(address, "[::]") || strings.HasPrefix(address, "0.0.0.0")) {
				time.Sleep(slowDial) // the dial completes after Close
			}
			return nil
		}}
	u, err := upstream.NewUpstream(s.url(), opt)
	if err != nil {
		panic(err)
	}
	one := func(deadline time.Duration, phase string) {
		ex := int(exCtr.Add(1))
		q := new(dns.Msg)
		q.SetQuestion(exName(ex), dns.TypeA)
		q.Id = uint16(rng.Intn(65536))
		w, _ := q.Pack()
		ctx, cancel := context.WithTimeout(context.Background(), deadline)
		defer cancel()
		dl, _ := ctx.Deadline()
		tr.Emit("fx.begin", "ex", ex, "sc", sc, "deadline", tr.MsOf(dl), "phase", phase)
		var es string
		k := "reply"
		func() {
			defer func() {
				if p := recover(); p != nil {
					k, es = "panic", fmt.Sprint(p)
				}
			}()
			r, err := u.ExchangeContext(ctx, w)
			if err != nil {
				k, es = "error", err.Error()
			}
			if r != nil {
				releaseMsg(r)
			}
		}()
		tr.Emit("fx.end", "ex", ex, "sc", sc, "kind", k, "err", es, "phase", phase)
	}
	doClose := func(n int) {
		tr.Emit("close.begin", "sc", sc, "n", n)
		done := make(chan string, 1)
		go func() {
			defer func() {
				if p := recover(); p != nil {
					done <- fmt.Sprint("panic: ", p)
				}
			}()
			u.Close()
			done <- ""
		}()
		select {
		case r := <-done:
			tr.Emit("close.end", "sc", sc, "n", n, "panic", r, "returned", true)
		case <-time.After(4 * time.Second):
			tr.Emit("close.end", "sc", sc, "n", n, "panic", "", "returned", false)
		}
	}
	var wg sync.WaitGroup
	switch what {
	case "idle": // pooled idle connection(s)
		for i := 0; i < 3; i++ {
			one(time.Second, "before")
		}
		doClose(1)
	case "inflight": // exchanges waiting for a reply when Close is called
		one(time.Second, "before")
		s.fault.Store("noreply")
		for i := 0; i < 3; i++ {
			wg.Add(1)
			go func() { defer wg.Done(); one(3*time.Second, "during") }()
		}
		time.Sleep(120 * time.Millisecond)
		doClose(1)
		wg.Wait()
	case "latedial": // Close while the dial is still in progress
		wg.Add(1)
		go func() { defer wg.Done(); one(2*time.Second, "during") }()
		time.Sleep(80 * time.Millisecond)
		doClose(1)
		wg.Wait()
		time.Sleep(300 * time.Millisecond)
	case "blackhole": // Close while the connection attempt (QUIC handshake) is still hanging
		for i := 0; i < 2; i++ {
			wg.Add(1)
			go func() { defer wg.Done(); one(3*time.Second, "during") }()
		}
		time.Sleep(150 * time.Millisecond)
		doClose(1)
		wg.Wait()
	case "badcert": // the server's certificate is not trusted: the exchange fails and nothing stays open after Close
		for i := 0; i < 2; i++ {
			one(time.Second, "before")
		}
		doClose(1)
	case "hsstall": // Close while the dial is past the TCP connect and stuck in the TLS handshake
		s.fault.Store("stall")
		for i := 0; i < 2; i++ {
			wg.Add(1)
			go func() { defer wg.Done(); one(3*time.Second, "during") }()
		}
		time.Sleep(150 * time.Millisecond)
		doClose(1)
		wg.Wait()
		s.fault.Store("")
	case "eol": // an exhausted pipelined connection with a query in flight, a second connection, then Close
		if !exhaustIDs(u, s, sc, rng) {
			break
		}
		s.fault.Store("noreply")
		wg.Add(1)
		go func() { defer wg.Done(); one(3*time.Second, "during") }() // ID 65535 on connection 1, never answered
		time.Sleep(60 * time.Millisecond)
		wg.Add(1)
		go func() { defer wg.Done(); one(3*time.Second, "during") }() // needs connection 2
		time.Sleep(120 * time.Millisecond)
		doClose(1)
		wg.Wait()
		s.fault.Store("")
	case "eol2": // a query that is never answered, then the connection's remaining IDs are used up by answered ones
		// (the last of them releases a connection that is exhausted but not empty), then Close: the waiting
		// exchange fails and the connection is closed
		s.fault.Store("noreply")
		wg.Add(1)
		go func() { defer wg.Done(); one(8*time.Second, "during") }()
		time.Sleep(80 * time.Millisecond)
		s.fault.Store("")
		if !exhaustIDs(u, s, sc, rng) {
			s.fault.Store("")
		}
		time.Sleep(50 * time.Millisecond)
		doClose(1)
		wg.Wait()
	case "timeout-then-close": // an exchange timed out on a healthy connection, then Close
		one(time.Second, "before")
		s.fault.Store("noreply")
		one(150*time.Millisecond, "before")
		s.fault.Store("")
		doClose(1)
	}
	// the census comes before the second Close: a connection that slipped past the first one (a dial that
	// completed late) must not be tidied away by the idempotence test
	one(500*time.Millisecond, "after")
	time.Sleep(400 * time.Millisecond)
	tr.Emit("census", "sc", sc, "fds", socketFDs(), "basefds", base, "srvconns", s.openConns())
	doClose(2) // idempotent
	one(300*time.Millisecond, "after")
}

func modeLife(thorough bool) {
	onlyEvents = map[string]bool{}
	rng := rand.New(rand.NewSource(seed))
	kinds := []string{"udp", "tcp", "tcp+pipeline", "tls", "tls+pipeline", "https", "quic", "h3"}
	whats := []string{"idle", "inflight", "latedial", "timeout-then-close", "blackhole", "hsstall", "badcert", "eol", "eol2"}
	// sequential: the socket census is process wide
	for _, k := range kinds {
		for _, w := range whats {
			if k == "udp" && w == "latedial" {
				continue
			}
			if w == "blackhole" && k != "quic" && k != "h3" {
				continue
			}
			if w == "badcert" && !(k == "tls" || k == "tls+pipeline") {
				continue
			}
			if w == "hsstall" && !(k == "tls" || k == "tls+pipeline" || k == "https") {
				continue
			}
			if w == "eol" && !(k == "tcp+pipeline" || (thorough && k == "tls+pipeline")) {
				continue
			}
			if w == "eol2" && k != "tcp+pipeline" {
				continue
			}
			lifeScenario(k, w, rng)
		}
	}
	rounds := 250
	if thorough {
		rounds = 1500
	}
	idleCloseRace(rounds, rng)
}

// idleCloseRace: a one-at-a-time transport with eight idle connections whose idle timers (20 ms) fire while Close
// is called, a few hundred times with the moment of Close moved around the expiry: Close returns
func idleCloseRace(rounds int, rng *rand.Rand) {
	s := newServer("ic", func(ex int, proto string) behaviour { return behaviour{} }, false, true)
	defer s.close()
	for r := 0; r < rounds; r++ {
		sc := fmt.Sprintf("tcp/idlerace%d", r)
		t := transport.NewReuseConnTransport(transport.ReuseConnOpts{DialContext: dialer("tcp", s.addr), IdleTimeout: 20 * time.Millisecond, DialTimeout: time.Second})
		var wg sync.WaitGroup
		for i := 0; i < 8; i++ {
			wg.Add(1)
			go func() {
				defer wg.Done()
				q := new(dns.Msg)
				q.SetQuestion(exName(int(exCtr.Add(1))), dns.TypeA)
				w, _ := q.Pack()
				ctx, cancel := context.WithTimeout(context.Background(), time.Second)
				defer cancel()
				if m, err := t.ExchangeContext(ctx, w); err == nil {
					releaseMsg(m)
				}
			}()
		}
		wg.Wait()
		time.Sleep(17*time.Millisecond + time.Duration(rng.Intn(6000))*time.Microsecond)
		tr.Emit("close.begin", "sc", sc, "n", 1)
		done := make(chan struct{})
		go func() { t.Close(); close(done) }()
		select {
		case <-done:
			tr.Emit("close.end", "sc", sc, "n", 1, "panic", "", "returned", true)
		case <-time.After(3 * time.Second):
			tr.Emit("close.end", "sc", sc, "n", 1, "panic", "", "returned", false)
		}
	}
}
