//go:build verif

package main

import (
	"context"
	"encoding/binary"
	"encoding/json"
	"errors"
	"fmt"
	"math/rand"
	"net"
	"os"
	"reflect"
	"strings"
	"sync"
	"time"

	"github.com/IrineSistiana/mosproxy/internal/dnsmsg"
	"github.com/IrineSistiana/mosproxy/internal/upstream/transport"
	"github.com/IrineSistiana/mosproxy/internal/verifhook"
	"github.com/IrineSistiana/mosproxy/internal/zzverif/vtrace"
	"github.com/miekg/dns"
)

// mode rreplay: behaviours of ReuseStep (random walks of TLC's simulator) are stepped through the real
// ReuseConnTransport. Goroutines of the code under test pass a gate (verifhook.Gate) only when the behaviour's
// next action is theirs; the dialer and the connections are scripted (a Write or Read returns when the
// behaviour says so); the idle timer is fired through a shim. After every step the projected state of the real
// object - closed flag, both connection sets, per connection serving / closed / socket, where each goroutine
// is, per exchange where it is, which connection it uses, retry counter, result - must equal the model's.

type rrState struct {
	Tclosed bool     `json:"tclosed"`
	Inconns []bool   `json:"inconns"`
	Inidle  []bool   `json:"inidle"`
	Serving []bool   `json:"serving"`
	Rclosed []bool   `json:"rclosed"`
	Sock    []string `json:"sock"`
	Aborted []bool   `json:"aborted"`
	Ndial   int      `json:"ndial"`
	Dialst  []string `json:"dialst"`
	Wkst    []string `json:"wkst"`
	Npipe   []int    `json:"npipe"`
	Boxfull []bool   `json:"boxfull"`
	Pc      []string `json:"pc"`
	Econn   []int    `json:"econn"`
	Fresh   []bool   `json:"fresh"`
	Retry   []int    `json:"retry"`
	Res     []string `json:"res"`
	Ctxdone []bool   `json:"ctxdone"`
}

type rrAct struct {
	A  string `json:"a"`
	E  int    `json:"e"`
	C  int    `json:"c"`
	Ok bool   `json:"ok"`
}

type rrStep struct {
	Act rrAct `json:"act"`
	S   int   `json:"s"`
}

type rrFile struct {
	States []rrState  `json:"states"`
	Init   int        `json:"init"`
	Paths  [][]rrStep `json:"paths"`
}

var errRRDial = errors.New("verif: scripted dial failure")
var errRRIO = errors.New("verif: scripted i/o failure")

// ---------------------------------------------------------------- scripted connection

type ioCmd struct{ ok bool }

type rrConn struct {
	id   int
	r    *rrRun
	mu   sync.Mutex
	sock string // open | closed
	// written queries whose replies are owed, oldest first
	owed    [][]byte
	rbuf    []byte // reply bytes being handed to the reader
	wcmd    chan ioCmd
	rcmd    chan ioCmd
	blocked string // "", "write", "read": where the exchange goroutine is parked
}

func (c *rrConn) LocalAddr() net.Addr              { return fakeAddr{} }
func (c *rrConn) RemoteAddr() net.Addr             { return fakeAddr{} }
func (c *rrConn) SetDeadline(time.Time) error      { return nil }
func (c *rrConn) SetWriteDeadline(time.Time) error { return nil }
func (c *rrConn) SetReadDeadline(t time.Time) error { // exitIdle's "is it closed" probe
	c.mu.Lock()
	defer c.mu.Unlock()
	if c.sock != "open" {
		return net.ErrClosed
	}
	return nil
}
func (c *rrConn) Close() error {
	c.mu.Lock()
	c.sock = "closed"
	c.mu.Unlock()
	return nil
}
func (c *rrConn) state() string { c.mu.Lock(); defer c.mu.Unlock(); return c.sock }

func (c *rrConn) setBlocked(s string) {
	c.mu.Lock()
	c.blocked = s
	c.mu.Unlock()
}

// Write parks until the behaviour's Write(c, ok) step
func (c *rrConn) Write(p []byte) (int, error) {
	if c.r.isFree() {
		return 0, errRRIO
	}
	c.setBlocked("write")
	cmd := <-c.wcmd
	c.setBlocked("")
	if !cmd.ok {
		return 0, errRRIO
	}
	if vtrace.PoisonRun(p, 6) { // the query is written from a buffer that was already released
		tr.Emit("rp.poison", "conn", c.id, "where", "query written by the exchange goroutine of the one-at-a-time transport")
	}
	c.mu.Lock()
	c.owed = append(c.owed, append([]byte(nil), p...))
	c.mu.Unlock()
	return len(p), nil
}

// Read: the first read of a frame parks until Read(c, ok); the rest of the frame follows without parking
func (c *rrConn) Read(p []byte) (int, error) {
	c.mu.Lock()
	if len(c.rbuf) > 0 {
		n := copy(p, c.rbuf)
		c.rbuf = c.rbuf[n:]
		c.mu.Unlock()
		return n, nil
	}
	c.mu.Unlock()
	if c.r.isFree() {
		return 0, errRRIO
	}
	c.setBlocked("read")
	cmd := <-c.rcmd
	c.setBlocked("")
	if !cmd.ok {
		return 0, errRRIO
	}
	c.mu.Lock()
	defer c.mu.Unlock()
	if len(c.owed) == 0 {
		return 0, errRRIO
	}
	q := c.owed[0]
	c.owed = c.owed[1:]
	a := mkAnswer(q[2:]) // the query was written with its length prefix
	f := make([]byte, 2+len(a))
	binary.BigEndian.PutUint16(f, uint16(len(a)))
	copy(f[2:], a)
	n := copy(p, f)
	c.rbuf = f[n:]
	return n, nil
}

// ---------------------------------------------------------------- one run

type rrRun struct {
	t    *transport.ReuseConnTransport
	nex  int
	ncon int

	mu      sync.Mutex
	free    bool
	permits map[string]chan struct{}
	ctxEx   map[any]int
	cancels []context.CancelCauseFunc
	rcID    map[any]int // *reusableConn -> conn id
	conns   []*rrConn
	rcs     []any
	dialCh  []chan bool
	ndial   int
	dialOf  []int // exchange -> id of its current dial

	dialst, wkst, pc, res []string
	econn, retry          []int
	fresh, ctxdone        []bool
	aborted               []bool
	wkOwner               []string // per conn: who runs releaseConn: "wk" | "dial"
	wg                    sync.WaitGroup
	foreignCtx            bool      // the callers' contexts are rrCtx values
	cancelAtDial          []func()  // per dial: called by the dialer right before it returns the connection
	held                  []heldMsg // replies the callers still own
}

type heldMsg struct {
	m *dnsmsg.Msg
	e int
}

var rrCur *rrRun
var dbgPends int
var tailRng = rand.New(rand.NewSource(vtrace.Seed()))
var rrMu sync.Mutex

func rrCurrent() *rrRun { rrMu.Lock(); defer rrMu.Unlock(); return rrCur }

func (r *rrRun) isFree() bool { r.mu.Lock(); defer r.mu.Unlock(); return r.free }

func newRRRun(nex, ncon int) *rrRun {
	r := &rrRun{nex: nex, ncon: ncon, permits: map[string]chan struct{}{}, ctxEx: map[any]int{}, rcID: map[any]int{}}
	r.conns, r.rcs, r.dialCh = make([]*rrConn, ncon), make([]any, ncon), make([]chan bool, ncon)
	for i := range r.dialCh {
		r.dialCh[i] = make(chan bool, 1)
	}
	r.dialst, r.wkst = fill(ncon, "none"), fill(ncon, "none")
	r.pc, r.res = fill(nex, "idle"), fill(nex, "none")
	r.econn, r.retry, r.dialOf = make([]int, nex), make([]int, nex), make([]int, nex)
	r.fresh, r.ctxdone, r.aborted = make([]bool, nex), make([]bool, nex), make([]bool, ncon)
	r.wkOwner = make([]string, ncon)
	r.cancelAtDial = make([]func(), ncon)
	r.cancels = make([]context.CancelCauseFunc, nex)
	r.t = transport.NewReuseConnTransport(transport.ReuseConnOpts{DialTimeout: time.Hour, IdleTimeout: time.Hour, DialContext: r.dial})
	return r
}

// the injected dialer: the k-th dial waits for DialDone(k, ok). It learns whose dial it is from the gate
// that precedes it (rt.get of the exchange that found no idle connection).
func (r *rrRun) dial(ctx context.Context) (net.Conn, error) {
	r.mu.Lock()
	r.ndial++
	k := r.ndial
	free := r.free
	if k <= r.ncon {
		r.dialst[k-1] = "dialing"
	}
	r.mu.Unlock()
	if k > r.ncon || free {
		return nil, errRRDial
	}
	ok := <-r.dialCh[k-1]
	if !ok {
		r.mu.Lock()
		r.dialst[k-1] = "deliver"
		r.mu.Unlock()
		return nil, errRRDial
	}
	c := &rrConn{id: k, r: r, sock: "open", wcmd: make(chan ioCmd, 1), rcmd: make(chan ioCmd, 1)}
	r.mu.Lock()
	r.conns[k-1] = c
	atDial := r.cancelAtDial[k-1]
	r.mu.Unlock()
	if atDial != nil {
		atDial()
	}
	return c, nil
}

func (r *rrRun) permit(key string) chan struct{} {
	ch := r.permits[key]
	if ch == nil {
		ch = make(chan struct{}, 64)
		r.permits[key] = ch
	}
	return ch
}

func (r *rrRun) grant(key string) {
	r.mu.Lock()
	ch := r.permit(key)
	r.mu.Unlock()
	ch <- struct{}{}
}

func (r *rrRun) connOfRC(rc any) int {
	if id, ok := r.rcID[rc]; ok {
		return id
	}
	nc := transport.VerifRcConn(rc)
	if fc, ok := nc.(*rrConn); ok && fc.r == r {
		r.rcID[rc] = fc.id
		r.rcs[fc.id-1] = rc
		return fc.id
	}
	return 0
}

// gate: runs on the goroutine of the code under test
func (r *rrRun) gate(name string, args []any) {
	r.mu.Lock()
	if r.free || args[0] != any(r.t) {
		r.mu.Unlock()
		return
	}
	var key string
	switch name {
	case "rt.get":
		e, ok := r.ctxEx[args[1]]
		if !ok {
			r.mu.Unlock()
			return
		}
		r.pc[e-1] = "get"
		key = fmt.Sprint("get:", e)
	case "rt.register":
		e, ok := r.ctxEx[args[1]]
		if !ok {
			r.mu.Unlock()
			return
		}
		k := r.connOfRC(args[2])
		r.dialOf[e-1] = k
		r.dialst[k-1] = "register"
		key = fmt.Sprint("register:", k)
	case "rt.deliver":
		e, ok := r.ctxEx[args[1]]
		if !ok {
			r.mu.Unlock()
			return
		}
		k := r.dialOf[e-1]
		if k == 0 {
			r.mu.Unlock()
			return
		}
		r.dialst[k-1] = "deliver"
		key = fmt.Sprint("deliver:", k)
	case "rt.dialed":
		e, ok := r.ctxEx[args[1]]
		if !ok || args[2].(bool) { // the result was handed over: part of Deliver, no step of its own
			r.mu.Unlock()
			return
		}
		key = fmt.Sprint("dialctx:", e)
	case "rt.send":
		k := r.connOfRC(args[1])
		r.wkst[k-1] = "send"
		key = fmt.Sprint("send:", k)
	case "rt.rel1":
		k := r.connOfRC(args[1])
		if r.wkst[k-1] == "send" || r.wkst[k-1] == "rel1" {
			r.wkst[k-1], r.wkOwner[k-1] = "rel1", "wk"
		} else {
			r.dialst[k-1], r.wkOwner[k-1] = "rel1", "dial"
		}
		key = fmt.Sprint("rel1:", k)
	case "rt.rel2":
		k := r.connOfRC(args[1])
		if r.wkOwner[k-1] == "wk" {
			r.wkst[k-1] = "rel2"
		} else {
			r.dialst[k-1] = "rel2"
		}
		key = fmt.Sprint("rel2:", k)
	case "rt.taken":
		e, ok := r.ctxEx[args[1]]
		if !ok {
			r.mu.Unlock()
			return
		}
		if args[2].(bool) {
			key = fmt.Sprint("take:", e)
		} else {
			key = fmt.Sprint("giveup:", e)
		}
	default:
		r.mu.Unlock()
		return
	}
	ch := r.permit(key)
	r.mu.Unlock()
	<-ch
	// what the goroutine does right after the gate, as far as the projection goes
	r.mu.Lock()
	switch name {
	case "rt.deliver":
		e := r.ctxEx[args[1]]
		k := r.dialOf[e-1]
		if r.dialst[k-1] == "deliver" {
			r.dialst[k-1] = "end" // corrected to rel1 by the rt.rel1 gate when the caller had left
		}
		r.dialOf[e-1] = 0
	case "rt.rel2":
		k := r.connOfRC(args[1])
		if r.wkOwner[k-1] == "wk" {
			r.wkst[k-1] = "none"
		} else {
			r.dialst[k-1] = "end"
		}
	}
	r.mu.Unlock()
}

func (r *rrRun) event(name string, args []any) {
	r.mu.Lock()
	defer r.mu.Unlock()
	if len(args) == 0 || args[0] != any(r.t) {
		return
	}
	switch name {
	case "rt.getIdle": // an idle connection was taken: find the exchange that is in getIdleConn right now
		k := r.connOfRC(args[1])
		for e := 1; e <= r.nex; e++ {
			if r.pc[e-1] == "get+" {
				r.pc[e-1], r.econn[e-1], r.fresh[e-1] = "xwait", k, false
			}
		}
	}
}

// rrCtx is a context that is not one of the standard library's: contexts derived from it are cancelled by a
// watcher goroutine, i.e. a little later than the context itself (what a caller-supplied context does)
type rrCtx struct {
	mu   sync.Mutex
	done chan struct{}
	err  error
}

func (c *rrCtx) Deadline() (time.Time, bool) { return time.Time{}, false }
func (c *rrCtx) Done() <-chan struct{}       { return c.done }
func (c *rrCtx) Err() error                  { c.mu.Lock(); defer c.mu.Unlock(); return c.err }
func (c *rrCtx) Value(any) any               { return nil }
func (c *rrCtx) cancel(cause error) {
	c.mu.Lock()
	if c.err == nil {
		c.err = cause
		close(c.done)
	}
	c.mu.Unlock()
}

func (r *rrRun) start(e int) {
	var ctx context.Context
	var cancel context.CancelCauseFunc
	if r.foreignCtx {
		fc := &rrCtx{done: make(chan struct{})}
		ctx, cancel = fc, fc.cancel
	} else {
		ctx, cancel = context.WithCancelCause(context.Background())
	}
	r.mu.Lock()
	r.ctxEx[ctx] = e
	r.cancels[e-1] = cancel
	r.mu.Unlock()
	m := new(dns.Msg)
	m.SetQuestion(exName(e), dns.TypeA)
	m.Id = uint16(2000 + e)
	w, _ := m.Pack()
	r.wg.Add(1)
	go func() {
		defer r.wg.Done()
		resp, err := r.t.ExchangeContext(ctx, w)
		cls := "connerr"
		switch {
		case err == nil:
			cls = "foreign"
			if resp.Header.ID == uint16(2000+e) && qnameOf(resp) == e {
				cls = "ok"
			}
		case errors.Is(err, transport.ErrClosedTransport):
			cls = "closed"
		case errors.Is(err, context.DeadlineExceeded):
			cls = "ctx"
		case errors.Is(err, errRRDial):
			cls = "dialerr"
		}
		// like the router, the caller ends its context once it has the result, and goes on using the message:
		// it must still be the same message when the exchange goroutine has finished (checked at clean-up)
		cancel(context.Canceled)
		r.mu.Lock()
		if resp != nil && cls == "ok" {
			r.held = append(r.held, heldMsg{m: resp, e: e})
		} else if resp != nil {
			releaseMsg(resp)
		}
		r.pc[e-1], r.res[e-1] = "done", cls
		r.mu.Unlock()
	}()
}

func (r *rrRun) project() rrState {
	closed, conns, idle := transport.VerifReuseState(r.t)
	r.mu.Lock()
	defer r.mu.Unlock()
	s := rrState{Tclosed: closed, Ndial: r.ndial,
		Inconns: make([]bool, r.ncon), Inidle: make([]bool, r.ncon), Serving: make([]bool, r.ncon), Rclosed: make([]bool, r.ncon),
		Sock: fill(r.ncon, "none"), Aborted: append([]bool{}, r.aborted...),
		Dialst: append([]string{}, r.dialst...), Wkst: append([]string{}, r.wkst...),
		Pc: append([]string{}, r.pc...), Res: append([]string{}, r.res...), Econn: append([]int{}, r.econn...),
		Fresh: append([]bool{}, r.fresh...), Retry: append([]int{}, r.retry...), Ctxdone: append([]bool{}, r.ctxdone...)}
	for _, c := range conns {
		if k := r.connOfRC(c); k > 0 {
			s.Inconns[k-1] = true
		}
	}
	for _, c := range idle {
		if k := r.connOfRC(c); k > 0 {
			s.Inidle[k-1] = true
		}
	}
	for i, fc := range r.conns {
		if fc == nil {
			continue
		}
		s.Sock[i] = fc.state()
		if rc := r.rcs[i]; rc != nil {
			s.Serving[i], s.Rclosed[i] = transport.VerifRcState(rc)
		} else {
			s.Serving[i] = true // newReusableConn + exitIdle happen right after the dial, before the first gate
		}
		fc.mu.Lock()
		if fc.blocked != "" && (s.Wkst[i] == "none" || s.Wkst[i] == "write" || s.Wkst[i] == "read") {
			s.Wkst[i] = fc.blocked
		}
		fc.mu.Unlock()
	}
	for i := range s.Pc {
		if s.Pc[i] == "get+" {
			s.Pc[i] = "get"
		}
	}
	return s
}

func rrDiff(want, got rrState) []string {
	var d []string
	add := func(f string, w, g any) {
		if !reflect.DeepEqual(w, g) {
			d = append(d, fmt.Sprintf("%s: model %v, code %v", f, w, g))
		}
	}
	add("tclosed", want.Tclosed, got.Tclosed)
	add("inconns", want.Inconns, got.Inconns)
	add("inidle", want.Inidle, got.Inidle)
	add("serving", want.Serving, got.Serving)
	add("rclosed", want.Rclosed, got.Rclosed)
	add("sock", want.Sock, got.Sock)
	add("ndial", want.Ndial, got.Ndial)
	add("dialst", want.Dialst, got.Dialst)
	add("wkst", want.Wkst, got.Wkst)
	add("pc", want.Pc, got.Pc)
	add("res", want.Res, got.Res)
	for i := range want.Pc {
		if want.Pc[i] == "xwait" {
			add(fmt.Sprint("econn[", i+1, "]"), want.Econn[i], got.Econn[i])
			add(fmt.Sprint("fresh[", i+1, "]"), want.Fresh[i], got.Fresh[i])
		}
	}
	return d
}

func (r *rrRun) do(a rrAct, want rrState) {
	switch a.A {
	case "Start":
		r.start(a.E)
	case "GetIdle":
		r.mu.Lock()
		r.pc[a.E-1] = "get+" // marks the exchange that is inside getIdleConn for the rt.getIdle event
		r.mu.Unlock()
		r.grant(fmt.Sprint("get:", a.E))
		// the outcome is visible in the projection: xwait (idle connection taken, via the event), dialwait
		// (the dialer is entered) or done (closed)
		if want.Pc[a.E-1] == "dialwait" {
			deadline := time.Now().Add(2 * time.Second)
			for time.Now().Before(deadline) {
				r.mu.Lock()
				n := r.ndial
				r.mu.Unlock()
				if n == want.Ndial {
					break
				}
				time.Sleep(20 * time.Microsecond)
			}
			r.mu.Lock()
			if r.pc[a.E-1] == "get+" {
				r.pc[a.E-1] = "dialwait"
			}
			r.dialOf[a.E-1] = want.Ndial // the dial that was just started is this exchange's
			r.mu.Unlock()
		}
	case "DialDone":
		r.dialCh[a.C-1] <- a.Ok
	case "Register":
		r.grant(fmt.Sprint("register:", a.C))
	case "Deliver":
		// hand-over: the exchange goes on to its first write on this connection
		r.mu.Lock()
		for e := 1; e <= r.nex; e++ {
			if r.dialOf[e-1] == a.C && r.pc[e-1] == "dialwait" && want.Pc[e-1] == "xwait" {
				r.pc[e-1], r.econn[e-1], r.fresh[e-1] = "xwait", a.C, true
			}
		}
		r.mu.Unlock()
		r.grant(fmt.Sprint("deliver:", a.C))
	case "DialCtx":
		r.grant(fmt.Sprint("dialctx:", a.E))
	case "Write":
		r.conns[a.C-1].wcmd <- ioCmd{ok: a.Ok}
	case "Read":
		r.conns[a.C-1].rcmd <- ioCmd{ok: a.Ok}
	case "Send":
		r.grant(fmt.Sprint("send:", a.C))
	case "Rel1":
		r.grant(fmt.Sprint("rel1:", a.C))
	case "Rel2":
		r.grant(fmt.Sprint("rel2:", a.C))
	case "Take":
		r.mu.Lock()
		if want.Pc[a.E-1] == "get" {
			r.retry[a.E-1]++
		}
		r.mu.Unlock()
		r.grant(fmt.Sprint("take:", a.E))
	case "GiveUp":
		r.grant(fmt.Sprint("giveup:", a.E))
	case "IdleTimer":
		r.mu.Lock()
		rc := r.rcs[a.C-1]
		r.mu.Unlock()
		if rc != nil {
			transport.VerifFireIdleTimer(rc)
		}
	case "Abort":
		r.mu.Lock()
		r.aborted[a.C-1] = true
		r.mu.Unlock()
	case "Deadline":
		r.mu.Lock()
		r.ctxdone[a.E-1] = true
		c := r.cancels[a.E-1]
		r.mu.Unlock()
		c(context.DeadlineExceeded)
	case "Close":
		r.t.Close()
	}
}

func (r *rrRun) cleanup() bool {
	r.mu.Lock()
	r.free = true
	// racy tail: a dial whose result is about to be handed to a caller that is still waiting. The hand-over is
	// let go and the caller's context is cancelled a few microseconds later - the caller may take the
	// connection or leave on its context; either way the connection must not be lost (checked below)
	type pend struct{ k, e int }
	var pends []pend
	for e := 1; e <= r.nex; e++ {
		if k := r.dialOf[e-1]; k > 0 && r.dialst[k-1] == "deliver" && r.pc[e-1] == "dialwait" && !r.ctxdone[e-1] && r.cancels[e-1] != nil {
			pends = append(pends, pend{k, e})
		}
	}
	// ... and a dial that is still in progress while callers wait: their contexts are cancelled at the very
	// moment the dial returns its connection
	var waiting []context.CancelCauseFunc
	for e := 1; e <= r.nex; e++ {
		if r.pc[e-1] == "dialwait" && !r.ctxdone[e-1] && r.cancels[e-1] != nil && r.dialOf[e-1] == 0 {
			waiting = append(waiting, r.cancels[e-1])
		}
	}
	for k := 1; k <= r.ncon && len(waiting) > 0; k++ {
		if r.dialst[k-1] == "dialing" {
			r.cancelAtDial[k-1] = func() {
				for _, c := range waiting {
					c(context.Canceled)
				}
			}
			r.dialCh[k-1] <- true
			dbgPends++
		}
	}
	r.mu.Unlock()
	dbgPends += len(pends)
	for _, p := range pends {
		r.grant(fmt.Sprint("deliver:", p.k))
		d := time.Duration([]int{0, 1, 2, 3, 4, 6, 9, 14, 25}[tailRng.Intn(9)]) * time.Microsecond
		for t0 := time.Now(); time.Since(t0) < d; {
		}
		r.cancels[p.e-1](context.Canceled)
	}
	r.mu.Lock()
	for _, ch := range r.permits {
		for i := 0; i < 32; i++ {
			select {
			case ch <- struct{}{}:
			default:
			}
		}
	}
	for _, c := range r.cancels {
		if c != nil {
			c(context.Canceled)
		}
	}
	cs := append([]*rrConn{}, r.conns...)
	r.mu.Unlock()
	for _, ch := range r.dialCh {
		select {
		case ch <- false:
		default:
		}
	}
	for _, c := range cs {
		if c != nil {
			select {
			case c.wcmd <- ioCmd{}:
			default:
			}
			select {
			case c.rcmd <- ioCmd{}:
			default:
			}
		}
	}
	done := make(chan struct{})
	go func() { r.wg.Wait(); close(done) }()
	ok := true
	select {
	case <-done:
	case <-time.After(3 * time.Second):
		ok = false
	}
	// ReuseStep!Inv_C06_NoStray on the real state: every caller has returned (their contexts are cancelled, all
	// gates are open, pending i/o fails); once the transport's own goroutines have run down, a connection that
	// is still open is in the idle set - whichever way the races of this tail went
	if ok {
		var stray []int
		for until := time.Now().Add(1500 * time.Millisecond); ; {
			stray = stray[:0]
			s := r.project()
			for i, st := range s.Sock {
				// open and forgotten, or in the idle set without being one of the transport's connections
				if (st == "open" && !s.Inidle[i]) || (s.Inidle[i] && !s.Inconns[i] && !s.Tclosed) {
					stray = append(stray, i+1)
				}
			}
			if len(stray) == 0 || time.Now().After(until) {
				break
			}
			time.Sleep(200 * time.Microsecond)
		}
		if len(stray) > 0 {
			s := r.project()
			tr.Emit("rp.stray", "conns", stray, "closed", s.Tclosed, "inconns", s.Inconns, "serving", s.Serving, "dialst", s.Dialst, "wkst", s.Wkst)
		}
	}
	r.t.Close()
	// give the exchange goroutines (released above) a moment to run down, then look at the held replies
	time.Sleep(300 * time.Microsecond)
	r.mu.Lock()
	held := r.held
	r.held = nil
	r.mu.Unlock()
	for _, h := range held {
		if h.m.Header.ID != uint16(2000+h.e) || qnameOf(h.m) != h.e {
			tr.Emit("rp.changed", "ex", h.e, "id", int(h.m.Header.ID), "where", "reply of the one-at-a-time transport changed while its caller owned it")
		}
		releaseMsg(h.m)
	}
	return ok
}

func modeRReplay(file string, stepTimeout time.Duration) {
	b, err := os.ReadFile(file)
	if err != nil {
		panic(err)
	}
	var f rrFile
	if err := json.Unmarshal(b, &f); err != nil {
		panic(err)
	}
	verifhook.SetSink(func(name string, args []any) {
		if strings.HasPrefix(name, "rt.") {
			if r := rrCurrent(); r != nil {
				r.event(name, args)
			}
		}
	})
	verifhook.SetSched(func(name string, args []any) {
		if r := rrCurrent(); r != nil && strings.HasPrefix(name, "rt.") {
			r.gate(name, args)
		}
	})
	nex, ncon := len(f.States[f.Init].Pc), len(f.States[f.Init].Sock)
	steps, diverged := 0, 0
	for pi, p := range f.Paths {
		if diverged >= 25 {
			break
		}
		r := newRRRun(nex, ncon)
		r.foreignCtx = pi%2 == 1
		rrMu.Lock()
		rrCur = r
		rrMu.Unlock()
		for si, st := range p {
			want := f.States[st.S]
			r.do(st.Act, want)
			deadline := time.Now().Add(stepTimeout)
			var d []string
			for spin := 0; ; spin++ {
				d = rrDiff(want, r.project())
				if len(d) == 0 || time.Now().After(deadline) {
					break
				}
				if spin < 50 {
					time.Sleep(20 * time.Microsecond)
				} else {
					time.Sleep(time.Millisecond)
				}
			}
			steps++
			if len(d) > 0 {
				acts := make([]rrAct, 0, si+1)
				for _, x := range p[:si+1] {
					acts = append(acts, x.Act)
				}
				tr.Emit("rp.diverge", "path", pi, "step", si+1, "act", st.Act.A, "e", st.Act.E, "c", st.Act.C, "ok", st.Act.Ok,
					"closed", want.Tclosed, "diff", d, "prefix", acts)
				diverged++
				break
			}
		}
		if !r.cleanup() {
			tr.Emit("rp.stuck", "path", pi)
		}
	}
	rrMu.Lock()
	rrCur = nil
	rrMu.Unlock()
	tr.Emit("rp.done", "paths", len(f.Paths), "steps", steps, "diverged", diverged, "racytails", dbgPends)
}
