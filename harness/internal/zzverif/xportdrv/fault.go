//go:build verif

package main

import (
	"context"
	"crypto/tls"
	"encoding/base64"
	"encoding/binary"
	"fmt"
	"io"
	"math/rand"
	"net"
	"net/http"
	"os"
	"strings"
	"sync"
	"sync/atomic"
	"syscall"
	"time"

	"github.com/IrineSistiana/mosproxy/internal/testutils"
	"github.com/IrineSistiana/mosproxy/internal/upstream"
	"github.com/miekg/dns"
	"github.com/quic-go/quic-go"
	"github.com/quic-go/quic-go/http3"
)

// fsrv is a fault-scripted server for one scenario: it speaks UDP, TCP (optionally TLS), DoH or DoQ.
type fsrv struct {
	kind     string // transport scheme served
	resetKey quic.StatelessResetKey
	restart  func() // quic / h3: see rebind
	kill     func()
	fault    atomic.Value // current fault: "", "silent", "half", "garbage", "fin", "rst", "stall", "closeafter"
	addr     string
	conns    sync.Map
	closer   []func()
	cert     tls.Certificate
	nconn    atomic.Int32
	nq       atomic.Int32

	closeOnEOF          atomic.Bool // life mode: the server closes its side when the client goes away
	keepFailedHandshake atomic.Bool // keep a connection whose TLS handshake failed until the client closes it
	halfDone            atomic.Bool // fault "halfonce" has been served
}

func (s *fsrv) f() string { return s.fault.Load().(string) }

func mkAnswer(w []byte) []byte {
	q := new(dns.Msg)
	if q.Unpack(w) != nil || len(q.Question) == 0 {
		return nil
	}
	r := new(dns.Msg)
	r.SetReply(q)
	r.Answer = append(r.Answer, &dns.A{Hdr: dns.RR_Header{Name: q.Question[0].Name, Rrtype: dns.TypeA, Class: 1, Ttl: 5}, A: net.IPv4(10, 1, 2, 3)})
	o, _ := r.Pack()
	return o
}

// rebind: the server process dies without a word (its socket is gone, nothing is sent on its connections) and a
// new one comes up on the same address with the same stateless-reset key: packets of the old connections are
// answered by stateless resets
func (s *fsrv) rebind(old *net.UDPConn, start func(*net.UDPConn)) {
	addr := old.LocalAddr().(*net.UDPAddr)
	s.conns.Range(func(k, _ any) bool { s.conns.Delete(k); return true })
	s.kill()
	for i := 0; ; i++ {
		uc, err := net.ListenUDP("udp", addr)
		if err == nil {
			start(uc)
			return
		}
		if i > 200 {
			panic(err)
		}
		time.Sleep(5 * time.Millisecond)
	}
}

func (s *fsrv) killAll() {
	s.conns.Range(func(k, _ any) bool {
		if c, ok := k.(net.Conn); ok {
			c.Close()
		}
		if c, ok := k.(quic.Connection); ok {
			c.CloseWithError(0, "bye")
		}
		return true
	})
}

func (s *fsrv) close() {
	for _, f := range s.closer {
		f()
	}
	s.killAll()
}

// streamServe handles one (possibly TLS) stream connection according to the current fault.
func (s *fsrv) streamServe(c net.Conn, useTLS bool) {
	s.nconn.Add(1)
	s.conns.Store(c, true)
	if s.f() == "stall" { // accept and never speak (TLS handshake never completes); the connection stays open
		go func() { // ... until the client goes away
			io.Copy(io.Discard, c)
			if s.closeOnEOF.Load() {
				c.Close()
				s.conns.Delete(c)
			}
		}()
		return
	}
	if useTLS {
		tc := tls.Server(c, &tls.Config{Certificates: []tls.Certificate{s.cert}})
		if err := tc.Handshake(); err != nil {
			if s.keepFailedHandshake.Load() { // witness: the client must close the connection it could not use
				io.Copy(io.Discard, c)
			}
			c.Close()
			s.conns.Delete(c)
			return
		}
		raw := c
		s.conns.Store(tc, true)
		defer s.conns.Delete(raw)
		c = tc
	}
	if s.f() == "silent" {
		return // never read, never write; the connection stays referenced (open) until the scenario ends
	}
	if s.f() == "silent-frame" { // never read; one well-formed (unsolicited) reply frame after a while
		go func() {
			time.Sleep(250 * time.Millisecond)
			q := new(dns.Msg)
			q.SetQuestion("unsolicited.test.", dns.TypeA)
			q.Id = 65000
			if w, err := q.Pack(); err == nil {
				if a := mkAnswer(w); a != nil {
					f := make([]byte, 2+len(a))
					binary.BigEndian.PutUint16(f, uint16(len(a)))
					copy(f[2:], a)
					c.Write(f)
				}
			}
		}()
		return
	}
	if s.f() == "read1stall" { // reads nothing for 300 ms, then exactly the first frame, then never again
		time.Sleep(300 * time.Millisecond)
		h := make([]byte, 2)
		if _, err := io.ReadFull(c, h); err == nil {
			io.CopyN(io.Discard, c, int64(binary.BigEndian.Uint16(h)))
		}
		return // the connection stays referenced (open) until the scenario ends
	}
	defer func() { s.conns.Delete(c) }()
	var wm sync.Mutex
	h := make([]byte, 2)
	served := 0 // queries answered on this connection
	wedged := false
	for {
		if _, err := io.ReadFull(c, h); err != nil {
			if s.closeOnEOF.Load() {
				c.Close()
			}
			return
		}
		b := make([]byte, binary.BigEndian.Uint16(h))
		if _, err := io.ReadFull(c, b); err != nil {
			if s.closeOnEOF.Load() {
				c.Close()
			}
			return
		}
		s.nq.Add(1)
		switch s.f() {
		case "noreply":
			continue
		case "fin":
			c.Close()
			return
		case "rst":
			if tc, ok := c.(*net.TCPConn); ok {
				tc.SetLinger(0)
			}
			c.Close()
			return
		case "half":
			c.Write([]byte{0, 90, 1, 2, 3})
			continue
		case "garbage":
			c.Write([]byte{0, 5, 1, 2, 3, 4, 5})
			continue
		case "halfonce":
			// once: the second query of a connection gets a frame whose length lies (65535 announced, 12 octets
			// follow) and the connection is kept open, unanswered from then on. Everything else is healthy.
			if wedged {
				continue
			}
			if served >= 1 && s.halfDone.CompareAndSwap(false, true) {
				wedged = true
				c.Write(append([]byte{0xff, 0xff}, make([]byte, 12)...))
				continue
			}
		case "garbage2nd":
			// the first query of every connection is answered; the second one gets a well-framed message that
			// does not decode (header announces five questions, none follows) and nothing else on this
			// connection. New connections are healthy again.
			if served == 1 {
				served++
				c.Write([]byte{0, 14, b[0], b[1], 0x81, 0x80, 0, 5, 0, 0, 0, 0, 0, 0, 7, 7})
				continue
			}
			if served > 1 {
				continue
			}
		}
		served++
		a := mkAnswer(b)
		f := make([]byte, 2+len(a))
		binary.BigEndian.PutUint16(f, uint16(len(a)))
		copy(f[2:], a)
		wm.Lock()
		c.Write(f)
		wm.Unlock()
		if s.f() == "closeafter" {
			time.Sleep(20 * time.Millisecond)
			c.Close()
			return
		}
	}
}

// httpHandle is the DoH handler shared by the https (h1/h2) and h3 servers.
func (s *fsrv) httpHandle(w http.ResponseWriter, r *http.Request) {
	s.nq.Add(1)
	if own != nil {
		// a well-formed request is "dns=<base64url>": anything else means the URL was built from
		// memory that no longer belonged to the request
		raw := r.URL.RawQuery
		bad := !strings.HasPrefix(raw, "dns=")
		for _, c := range []byte(strings.TrimPrefix(raw, "dns=")) {
			if !(c >= 'a' && c <= 'z' || c >= 'A' && c <= 'Z' || c >= '0' && c <= '9' || c == '-' || c == '_') {
				bad = true
			}
		}
		if bad {
			own.T.Emit("own.poison", "where", "DoH request URL seen by the scripted server")
		}
	}
	switch s.f() {
	case "silent", "noreply", "half":
		<-r.Context().Done()
		return
	case "garbage":
		w.Header().Set("Content-Type", "application/dns-message")
		w.Write([]byte{1, 2, 3})
		return
	case "fin", "rst":
		if s.kind == "h3" {
			s.killAll()
			return
		}
		if hj, ok := w.(http.Hijacker); ok {
			c, _, _ := hj.Hijack()
			c.Close()
			return
		}
		panic(http.ErrAbortHandler)
	}
	var b []byte
	for _, kv := range strings.Split(r.URL.RawQuery, "&") {
		if strings.HasPrefix(kv, "dns=") {
			b, _ = base64.RawURLEncoding.DecodeString(kv[4:])
		}
	}
	w.Header().Set("Content-Type", "application/dns-message")
	w.Write(mkAnswer(b))
	if s.f() == "closeafter" && s.kind == "h3" {
		go func() { time.Sleep(20 * time.Millisecond); s.killAll() }()
	}
}

// trackingListener records the QUIC connections an http3 server accepts (kill / census).
type trackingListener struct {
	*quic.EarlyListener
	s *fsrv
}

func (l *trackingListener) Accept(ctx context.Context) (quic.EarlyConnection, error) {
	c, err := l.EarlyListener.Accept(ctx)
	if err == nil {
		l.s.nconn.Add(1)
		l.s.conns.Store(quic.Connection(c), true)
		go func() { <-c.Context().Done(); l.s.conns.Delete(quic.Connection(c)) }()
	}
	return c, err
}

func newFsrv(kind string) *fsrv {
	s := &fsrv{kind: kind}
	s.fault.Store("")
	s.cert, _ = testutils.GenerateCertificate("localhost")
	switch kind {
	case "udp-blackhole":
		uc, err := net.ListenUDP("udp", &net.UDPAddr{IP: net.IPv4(127, 0, 0, 1)})
		if err != nil {
			panic(err)
		}
		s.addr = uc.LocalAddr().String()
		s.closer = append(s.closer, func() { uc.Close() })
		go func() {
			buf := make([]byte, 65535)
			for {
				if _, _, err := uc.ReadFromUDP(buf); err != nil {
					return
				}
			}
		}()
	case "udp":
		uc, err := net.ListenUDP("udp", &net.UDPAddr{IP: net.IPv4(127, 0, 0, 1)})
		if err != nil {
			panic(err)
		}
		s.addr = uc.LocalAddr().String()
		s.closer = append(s.closer, func() { uc.Close() })
		// the TCP fallback port stays closed
		go func() {
			buf := make([]byte, 65535)
			for {
				n, ra, err := uc.ReadFromUDP(buf)
				if err != nil {
					return
				}
				s.nq.Add(1)
				switch s.f() {
				case "silent", "noreply", "stall":
					continue
				case "garbage", "half":
					uc.WriteToUDP([]byte{1, 2, 3, 4, 5, 6, 7, 8, 9, 10, 11, 12, 13}, ra)
					continue
				}
				if a := mkAnswer(buf[:n]); a != nil {
					uc.WriteToUDP(a, ra)
				}
			}
		}()
	case "tcp", "tcp+pipeline", "tls", "tls+pipeline":
		lc := net.ListenConfig{Control: func(network, address string, c syscall.RawConn) error {
			if smallBuffers.Load() {
				c.Control(func(fd uintptr) { syscall.SetsockoptInt(int(fd), syscall.SOL_SOCKET, syscall.SO_RCVBUF, 4096) })
			}
			return nil
		}}
		l, err := lc.Listen(context.Background(), "tcp", "127.0.0.1:0")
		if err != nil {
			panic(err)
		}
		s.addr = l.Addr().String()
		s.closer = append(s.closer, func() { l.Close() })
		go func() {
			for {
				c, err := l.Accept()
				if err != nil {
					return
				}
				go s.streamServe(c, strings.HasPrefix(kind, "tls"))
			}
		}()
	case "https":
		l, err := net.Listen("tcp", "127.0.0.1:0")
		if err != nil {
			panic(err)
		}
		s.addr = l.Addr().String()
		hs := &http.Server{TLSConfig: &tls.Config{Certificates: []tls.Certificate{s.cert}, NextProtos: []string{"h2", "http/1.1"}},
			ConnState: func(c net.Conn, st http.ConnState) {
				if st == http.StateNew {
					s.nconn.Add(1)
					s.conns.Store(c, true)
				}
				if st == http.StateClosed || st == http.StateHijacked {
					s.conns.Delete(c)
				}
			},
			Handler: http.HandlerFunc(s.httpHandle)}
		s.closer = append(s.closer, func() { hs.Close() })
		go func() {
			// "stall": accept raw TCP and never start TLS
			tl := &stallListener{Listener: l, s: s}
			hs.ServeTLS(tl, "", "")
		}()
	case "h3":
		uc, err := net.ListenUDP("udp", &net.UDPAddr{IP: net.IPv4(127, 0, 0, 1)})
		if err != nil {
			panic(err)
		}
		s.addr = uc.LocalAddr().String()
		var stop func()
		start := func(uc *net.UDPConn) {
			qt := &quic.Transport{Conn: uc, StatelessResetKey: &s.resetKey}
			ql, err := qt.ListenEarly(http3.ConfigureTLSConfig(&tls.Config{Certificates: []tls.Certificate{s.cert}}), &quic.Config{MaxIdleTimeout: 10 * time.Second})
			if err != nil {
				panic(err)
			}
			h3s := &http3.Server{Handler: http.HandlerFunc(s.httpHandle)}
			stop = func() { h3s.Close(); ql.Close(); qt.Close(); uc.Close() }
			s.kill = func() { uc.Close(); qt.Close() } // socket first: nothing can be sent any more
			go h3s.ServeListener(&trackingListener{EarlyListener: ql, s: s})
		}
		start(uc)
		s.closer = append(s.closer, func() { stop() })
		s.restart = func() { s.rebind(uc, start) }
	case "quic":
		uc, err := net.ListenUDP("udp", &net.UDPAddr{IP: net.IPv4(127, 0, 0, 1)})
		if err != nil {
			panic(err)
		}
		s.addr = uc.LocalAddr().String()
		var stop func()
		var start func(uc *net.UDPConn)
		s.closer = append(s.closer, func() { stop() })
		s.restart = func() { s.rebind(uc, start) }
		start = func(uc *net.UDPConn) {
			qt := &quic.Transport{Conn: uc, StatelessResetKey: &s.resetKey}
			ql, err := qt.Listen(&tls.Config{Certificates: []tls.Certificate{s.cert}, NextProtos: []string{"doq"}}, &quic.Config{MaxIdleTimeout: 10 * time.Second, MaxIncomingStreams: quicStreamLimit.Load()})
			if err != nil {
				panic(err)
			}
			stop = func() { ql.Close(); qt.Close(); uc.Close() }
			s.kill = func() { uc.Close(); qt.Close() }
			go func() {
				for {
					c, err := ql.Accept(context.Background())
					if err != nil {
						return
					}
					s.nconn.Add(1)
					s.conns.Store(c, true)
					go func() {
						for {
							st, err := c.AcceptStream(context.Background())
							if err != nil {
								s.conns.Delete(c)
								return
							}
							go func() {
								h := make([]byte, 2)
								if _, err := io.ReadFull(st, h); err != nil {
									return
								}
								b := make([]byte, binary.BigEndian.Uint16(h))
								if _, err := io.ReadFull(st, b); err != nil {
									return
								}
								s.nq.Add(1)
								switch s.f() {
								case "silent", "noreply":
									return
								case "half":
									st.Write([]byte{0, 90, 1, 2})
									return
								case "garbage":
									st.Write([]byte{0, 5, 1, 2, 3, 4, 5})
									st.Close()
									return
								case "fin", "rst":
									c.CloseWithError(0, "bye")
									return
								}
								a := mkAnswer(b)
								f := make([]byte, 2+len(a))
								binary.BigEndian.PutUint16(f, uint16(len(a)))
								copy(f[2:], a)
								st.Write(f)
								st.Close()
								if s.f() == "closeafter" {
									time.Sleep(20 * time.Millisecond)
									c.CloseWithError(0, "bye")
								}
							}()
						}
					}()
				}
			}()
		}
		start(uc)
	}
	return s
}

var smallBuffers atomic.Bool

// quicStreamLimit: bidirectional streams the next DoQ server allows per connection (0: quic-go's default, 100)
var quicStreamLimit atomic.Int64
var fsrvMu sync.Mutex

type stallListener struct {
	net.Listener
	s *fsrv
}

func (l *stallListener) Accept() (net.Conn, error) {
	for {
		c, err := l.Listener.Accept()
		if err != nil {
			return nil, err
		}
		if l.s.f() == "stall" {
			l.s.nconn.Add(1)
			l.s.conns.Store(c, true)
			go func() {
				io.Copy(io.Discard, c)
				if l.s.closeOnEOF.Load() {
					c.Close()
					l.s.conns.Delete(c)
				}
			}()
			continue // hold the connection, never hand it to the TLS server
		}
		return c, nil
	}
}

func (s *fsrv) url() string {
	switch s.kind {
	case "https":
		return "https://" + s.addr + "/dns-query"
	case "h3":
		return "h3://" + s.addr + "/dns-query"
	case "udp":
		return "udp://" + s.addr
	}
	return s.kind + "://" + s.addr
}

// one scenario: a fresh server + a fresh upstream built by the real NewUpstream
func faultScenario(kind, fault string, rng *rand.Rand) {
	sc := fmt.Sprintf("%s/%s", kind, fault)
	smallBuffers.Store(fault == "sndbuf" || fault == "sndbuf2" || fault == "sndbuf3")
	fsrvMu.Lock()
	if fault == "streamlimit" {
		quicStreamLimit.Store(2)
	}
	if fault == "halfmany" {
		quicStreamLimit.Store(4)
	}
	s := newFsrv(kind)
	quicStreamLimit.Store(0)
	fsrvMu.Unlock()
	defer s.close()
	var dials atomic.Int32
	idle := time.Duration(0)
	if fault == "halfsteady" {
		idle = 400 * time.Millisecond
	}
	opt := upstream.Opt{TLSConfig: &tls.Config{InsecureSkipVerify: true}, DialTimeout: 3 * time.Second, IdleTimeout: idle,
		Control: func(network, address string, c syscall.RawConn) error {
			if strings.HasSuffix(address, ":0") || strings.HasPrefix(address, ":") || strings.HasPrefix(address, "[::]") || strings.HasPrefix(address, "0.0.0.0") {
				return nil
			}
			dials.Add(1)
			if fault == "sndbuf" || fault == "sndbuf2" || fault == "sndbuf3" {
				c.Control(func(fd uintptr) { syscall.SetsockoptInt(int(fd), syscall.SOL_SOCKET, syscall.SO_SNDBUF, 4096) })
			}
			return nil
		}}
	url := s.url()
	if fault == "refuse" {
		s.close() // nothing listens any more
	}
	u, err := upstream.NewUpstream(url, opt)
	if err != nil {
		panic(err)
	}
	expect := "any"
	tr.Emit("sc.begin", "sc", sc, "tr", kind, "fault", fault)
	bigQueries := fault == "stalebig"
	one := func(deadline time.Duration, want string) {
		ex := int(exCtr.Add(1))
		q := new(dns.Msg)
		q.SetQuestion(exName(ex), dns.TypeA)
		q.Id = uint16(rng.Intn(65536))
		if bigQueries { // a query of some 700 octets (EDNS padding)
			o := &dns.OPT{Hdr: dns.RR_Header{Name: ".", Rrtype: dns.TypeOPT}}
			o.SetUDPSize(1232)
			o.Option = append(o.Option, &dns.EDNS0_PADDING{Padding: make([]byte, 640)})
			q.Extra = append(q.Extra, o)
		}
		w, _ := q.Pack()
		ctx, cancel := context.WithTimeout(context.Background(), deadline)
		defer cancel()
		dl, _ := ctx.Deadline()
		tr.Emit("fx.begin", "ex", ex, "sc", sc, "deadline", tr.MsOf(dl), "want", want)
		r, err := u.ExchangeContext(ctx, w)
		kind, es := "reply", ""
		if err != nil {
			kind, es = "error", err.Error()
		}
		if r != nil {
			releaseMsg(r)
		}
		tr.Emit("fx.end", "ex", ex, "sc", sc, "kind", kind, "err", es)
	}
	switch fault {
	case "eol":
		// one pipelined connection uses up its 65536 transaction IDs while its last query is still unanswered:
		// the following queries need another connection (the server is healthy)
		if !exhaustIDs(u, s, sc, rng) {
			break
		}
		s.fault.Store("noreply")
		var wg sync.WaitGroup
		wg.Add(1)
		go func() { defer wg.Done(); one(1500*time.Millisecond, "any") }() // ID 65535, never answered
		time.Sleep(60 * time.Millisecond)
		s.fault.Store("")
		for i := 0; i < 3; i++ {
			one(1500*time.Millisecond, "reply")
		}
		wg.Wait()
	case "refuse":
		one(500*time.Millisecond, expect)
		one(500*time.Millisecond, expect)
	case "silent", "half", "garbage", "noreply":
		s.fault.Store(fault)
		one(350*time.Millisecond, expect)
		one(350*time.Millisecond, expect)
	case "stall":
		s.fault.Store("stall")
		one(300*time.Millisecond, expect)
	case "fin", "rst":
		s.fault.Store(fault)
		one(600*time.Millisecond, expect)
		s.fault.Store("")
		one(600*time.Millisecond, "reply") // the server is healthy again: a new connection must work
	case "stale", "stalebig":
		one(800*time.Millisecond, "reply")
		s.fault.Store("closeafter")
		one(800*time.Millisecond, "reply")
		s.fault.Store("")
		time.Sleep(150 * time.Millisecond) // the server closed the idle connection meanwhile
		for i := 0; i < 3; i++ {
			one(1500*time.Millisecond, "reply")
		}
	case "halfmany":
		// more replies whose length prefix lies (and whose stream the server leaves open) than the connection has
		// streams: every exchange that gives up lets go of its stream, so the upstream keeps working afterwards
		s.fault.Store("half")
		for i := 0; i < 7; i++ {
			one(250*time.Millisecond, "any")
		}
		s.fault.Store("")
		for i := 0; i < 3; i++ {
			one(1500*time.Millisecond, "reply")
		}
	case "streamlimit":
		// the server allows two streams per connection and answers nothing: two exchanges hold the streams, a
		// third with a short deadline still ends by its deadline (waiting for a free stream is bounded by the
		// caller's context)
		s.fault.Store("noreply")
		var wg sync.WaitGroup
		for i := 0; i < 2; i++ {
			wg.Add(1)
			go func() { defer wg.Done(); one(2500*time.Millisecond, "any") }()
		}
		time.Sleep(150 * time.Millisecond)
		for i := 0; i < 2; i++ {
			wg.Add(1)
			go func() { defer wg.Done(); one(300*time.Millisecond, "any") }()
		}
		wg.Wait()
	case "halfsteady":
		// a reply frame whose length field lies wedges the reader of one multiplexed connection while queries keep
		// coming (so the connection is never without a waiter). The connection's idle time-out (400 ms here) must
		// still end it: queries started well after that are answered on a new connection - the proxy does not
		// stop serving because of one malformed frame
		s.fault.Store("halfonce")
		one(800*time.Millisecond, "reply")
		var wg sync.WaitGroup
		t0 := time.Now()
		for time.Since(t0) < 2400*time.Millisecond {
			want := "any"
			if time.Since(t0) > 1500*time.Millisecond {
				want = "reply"
			}
			wg.Add(1)
			go func() { defer wg.Done(); one(300*time.Millisecond, want) }()
			time.Sleep(70 * time.Millisecond)
		}
		wg.Wait()
	case "garbage2nd":
		// a reused connection fails (undecodable reply) while a healthy server is reachable: the exchange is
		// retried on another connection and succeeds
		s.fault.Store("garbage2nd")
		for i := 0; i < 5; i++ {
			one(1500*time.Millisecond, "reply")
		}
	case "restart":
		// the server goes away without closing anything and comes back on the same address: the connection in the
		// pool is dead (the new server answers its packets with stateless resets); exchanges get their replies
		one(800*time.Millisecond, "reply")
		time.Sleep(30 * time.Millisecond)
		s.restart()
		tr.Emit("fault", "sc", sc, "kind", "restart")
		for i := 0; i < 3; i++ {
			one(1500*time.Millisecond, "reply")
		}
	case "kill":
		// several exchanges waiting on the connection(s) when it dies; the server is healthy afterwards
		one(800*time.Millisecond, "reply")
		s.fault.Store("noreply")
		var wg sync.WaitGroup
		for i := 0; i < 5; i++ {
			wg.Add(1)
			go func() { defer wg.Done(); one(3*time.Second, "any") }()
		}
		time.Sleep(120 * time.Millisecond)
		s.fault.Store("")
		tr.Emit("fault", "sc", sc, "kind", "kill")
		s.killAll()
		wg.Wait()
	case "sndbuf2":
		// the peer never reads. A small query (it fits the socket buffers) waits for its reply with a short deadline
		// while large queries with a longer deadline block in write on the same connection, and the peer sends one
		// unsolicited frame meanwhile: the small one ends by ITS deadline, the large ones by theirs.
		s.fault.Store("silent-frame")
		var wg sync.WaitGroup
		wg.Add(1)
		go func() { defer wg.Done(); one(600*time.Millisecond, "any") }()
		time.Sleep(60 * time.Millisecond)
		for i := 0; i < 8; i++ {
			wg.Add(1)
			go func() {
				defer wg.Done()
				ex := int(exCtr.Add(1))
				q := new(dns.Msg)
				q.SetQuestion(exName(ex), dns.TypeA)
				for k := 0; k < 250; k++ {
					q.Extra = append(q.Extra, &dns.TXT{Hdr: dns.RR_Header{Name: ".", Rrtype: dns.TypeTXT, Class: 1}, Txt: []string{string(make([]byte, 240))}})
				}
				w, _ := q.Pack()
				ctx, cancel := context.WithTimeout(context.Background(), 2200*time.Millisecond)
				defer cancel()
				dl, _ := ctx.Deadline()
				tr.Emit("fx.begin", "ex", ex, "sc", sc, "deadline", tr.MsOf(dl), "want", "any")
				r, err := u.ExchangeContext(ctx, w)
				k, es := "reply", ""
				if err != nil {
					k, es = "error", err.Error()
				}
				if r != nil {
					releaseMsg(r)
				}
				tr.Emit("fx.end", "ex", ex, "sc", sc, "kind", k, "err", es)
			}()
		}
		// ... and a small exchange that arrives while the large ones are blocked still ends by its own deadline
		time.Sleep(250 * time.Millisecond)
		wg.Add(1)
		go func() { defer wg.Done(); one(400*time.Millisecond, "any") }()
		wg.Wait()
	case "sndbuf3":
		// the peer reads slowly and then stalls: exchange A (2 s) blocks in its write, exchange B (600 ms) queues
		// behind it on the same connection; the peer then reads exactly A's query. B's write starts when A's has
		// finished and blocks for good - B still ends by ITS deadline.
		s.fault.Store("read1stall")
		big := func(d time.Duration) {
			ex := int(exCtr.Add(1))
			q := new(dns.Msg)
			q.SetQuestion(exName(ex), dns.TypeA)
			for k := 0; k < 250; k++ {
				q.Extra = append(q.Extra, &dns.TXT{Hdr: dns.RR_Header{Name: ".", Rrtype: dns.TypeTXT, Class: 1}, Txt: []string{string(make([]byte, 240))}})
			}
			w, _ := q.Pack()
			ctx, cancel := context.WithTimeout(context.Background(), d)
			defer cancel()
			dl, _ := ctx.Deadline()
			tr.Emit("fx.begin", "ex", ex, "sc", sc, "deadline", tr.MsOf(dl), "want", "any")
			r, err := u.ExchangeContext(ctx, w)
			k, es := "reply", ""
			if err != nil {
				k, es = "error", err.Error()
			}
			if r != nil {
				releaseMsg(r)
			}
			tr.Emit("fx.end", "ex", ex, "sc", sc, "kind", k, "err", es)
		}
		var wg sync.WaitGroup
		wg.Add(2)
		go func() { defer wg.Done(); big(2 * time.Second) }()
		time.Sleep(100 * time.Millisecond)
		go func() { defer wg.Done(); big(600 * time.Millisecond) }()
		wg.Wait()
	case "sndbuf":
		// the peer accepts and never reads; queries are large: a blocking write must not outlive the deadline
		s.fault.Store("silent")
		var wg sync.WaitGroup
		for i := 0; i < 12; i++ {
			wg.Add(1)
			go func() {
				defer wg.Done()
				ex := int(exCtr.Add(1))
				q := new(dns.Msg)
				q.SetQuestion(exName(ex), dns.TypeA)
				for k := 0; k < 250; k++ {
					q.Extra = append(q.Extra, &dns.TXT{Hdr: dns.RR_Header{Name: ".", Rrtype: dns.TypeTXT, Class: 1}, Txt: []string{string(make([]byte, 240))}})
				}
				w, _ := q.Pack()
				ctx, cancel := context.WithTimeout(context.Background(), 500*time.Millisecond)
				defer cancel()
				dl, _ := ctx.Deadline()
				tr.Emit("fx.begin", "ex", ex, "sc", sc, "deadline", tr.MsOf(dl), "want", "any")
				r, err := u.ExchangeContext(ctx, w)
				k, es := "reply", ""
				if err != nil {
					k, es = "error", err.Error()
				}
				if r != nil {
					releaseMsg(r)
				}
				tr.Emit("fx.end", "ex", ex, "sc", sc, "kind", k, "err", es)
			}()
		}
		wg.Wait()
	}
	tr.Emit("sc.end", "sc", sc, "dials", int(dials.Load()), "conns", int(s.nconn.Load()))
	done := make(chan struct{})
	go func() { defer func() { recover(); close(done) }(); u.Close() }()
	select {
	case <-done:
	case <-time.After(2 * time.Second):
	}
}

// exhaustIDs sends 65535 answered queries through u (at most 24 at a time, so that the pool keeps them on one
// connection). It reports whether the server saw exactly one connection.
func exhaustIDs(u upstream.Upstream, s *fsrv, sc string, rng *rand.Rand) bool {
	var wg sync.WaitGroup
	var fails atomic.Int32
	jobs := make(chan int, 64)
	for w := 0; w < 24; w++ {
		wg.Add(1)
		go func() {
			defer wg.Done()
			for range jobs {
				q := new(dns.Msg)
				q.SetQuestion("bulk.test.", dns.TypeA)
				q.Id = uint16(rand.Intn(65536))
				w, _ := q.Pack()
				ctx, cancel := context.WithTimeout(context.Background(), 3*time.Second)
				r, err := u.ExchangeContext(ctx, w)
				cancel()
				if err != nil {
					fails.Add(1)
				}
				if r != nil {
					releaseMsg(r)
				}
			}
		}()
	}
	for i := 0; i < 65535; i++ {
		jobs <- i
	}
	close(jobs)
	wg.Wait()
	ok := fails.Load() == 0 && s.nconn.Load() == 1
	tr.Emit("bulk", "sc", sc, "n", 65535, "fails", int(fails.Load()), "conns", int(s.nconn.Load()), "usable", ok)
	return ok
}

func modeFault(thorough bool) {
	onlyEvents = map[string]bool{} // hook and server events are not needed here
	rng := rand.New(rand.NewSource(seed))
	kinds := []string{"udp", "tcp", "tcp+pipeline", "tls", "tls+pipeline", "https", "quic", "h3"}
	faults := []string{"refuse", "silent", "noreply", "half", "garbage", "fin", "rst", "stall", "stale", "kill", "sndbuf", "sndbuf2", "sndbuf3", "eol", "restart", "garbage2nd", "halfsteady", "streamlimit", "stalebig", "halfmany"}
	var wg sync.WaitGroup
	sem := make(chan struct{}, 6)
	only := map[string]bool{}
	for _, f := range strings.Split(os.Getenv("VERIF_FAULTS"), ",") {
		if f != "" {
			only[f] = true
		}
	}
	for _, k := range kinds {
		for _, f := range faults {
			if len(only) > 0 && !only[f] {
				continue
			}
			if k == "udp" && (f == "fin" || f == "rst" || f == "stale" || f == "stalebig" || f == "stall" || f == "kill" || f == "sndbuf" || f == "sndbuf2" || f == "sndbuf3") {
				continue
			}
			if f == "garbage2nd" && !(k == "tcp" || k == "tcp+pipeline" || k == "tls" || k == "tls+pipeline") {
				continue
			}
			if f == "halfsteady" && !(k == "tcp+pipeline" || k == "tls+pipeline") {
				continue
			}
			if (f == "streamlimit" || f == "halfmany") && k != "quic" {
				continue
			}
			if f == "restart" && !(k == "quic" || k == "h3") {
				continue
			}
			if f == "stall" && !(strings.HasPrefix(k, "tls") || k == "https") {
				continue
			}
			if (f == "sndbuf2" || f == "sndbuf3") && k != "tcp+pipeline" {
				continue
			}
			if f == "sndbuf" && !(k == "tcp+pipeline" || k == "tcp") {
				continue
			}
			if f == "eol" && !(k == "tcp+pipeline" || (thorough && (k == "tls+pipeline" || k == "udp"))) {
				continue
			}
			if (f == "half" || f == "rst") && (k == "https" || k == "h3") {
				continue
			}
			wg.Add(1)
			sem <- struct{}{}
			sub := rng.Int63()
			go func(k, f string) {
				defer wg.Done()
				defer func() { <-sem }()
				faultScenario(k, f, rand.New(rand.NewSource(sub)))
			}(k, f)
		}
	}
	wg.Wait()
}
