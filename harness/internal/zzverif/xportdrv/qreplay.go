//go:build verif

package main

import (
	"context"
	"encoding/binary"
	"encoding/json"
	"errors"
	"fmt"
	"io"
	"net"
	"os"
	"reflect"
	"strings"
	"sync"
	"time"

	"github.com/IrineSistiana/mosproxy/internal/upstream/transport"
	"github.com/IrineSistiana/mosproxy/internal/verifhook"
	"github.com/miekg/dns"
	"github.com/quic-go/quic-go"
)

// mode qreplay: behaviours of QuicXport (paths through TLC's state graph) are stepped through the real
// QuicTransport. The schedule is enforced by the blocking hooks (verifhook.Gate) - a goroutine of the
// code under test passes a gate only when the behaviour's next action is its own -, the dialer and the
// connections are scripted, and after every step the projected state of the real object must equal the
// model's state (closed, t.c, t.dialingCall, call states, connection states, per exchange: where it is,
// which call / connection it uses, retry counter, result).

type rpState struct {
	Closed  bool     `json:"closed"`
	Cur     int      `json:"cur"`
	Call    int      `json:"call"`
	Cst     []string `json:"cst"`
	Cres    []string `json:"cres"`
	Conn    []string `json:"conn"`
	Pc      []string `json:"pc"`
	Ccall   []int    `json:"ccall"`
	Cconn   []int    `json:"cconn"`
	Fresh   []bool   `json:"fresh"`
	Retry   []int    `json:"retry"`
	Res     []string `json:"res"`
	Ctxdone []bool   `json:"ctxdone"`
}

type rpAct struct {
	A  string `json:"a"`
	E  int    `json:"e"`
	K  int    `json:"k"`
	Ok bool   `json:"ok"`
}

type rpStep struct {
	Act rpAct `json:"act"`
	S   int   `json:"s"` // index into States
}

type rpFile struct {
	States []rpState  `json:"states"`
	Init   int        `json:"init"`
	Paths  [][]rpStep `json:"paths"`
}

var errFakeDial = errors.New("verif: scripted dial failure")
var errFakeStream = errors.New("verif: scripted stream failure")

// ---------------------------------------------------------------- scripted connection

type fakeAddr struct{}

func (fakeAddr) Network() string { return "fake" }
func (fakeAddr) String() string  { return "fake" }

type fakeConn struct {
	quic.Connection // nil: any method the transport is not expected to call panics
	id              int
	r               *rpRun
	ctx             context.Context
	cancel          context.CancelCauseFunc
	mu              sync.Mutex
	state           string // alive | dead | closed
}

func (c *fakeConn) LocalAddr() net.Addr      { return fakeAddr{} }
func (c *fakeConn) RemoteAddr() net.Addr     { return fakeAddr{} }
func (c *fakeConn) Context() context.Context { return c.ctx }
func (c *fakeConn) CloseWithError(quic.ApplicationErrorCode, string) error {
	c.mu.Lock()
	if c.state == "alive" {
		c.state = "closed"
	}
	c.mu.Unlock()
	c.cancel(errors.New("closed locally"))
	return nil
}
func (c *fakeConn) die() {
	c.mu.Lock()
	if c.state == "alive" {
		c.state = "dead"
	}
	c.mu.Unlock()
	c.cancel(errors.New("closed by peer"))
}
func (c *fakeConn) st() string { c.mu.Lock(); defer c.mu.Unlock(); return c.state }

// OpenStream: the outcome of the exchange that opens the stream was fixed by the scheduler (Try(e, ok)).
func (c *fakeConn) OpenStream() (quic.Stream, error) {
	if c.st() != "alive" {
		return nil, errFakeStream
	}
	if !c.r.streamOutcome() {
		return nil, errFakeStream
	}
	return &fakeStream{}, nil
}

type fakeStream struct {
	quic.Stream
	mu    sync.Mutex
	q     []byte
	reply []byte
	off   int
}

func (s *fakeStream) Write(p []byte) (int, error) {
	s.mu.Lock()
	defer s.mu.Unlock()
	s.q = append(s.q, p...)
	return len(p), nil
}
func (s *fakeStream) Close() error { return nil }
func (s *fakeStream) Read(p []byte) (int, error) {
	s.mu.Lock()
	defer s.mu.Unlock()
	if s.reply == nil {
		if len(s.q) < 2 {
			return 0, io.ErrUnexpectedEOF
		}
		a := mkAnswer(s.q[2:])
		s.reply = make([]byte, 2+len(a))
		binary.BigEndian.PutUint16(s.reply, uint16(len(a)))
		copy(s.reply[2:], a)
	}
	if s.off >= len(s.reply) {
		return 0, io.EOF
	}
	n := copy(p, s.reply[s.off:])
	s.off += n
	return n, nil
}
func (s *fakeStream) CancelRead(quic.StreamErrorCode)  {}
func (s *fakeStream) CancelWrite(quic.StreamErrorCode) {}
func (s *fakeStream) SetDeadline(time.Time) error      { return nil }
func (s *fakeStream) SetReadDeadline(time.Time) error  { return nil }
func (s *fakeStream) SetWriteDeadline(time.Time) error { return nil }

// ---------------------------------------------------------------- one replay run

type dialOutcome struct{ ok bool }

type rpRun struct {
	t    *transport.QuicTransport
	nex  int
	ncon int

	mu       sync.Mutex
	free     bool // free-run: every gate passes (clean-up)
	permits  map[string]chan struct{}
	ctxEx    map[any]int
	cancels  []context.CancelCauseFunc
	callID   map[any]int
	connID   map[any]int
	conns    []*fakeConn // index k-1
	dialCh   []chan dialOutcome
	ndial    int
	streamOK bool // outcome of the current Try step

	// projection maintained from hooks / gates / returns
	cst, cres, pc, res  []string
	ccall, cconn, retry []int
	lastFresh           []bool
	ctxdone             []bool
	wg                  sync.WaitGroup
}

var rpCur *rpRun
var rpMu sync.Mutex

func current() *rpRun { rpMu.Lock(); defer rpMu.Unlock(); return rpCur }

func newRun(nex, ncon int) *rpRun {
	r := &rpRun{nex: nex, ncon: ncon, permits: map[string]chan struct{}{}, ctxEx: map[any]int{}, callID: map[any]int{}, connID: map[any]int{}}
	r.conns = make([]*fakeConn, ncon)
	r.dialCh = make([]chan dialOutcome, ncon)
	for i := range r.dialCh {
		r.dialCh[i] = make(chan dialOutcome, 1)
	}
	r.cst, r.cres = fill(ncon, "none"), fill(ncon, "none")
	r.pc, r.res = fill(nex, "idle"), fill(nex, "none")
	r.ccall, r.cconn, r.retry = make([]int, nex), make([]int, nex), make([]int, nex)
	r.lastFresh, r.ctxdone = make([]bool, nex), make([]bool, nex)
	r.cancels = make([]context.CancelCauseFunc, nex)
	r.t = transport.NewQuicTransport(transport.QuicTransportOpts{DialTimeout: time.Hour, DialContext: r.dial})
	return r
}

func fill(n int, v string) []string {
	s := make([]string, n)
	for i := range s {
		s[i] = v
	}
	return s
}

// the injected dialer: the k-th dial waits for the scheduler's DialLocked(k, ok)
func (r *rpRun) dial(ctx context.Context) (quic.Connection, error) {
	r.mu.Lock()
	r.ndial++
	k := r.ndial
	free := r.free
	r.mu.Unlock()
	if k > r.ncon || free {
		return nil, errFakeDial
	}
	o := <-r.dialCh[k-1]
	if !o.ok {
		return nil, errFakeDial
	}
	cctx, cancel := context.WithCancelCause(context.Background())
	c := &fakeConn{id: k, r: r, ctx: cctx, cancel: cancel, state: "alive"}
	r.mu.Lock()
	r.conns[k-1] = c
	r.connID[c] = k
	r.mu.Unlock()
	return c, nil
}

// the outcome of the stream opened by the exchange whose Try step is being executed (steps are serialised)
func (r *rpRun) streamOutcome() bool {
	r.mu.Lock()
	defer r.mu.Unlock()
	return r.streamOK
}

func (r *rpRun) permit(key string) chan struct{} {
	ch := r.permits[key]
	if ch == nil {
		ch = make(chan struct{}, 64)
		r.permits[key] = ch
	}
	return ch
}

func (r *rpRun) grant(key string) {
	r.mu.Lock()
	ch := r.permit(key)
	r.mu.Unlock()
	ch <- struct{}{}
}

// gate: called on the goroutine of the code under test
func (r *rpRun) gate(name string, args []any) {
	r.mu.Lock()
	if r.free {
		r.mu.Unlock()
		return
	}
	var key string
	switch name {
	case "qt.getconn":
		e, ok := r.ctxEx[args[1]]
		if !ok || args[0] != any(r.t) {
			r.mu.Unlock()
			return
		}
		r.pc[e-1] = "getconn"
		key = fmt.Sprint("getconn:", e)
	case "qt.try":
		e, ok := r.ctxEx[args[1]]
		if !ok || args[0] != any(r.t) {
			r.mu.Unlock()
			return
		}
		r.pc[e-1] = "try"
		r.cconn[e-1] = r.connID[args[2]]
		key = fmt.Sprint("try:", e)
	case "qt.waited":
		e, ok := r.ctxEx[args[1]]
		if !ok {
			r.mu.Unlock()
			return
		}
		key = fmt.Sprint("waited:", e)
	case "qt.signal":
		k, ok := r.callID[args[1]]
		if !ok || args[0] != any(r.t) {
			r.mu.Unlock()
			return
		}
		key = fmt.Sprint("signal:", k)
	default:
		r.mu.Unlock()
		return
	}
	ch := r.permit(key)
	r.mu.Unlock()
	<-ch
}

func (r *rpRun) event(name string, args []any) {
	r.mu.Lock()
	defer r.mu.Unlock()
	switch name {
	case "qt.getconn":
		if args[0] != any(r.t) {
			return
		}
		e, ok := r.ctxEx[args[1]]
		if !ok {
			return
		}
		switch args[2].(string) {
		case "reuse":
			r.pc[e-1] = "try"
			r.cconn[e-1] = r.connID[args[4]]
			r.lastFresh[e-1] = false
		case "join":
			r.pc[e-1] = "wait"
			r.ccall[e-1] = r.callID[args[3]]
		case "dial":
			id := len(r.callID) + 1
			r.callID[args[3]] = id
			if id <= r.ncon {
				r.cst[id-1] = "dialing"
			}
			r.pc[e-1] = "wait"
			r.ccall[e-1] = id
		}
	case "qt.dialed":
		if args[0] != any(r.t) {
			return
		}
		k := r.callID[args[1]]
		if k < 1 || k > r.ncon {
			return
		}
		r.cst[k-1] = "locked"
		switch {
		case args[4].(bool):
			r.cres[k-1] = "closed"
		case args[3].(bool):
			r.cres[k-1] = "conn"
		default:
			r.cres[k-1] = "err"
		}
	case "qt.signal":
		if args[0] != any(r.t) {
			return
		}
		if k := r.callID[args[1]]; k >= 1 && k <= r.ncon {
			r.cst[k-1] = "done"
		}
	case "qt.wait":
		if e, ok := r.ctxEx[args[1]]; ok && args[2].(bool) {
			r.lastFresh[e-1] = true
		}
	case "qt.try":
		if args[0] != any(r.t) {
			return
		}
		if e, ok := r.ctxEx[args[1]]; ok {
			r.retry[e-1] = args[5].(int)
		}
	}
}

func (r *rpRun) start(e int) {
	ctx, cancel := context.WithCancelCause(context.Background())
	r.mu.Lock()
	r.ctxEx[ctx] = e
	r.cancels[e-1] = cancel
	r.mu.Unlock()
	m := new(dns.Msg)
	m.SetQuestion(exName(e), dns.TypeA)
	m.Id = uint16(1000 + e)
	w, _ := m.Pack()
	r.wg.Add(1)
	go func() {
		defer r.wg.Done()
		resp, err := r.t.ExchangeContext(ctx, w)
		cls := "connerr"
		switch {
		case err == nil:
			cls = "ok"
			if resp.Header.ID != uint16(1000+e) {
				cls = "wrongid"
			}
		case errors.Is(err, transport.ErrClosedTransport):
			cls = "closed"
		case errors.Is(err, context.DeadlineExceeded):
			cls = "ctx"
		case errors.Is(err, errFakeDial):
			cls = "dialerr"
		}
		if resp != nil {
			releaseMsg(resp)
		}
		r.mu.Lock()
		r.pc[e-1] = "done"
		r.res[e-1] = cls
		r.mu.Unlock()
	}()
}

func (r *rpRun) project() rpState {
	closed, c, call := transport.VerifQuicState(r.t)
	r.mu.Lock()
	defer r.mu.Unlock()
	s := rpState{Closed: closed, Cst: append([]string{}, r.cst...), Cres: append([]string{}, r.cres...),
		Pc: append([]string{}, r.pc...), Res: append([]string{}, r.res...), Ccall: append([]int{}, r.ccall...),
		Cconn: append([]int{}, r.cconn...), Retry: append([]int{}, r.retry...), Ctxdone: append([]bool{}, r.ctxdone...),
		Fresh: append([]bool{}, r.lastFresh...)}
	if c != nil {
		s.Cur = r.connID[c]
	}
	if call != nil {
		s.Call = r.callID[call]
	}
	s.Conn = make([]string, r.ncon)
	for i, fc := range r.conns {
		if fc == nil {
			s.Conn[i] = "none"
		} else {
			s.Conn[i] = fc.st()
		}
	}
	return s
}

// diff returns the fields in which the real projection differs from the model state. Fields that the
// model keeps but the code does not expose at that moment are compared only where they are meaningful.
func diff(want, got rpState, act rpAct) []string {
	var d []string
	add := func(f string, w, g any) {
		if !reflect.DeepEqual(w, g) {
			d = append(d, fmt.Sprintf("%s: model %v, code %v", f, w, g))
		}
	}
	add("closed", want.Closed, got.Closed)
	add("cur", want.Cur, got.Cur)
	add("call", want.Call, got.Call)
	add("cst", want.Cst, got.Cst)
	add("cres", want.Cres, got.Cres)
	add("conn", want.Conn, got.Conn)
	add("pc", want.Pc, got.Pc)
	add("retry", want.Retry, got.Retry)
	for i := range want.Pc {
		if want.Pc[i] == "wait" {
			add(fmt.Sprint("ccall[", i+1, "]"), want.Ccall[i], got.Ccall[i])
		}
		if want.Pc[i] == "try" {
			add(fmt.Sprint("cconn[", i+1, "]"), want.Cconn[i], got.Cconn[i])
			add(fmt.Sprint("fresh[", i+1, "]"), want.Fresh[i], got.Fresh[i])
		}
		w, g := want.Res[i], got.Res[i]
		// a failing stream and an expired context race inside exchangeStream: both are "the exchange failed"
		if w == "ctx" && g == "connerr" && want.Ctxdone[i] {
			g = "ctx"
		}
		add(fmt.Sprint("res[", i+1, "]"), w, g)
	}
	return d
}

func (r *rpRun) do(a rpAct) {
	switch a.A {
	case "Start":
		r.start(a.E)
	case "GetConn":
		r.grant(fmt.Sprint("getconn:", a.E))
	case "WaitDone":
		r.grant(fmt.Sprint("waited:", a.E))
	case "Try":
		r.mu.Lock()
		r.streamOK = a.Ok
		r.mu.Unlock()
		r.grant(fmt.Sprint("try:", a.E))
	case "Deadline":
		r.mu.Lock()
		r.ctxdone[a.E-1] = true
		c := r.cancels[a.E-1]
		r.mu.Unlock()
		c(context.DeadlineExceeded)
	case "DialLocked":
		r.dialCh[a.K-1] <- dialOutcome{ok: a.Ok}
	case "Signal":
		r.grant(fmt.Sprint("signal:", a.K))
	case "ConnDie":
		r.mu.Lock()
		c := r.conns[a.K-1]
		r.mu.Unlock()
		if c != nil {
			c.die()
		}
	case "Close":
		r.t.Close()
	}
}

func (r *rpRun) cleanup() bool {
	r.mu.Lock()
	r.free = true
	for _, ch := range r.permits {
		for i := 0; i < 32; i++ {
			select {
			case ch <- struct{}{}:
			default:
			}
		}
	}
	for _, c := range r.cancels {
		if c != nil {
			c(context.Canceled)
		}
	}
	r.mu.Unlock()
	for _, ch := range r.dialCh {
		select {
		case ch <- dialOutcome{ok: false}:
		default:
		}
	}
	r.t.Close()
	done := make(chan struct{})
	go func() { r.wg.Wait(); close(done) }()
	select {
	case <-done:
		return true
	case <-time.After(3 * time.Second):
		return false
	}
}

func modeQReplay(file string, stepTimeout time.Duration) {
	b, err := os.ReadFile(file)
	if err != nil {
		panic(err)
	}
	var f rpFile
	if err := json.Unmarshal(b, &f); err != nil {
		panic(err)
	}
	verifhook.SetSink(func(name string, args []any) {
		if strings.HasPrefix(name, "qt.") {
			if r := current(); r != nil {
				r.event(name, args)
			}
		}
	})
	verifhook.SetSched(func(name string, args []any) {
		if r := current(); r != nil {
			r.gate(name, args)
		}
	})
	nex, ncon := len(f.States[f.Init].Pc), len(f.States[f.Init].Conn)
	steps, diverged := 0, 0
	for pi, p := range f.Paths {
		if diverged >= 25 {
			break // enough evidence; every divergence costs a step time-out
		}
		r := newRun(nex, ncon)
		rpMu.Lock()
		rpCur = r
		rpMu.Unlock()
		if d := diff(f.States[f.Init], r.project(), rpAct{}); len(d) > 0 {
			tr.Emit("rp.diverge", "path", pi, "step", 0, "act", "Init", "diff", d)
			diverged++
		} else {
			for si, st := range p {
				r.do(st.Act)
				want := f.States[st.S]
				deadline := time.Now().Add(stepTimeout)
				var d []string
				for spin := 0; ; spin++ {
					d = diff(want, r.project(), st.Act)
					if len(d) == 0 || time.Now().After(deadline) {
						break
					}
					if spin < 50 {
						time.Sleep(20 * time.Microsecond)
					} else {
						time.Sleep(time.Millisecond)
					}
				}
				steps++
				if len(d) > 0 {
					acts := make([]rpAct, 0, si+1)
					for _, x := range p[:si+1] {
						acts = append(acts, x.Act)
					}
					tr.Emit("rp.diverge", "path", pi, "step", si+1, "act", st.Act.A, "e", st.Act.E, "k", st.Act.K, "ok", st.Act.Ok,
						"closed", want.Closed, "diff", d, "prefix", acts)
					diverged++
					break
				}
			}
		}
		if !r.cleanup() {
			tr.Emit("rp.stuck", "path", pi)
		}
	}
	rpMu.Lock()
	rpCur = nil
	rpMu.Unlock()
	tr.Emit("rp.done", "paths", len(f.Paths), "steps", steps, "diverged", diverged)
}
