//go:build verif

package main

import (
	"context"
	"crypto/tls"
	"math/rand"
	"strings"
	"sync"
	"time"

	"github.com/IrineSistiana/mosproxy/internal/upstream"
	"github.com/IrineSistiana/mosproxy/internal/verifhook"
	"github.com/miekg/dns"
)

// mode quic: the QUIC transport's own events (qt.* hooks) for QuicXportTrace. Scenarios run one after
// the other, each with a fresh server and a fresh transport; a "seg" event starts each of them.
// Exchange ids are small per-scenario indices (the context handed to ExchangeContext identifies the
// exchange in the hooks), connection ids are the ids of the dial calls that produced them.
type qseg struct {
	mu     sync.Mutex
	t      any          // the segment's transport (first qt event of a transport not seen before)
	dead   map[any]bool // transports of earlier segments
	ctxEx  map[any]int
	calls  map[any]int
	callT  map[any]any
	conns  map[any]int
	nex    int
	sc     string
	nstart int
}

var qs = &qseg{dead: map[any]bool{}}

func (s *qseg) begin(sc string) {
	s.mu.Lock()
	if s.t != nil {
		s.dead[s.t] = true
	}
	s.t, s.ctxEx, s.calls, s.callT, s.conns, s.nex = nil, map[any]int{}, map[any]int{}, map[any]any{}, map[any]int{}, 0
	s.sc = sc
	s.mu.Unlock()
	tr.Emit("seg", "sc", sc)
}

func isNilIface(x any) bool { return x == nil }

func (s *qseg) mine(t any) bool {
	if s.dead[t] {
		return false
	}
	if s.t == nil {
		s.t = t
	}
	return s.t == t
}

func (s *qseg) conn(c any) int {
	if isNilIface(c) {
		return 0
	}
	return s.conns[c]
}

func (s *qseg) handle(name string, args []any) {
	s.mu.Lock()
	defer s.mu.Unlock()
	switch name {
	case "qt.start":
		if !s.mine(args[0]) {
			return
		}
		tr.Emit(name, "sc", s.sc, "ex", s.ctxEx[args[1]])
	case "qt.getconn":
		if !s.mine(args[0]) {
			return
		}
		call := 0
		if !isNilIface(args[3]) {
			id, ok := s.calls[args[3]]
			if !ok {
				id = len(s.calls) + 1
				s.calls[args[3]] = id
				s.callT[args[3]] = args[0]
			}
			call = id
		}
		tr.Emit(name, "sc", s.sc, "ex", s.ctxEx[args[1]], "kind", args[2], "call", call, "conn", s.conn(args[4]))
	case "qt.dialed":
		if !s.mine(args[0]) {
			return
		}
		call := s.calls[args[1]]
		if !isNilIface(args[2]) {
			s.conns[args[2]] = call
		}
		tr.Emit(name, "sc", s.sc, "call", call, "ok", args[3], "closed", args[4], "hasconn", !isNilIface(args[2]))
	case "qt.signal":
		if !s.mine(args[0]) {
			return
		}
		tr.Emit(name, "sc", s.sc, "call", s.calls[args[1]])
	case "qt.wait":
		t, ok := s.callT[args[0]]
		if !ok || !s.mine(t) {
			return
		}
		tr.Emit(name, "sc", s.sc, "call", s.calls[args[0]], "ex", s.ctxEx[args[1]], "done", args[2])
	case "qt.try":
		if !s.mine(args[0]) {
			return
		}
		tr.Emit(name, "sc", s.sc, "ex", s.ctxEx[args[1]], "conn", s.conn(args[2]), "fresh", args[3], "ok", args[4], "retry", args[5], "again", args[6], "ctxdone", args[7])
	case "qt.close":
		if !s.mine(args[0]) {
			return
		}
		tr.Emit(name, "sc", s.sc, "conn", s.conn(args[1]))
	}
}

func installQuicSink() {
	verifhook.SetSink(func(name string, args []any) {
		if strings.HasPrefix(name, "qt.") {
			qs.handle(name, args)
		}
	})
}

type qscen struct {
	sc  string
	s   *fsrv
	u   upstream.Upstream
	rng *rand.Rand
	wg  sync.WaitGroup
}

func newQscen(sc, skind string, dialTimeout time.Duration, rng *rand.Rand) *qscen {
	s := newFsrv(skind)
	s.kind = "quic"
	s.closeOnEOF.Store(true)
	qs.begin(sc)
	u, err := upstream.NewUpstream(s.url(), upstream.Opt{TLSConfig: &tls.Config{InsecureSkipVerify: true}, DialTimeout: dialTimeout})
	if err != nil {
		panic(err)
	}
	return &qscen{sc: sc, s: s, u: u, rng: rng}
}

func (q *qscen) one(deadline time.Duration) {
	ctx, cancel := context.WithTimeout(context.Background(), deadline)
	defer cancel()
	qs.mu.Lock()
	qs.nex++
	ex := qs.nex
	qs.ctxEx[ctx] = ex
	qs.mu.Unlock()
	m := new(dns.Msg)
	m.SetQuestion(exName(ex), dns.TypeA)
	m.Id = uint16(q.rng.Intn(65536))
	w, _ := m.Pack()
	dl, _ := ctx.Deadline()
	tr.Emit("qx.begin", "ex", ex, "sc", q.sc, "deadline", tr.MsOf(dl))
	r, err := q.u.ExchangeContext(ctx, w)
	kind, es := "reply", ""
	if err != nil {
		kind, es = "error", err.Error()
	}
	if r != nil {
		releaseMsg(r)
	}
	cls := "other"
	switch {
	case err == nil:
		cls = "ok"
	case strings.Contains(es, "transport has been closed"):
		cls = "closed"
	case strings.Contains(es, "deadline exceeded"):
		cls = "ctx"
	}
	tr.Emit("qx.end", "ex", ex, "sc", q.sc, "kind", kind, "cls", cls, "err", es)
}

func (q *qscen) goOne(deadline time.Duration) {
	q.wg.Add(1)
	go func() { defer q.wg.Done(); q.one(deadline) }()
}

func (q *qscen) close() {
	tr.Emit("qx.close.begin", "sc", q.sc)
	done := make(chan struct{})
	go func() { defer func() { recover(); close(done) }(); q.u.Close() }()
	select {
	case <-done:
		tr.Emit("qx.close.end", "sc", q.sc, "returned", true)
	case <-time.After(3 * time.Second):
		tr.Emit("qx.close.end", "sc", q.sc, "returned", false)
	}
}

func (q *qscen) end() {
	q.wg.Wait()
	q.close()
	time.Sleep(300 * time.Millisecond)
	tr.Emit("qx.census", "sc", q.sc, "srvconns", q.s.openConns())
	q.s.close()
}

func quicScenario(what string, rng *rand.Rand) {
	sc := "quic/" + what
	switch what {
	case "basic":
		q := newQscen(sc, "quic", time.Second, rng)
		for i := 0; i < 3; i++ {
			q.one(time.Second)
		}
		q.end()
	case "join":
		q := newQscen(sc, "quic", time.Second, rng)
		for i := 0; i < 5; i++ {
			q.goOne(2 * time.Second)
		}
		q.wg.Wait()
		q.one(time.Second)
		q.end()
	case "stale":
		q := newQscen(sc, "quic", time.Second, rng)
		q.one(time.Second)
		q.s.fault.Store("closeafter")
		q.one(time.Second)
		q.s.fault.Store("")
		time.Sleep(time.Duration(rng.Intn(150)) * time.Millisecond)
		for i := 0; i < 3; i++ {
			q.goOne(2 * time.Second)
		}
		q.end()
	case "kill":
		q := newQscen(sc, "quic", time.Second, rng)
		q.one(time.Second)
		q.s.fault.Store("noreply")
		for i := 0; i < 5; i++ {
			q.goOne(3 * time.Second)
		}
		time.Sleep(120 * time.Millisecond)
		q.s.fault.Store("")
		q.s.killAll()
		q.end()
	case "garbage":
		q := newQscen(sc, "quic", time.Second, rng)
		q.s.fault.Store("garbage")
		q.one(time.Second)     // fresh connection: reported
		q.one(2 * time.Second) // reused connection: retried, a bounded number of times
		q.s.fault.Store("")
		q.one(time.Second)
		q.end()
	case "timeout":
		q := newQscen(sc, "quic", time.Second, rng)
		q.one(time.Second)
		q.s.fault.Store("noreply")
		q.one(120 * time.Millisecond) // reused connection, the context expires in the stream wait
		q.goOne(150 * time.Millisecond)
		q.goOne(200 * time.Millisecond)
		q.wg.Wait()
		q.s.fault.Store("")
		q.one(time.Second)
		q.end()
	case "dialfail":
		q := newQscen(sc, "udp-blackhole", 300*time.Millisecond, rng)
		for i := 0; i < 3; i++ {
			q.goOne(2 * time.Second)
		}
		q.wg.Wait()
		q.one(2 * time.Second) // a new dial
		q.end()
	case "ctxwait":
		q := newQscen(sc, "udp-blackhole", 500*time.Millisecond, rng)
		q.goOne(100 * time.Millisecond)
		q.goOne(150 * time.Millisecond)
		q.goOne(2 * time.Second)
		q.wg.Wait()
		q.end()
	case "close-idle":
		q := newQscen(sc, "quic", time.Second, rng)
		q.one(time.Second)
		q.close()
		q.one(time.Second)
		q.end()
	case "close-inflight":
		q := newQscen(sc, "quic", time.Second, rng)
		q.one(time.Second)
		q.s.fault.Store("noreply")
		for i := 0; i < 4; i++ {
			q.goOne(3 * time.Second)
		}
		time.Sleep(100 * time.Millisecond)
		q.close()
		q.wg.Wait()
		q.one(time.Second)
		q.end()
	case "close-dialing":
		q := newQscen(sc, "udp-blackhole", 2*time.Second, rng)
		for i := 0; i < 3; i++ {
			q.goOne(3 * time.Second)
		}
		time.Sleep(120 * time.Millisecond)
		q.close()
		q.wg.Wait()
		q.end()
	case "random":
		// a seeded mix: concurrent exchanges, faults switching under them, connection kills, a close at a random moment
		q := newQscen(sc, "quic", 600*time.Millisecond, rng)
		faults := []string{"", "", "", "noreply", "garbage", "closeafter", "fin", "half"}
		stop := make(chan struct{})
		go func() {
			for {
				select {
				case <-stop:
					return
				case <-time.After(time.Duration(5+rng.Intn(40)) * time.Millisecond):
				}
				q.s.fault.Store(faults[rand.Intn(len(faults))])
				if rand.Intn(5) == 0 {
					q.s.killAll()
				}
			}
		}()
		n := 10
		closeAt := rng.Intn(n + 4)
		for i := 0; i < n; i++ {
			if i == closeAt {
				q.wg.Add(1)
				go func() { defer q.wg.Done(); q.close() }()
			}
			q.goOne(time.Duration(40+rng.Intn(700)) * time.Millisecond)
			time.Sleep(time.Duration(rng.Intn(30)) * time.Millisecond)
		}
		q.wg.Wait()
		close(stop)
		q.s.fault.Store("")
		q.end()
	}
}

func modeQuic(rounds int) {
	installQuicSink()
	rng := rand.New(rand.NewSource(seed))
	for _, w := range []string{"basic", "join", "stale", "kill", "garbage", "timeout", "dialfail", "ctxwait", "close-idle", "close-inflight", "close-dialing"} {
		quicScenario(w, rng)
	}
	for i := 0; i < rounds; i++ {
		quicScenario("random", rng)
	}
	tr.Emit("seg", "sc", "end")
}
