//go:build verif

// domdrv replays TLC-generated insertion histories and seeded random entry lists into the
// real domain matcher (through the real file loader) and records add/probe/readable events.
package main

import (
	"bytes"
	"encoding/json"
	"flag"
	"fmt"
	"github.com/IrineSistiana/mosproxy/app/router"
	"math/rand"
	"os"
	"path/filepath"
	"runtime"
	"strings"
	"sync"
	"time"

	"github.com/IrineSistiana/mosproxy/internal/dnsmsg"
	domainmatcher "github.com/IrineSistiana/mosproxy/internal/domain_matcher"
	"github.com/IrineSistiana/mosproxy/internal/pool"
	"github.com/IrineSistiana/mosproxy/internal/zzverif/vtrace"
)

type name [][]byte

func (n name) wire() []byte {
	var b []byte
	for _, l := range n {
		b = append(b, byte(len(l)))
		b = append(b, l...)
	}
	return b
}

func (n name) js() [][]int {
	r := make([][]int, len(n))
	for i, l := range n {
		r[i] = vtrace.Bytes(l)
	}
	return r
}

func namesJS(ns []name) [][][]int {
	r := make([][][]int, len(ns))
	for i, n := range ns {
		r[i] = n.js()
	}
	return r
}

type entry struct {
	kind string // domain | full | regexp
	n    name
}

var rng *rand.Rand
var tr *vtrace.T

func isPrintable(b byte) bool {
	return ('a' <= b && b <= 'z') || ('A' <= b && b <= 'Z') || ('0' <= b && b <= '9') || b == '-'
}

// the text form as the property states it (harness copy; TLC re-checks it against the spec's Readable)
func readable(n name) []byte {
	if len(n) == 0 {
		return []byte(".")
	}
	var b []byte
	for i, l := range n {
		if i > 0 {
			b = append(b, '.')
		}
		for _, c := range l {
			switch {
			case isPrintable(c):
				b = append(b, c)
			case c == '.':
				b = append(b, '\\', '.')
			case c == '\\':
				b = append(b, '\\', '\\')
			default:
				b = append(b, []byte(fmt.Sprintf("\\%03d", c))...)
			}
		}
	}
	return b
}

func quoteRe(t []byte) []byte {
	var b []byte
	for _, c := range t {
		if c == '.' || c == '\\' {
			b = append(b, '\\')
		}
		b = append(b, c)
	}
	return b
}

func randCase(l []byte) []byte {
	r := append([]byte(nil), l...)
	for i, c := range r {
		if 'a' <= c && c <= 'z' && rng.Intn(3) == 0 {
			r[i] = c - 32
		}
	}
	return r
}

// bare form is only safe when no octet can be eaten by the loader's trimming / splitting
func safeBare(n name) bool {
	if len(n) == 0 {
		return false
	}
	for _, l := range n {
		for _, c := range l {
			if !(isPrintable(c) || c == '_') {
				return false
			}
		}
	}
	return true
}

func renderLine(e entry) []byte {
	var b []byte
	if rng.Intn(4) == 0 {
		b = append(b, "  \t"[:rng.Intn(3)]...)
	}
	switch e.kind {
	case "regexp":
		b = append(b, "regexp:^"...)
		b = append(b, quoteRe(readable(e.n))...)
		b = append(b, '$')
		return b
	case "full":
		b = append(b, "full:"...)
	case "domain":
		if !(safeBare(e.n) && rng.Intn(2) == 0) {
			b = append(b, "domain:"...)
		}
	}
	hasPrefix := bytes.Contains(b, []byte(":"))
	for i, l := range e.n {
		if i > 0 {
			b = append(b, '.')
		}
		b = append(b, randCase(l)...)
	}
	if len(e.n) == 0 || !safeBare(e.n) || rng.Intn(3) == 0 {
		b = append(b, '.') // trailing dot (FQDN form); also protects trailing octets from trimming
	}
	_ = hasPrefix
	if rng.Intn(4) == 0 {
		b = append(b, " # comment: full:x.y"...)
	}
	return b
}

var fillers = [][]byte{[]byte(""), []byte("   "), []byte("# a comment"), []byte("\t# domain:zzz.example"), []byte("#")}

// longComment: a comment longer than a 4096-octet read buffer (below the loader's 64 KiB line limit); what
// follows the '#' is a comment to the end of the line, however long the line is
func longComment() []byte {
	n := []int{4090, 4096, 4200, 9000, 60000}[rng.Intn(5)] + rng.Intn(8)
	switch rng.Intn(3) {
	case 0:
		return append(append([]byte("#"), bytes.Repeat([]byte("c"), n)...), []byte("tail.long-comment.example")...)
	case 1:
		return append(append([]byte("# "), bytes.Repeat([]byte("x "), n/2)...), []byte(" glued.example")...)
	default:
		return append(append([]byte("\t# full:"), bytes.Repeat([]byte("a."), n/2)...), []byte("\ttail.long-comment.example")...)
	}
}

type session struct {
	m  *domainmatcher.MixMatcher
	rm interface{ Match([]byte) bool } // a set loaded by the router's own loader (several files)
}

func (s *session) match(w []byte) bool {
	if s.rm != nil {
		return s.rm.Match(w)
	}
	return s.m.Match(w)
}

func newSession() *session {
	tr.Emit("dm.new")
	return &session{m: domainmatcher.NewMixMatcher()}
}

// load feeds the lines as one file through the real loader; one dm.add event per line.
func (s *session) load(es []entry) {
	var file bytes.Buffer
	type ln struct {
		line []byte
		re   name
		isRe bool
	}
	var lines []ln
	for _, e := range es {
		for rng.Intn(5) == 0 {
			lines = append(lines, ln{line: fillers[rng.Intn(len(fillers))]})
		}
		if rng.Intn(12) == 0 {
			if c := longComment(); e.kind != "regexp" && rng.Intn(3) == 0 {
				// the entry itself with a long trailing comment
				lines = append(lines, ln{line: append(append(renderLine(e), []byte("  ")...), c...)})
				continue
			} else {
				lines = append(lines, ln{line: c})
			}
		}
		lines = append(lines, ln{line: renderLine(e), re: e.n, isRe: e.kind == "regexp"})
	}
	for i, l := range lines {
		file.Write(l.line)
		if i < len(lines)-1 || rng.Intn(2) == 0 {
			if rng.Intn(6) == 0 {
				file.WriteString("\r\n")
			} else {
				file.WriteString("\n")
			}
		}
	}
	err := func() (err error) {
		defer func() {
			if r := recover(); r != nil {
				err = fmt.Errorf("panic: %v", r)
			}
		}()
		return domainmatcher.LoadMixMatcherFromReader(s.m, bytes.NewReader(file.Bytes()))
	}()
	for _, l := range lines {
		if l.isRe {
			tr.Emit("dm.add", "line", vtrace.Bytes(l.line), "re", l.re.js(), "isre", true)
		} else {
			tr.Emit("dm.add", "line", vtrace.Bytes(l.line), "isre", false)
		}
	}
	if err != nil {
		tr.Emit("dm.loaderr", "err", err.Error())
	}
}

// loadFiles writes the entries to nf files and loads them through the router's loadDomainSet.
func (s *session) loadFiles(es []entry, nf int) {
	dir, err := os.MkdirTemp("", "domset")
	if err != nil {
		panic(err)
	}
	defer os.RemoveAll(dir)
	per := (len(es) + nf - 1) / nf
	var files []string
	type ln struct {
		line []byte
		re   name
		isRe bool
	}
	var lines []ln
	for f := 0; f < nf; f++ {
		lo, hi := f*per, min(len(es), (f+1)*per)
		if lo >= hi {
			break
		}
		var b bytes.Buffer
		for i, e := range es[lo:hi] {
			l := renderLine(e)
			lines = append(lines, ln{line: l, re: e.n, isRe: e.kind == "regexp"})
			b.Write(l)
			if i < hi-lo-1 || rng.Intn(2) == 0 { // the file's last line often has no newline
				b.WriteString("\n")
			}
		}
		fp := filepath.Join(dir, fmt.Sprintf("set-%d.txt", f))
		os.WriteFile(fp, b.Bytes(), 0o644)
		files = append(files, fp)
	}
	m, err := router.VerifLoadDomainSet(files)
	for _, l := range lines {
		if l.isRe {
			tr.Emit("dm.add", "line", vtrace.Bytes(l.line), "re", l.re.js(), "isre", true)
		} else {
			tr.Emit("dm.add", "line", vtrace.Bytes(l.line), "isre", false)
		}
	}
	if err != nil {
		tr.Emit("dm.loaderr", "err", err.Error())
		s.rm = domainmatcher.NewMixMatcher()
		return
	}
	s.rm = m
}

func (s *session) probe(ns []name) {
	res := make([]bool, len(ns))
	for i, n := range ns {
		res[i] = s.match(n.wire())
	}
	tr.Emit("dm.probe", "names", namesJS(ns), "res", res)
}

// probeConcurrent: the matcher is read-only once loaded, so any number of goroutines may ask it at once and each
// gets the answers a single caller gets. A goroutine whose answers differ from the sequential (validated) ones
// puts them through the trace as a probe of its own.
func (s *session) probeConcurrent(ns []name, workers int, dur time.Duration) {
	want := make([]bool, len(ns))
	for i, n := range ns {
		want[i] = s.match(n.wire())
	}
	s.probeConcurrentWant(ns, want, workers, dur)
}

// probeConcurrentWant: the expected answers come from elsewhere (a twin set that a single caller has probed), so the
// very first look-ups on this set are concurrent ones; the goroutines leave a barrier together.
func (s *session) probeConcurrentWant(ns []name, want []bool, workers int, dur time.Duration) {
	wires := make([][]byte, len(ns))
	for i, n := range ns {
		wires[i] = n.wire()
	}
	var wg sync.WaitGroup
	var mu sync.Mutex
	reported := 0
	var ready sync.WaitGroup
	ready.Add(workers)
	start := make(chan struct{})
	go func() { ready.Wait(); close(start) }()
	for w := 0; w < workers; w++ {
		wg.Add(1)
		go func(w int) {
			defer wg.Done()
			ready.Done()
			<-start
			// a tight loop: nothing but look-ups, each answer checked at once
			bad := -1
			n := 0
			for t0 := time.Now(); bad < 0; n++ {
				i := (w + n) % len(wires)
				if s.match(wires[i]) != want[i] {
					bad = i
				}
				if n&0xfff == 0 && time.Since(t0) > dur {
					break
				}
			}
			if bad >= 0 {
				mu.Lock()
				if reported < 5 {
					reported++
					tr.Emit("dm.probe", "names", namesJS(ns[bad:bad+1]), "res", []bool{!want[bad]}, "concurrent", true)
				}
				mu.Unlock()
			}
		}(w)
	}
	wg.Wait()
}

func emitReadable(n name) {
	b, err := dnsmsg.ToReadable(n.wire())
	if err != nil {
		tr.Emit("dm.readable", "name", n.js(), "text", []int{}, "err", true)
		return
	}
	tr.Emit("dm.readable", "name", n.js(), "text", vtrace.Bytes(b), "err", false)
	pool.ReleaseBuf(b)
}

type stimFile struct {
	Universe [][][]int         `json:"universe"`
	Stims    [][][]interface{} `json:"stims"`
}

func toName(v interface{}) name {
	var n name
	for _, l := range v.([]interface{}) {
		var lb []byte
		for _, c := range l.([]interface{}) {
			lb = append(lb, byte(c.(float64)))
		}
		n = append(n, lb)
	}
	return n
}

func replayStims(path string) int {
	raw, err := os.ReadFile(path)
	if err != nil {
		panic(err)
	}
	var sf stimFile
	if err := json.Unmarshal(raw, &sf); err != nil {
		panic(err)
	}
	var uni []name
	for _, u := range sf.Universe {
		var n name
		for _, l := range u {
			var lb []byte
			for _, c := range l {
				lb = append(lb, byte(c))
			}
			n = append(n, lb)
		}
		uni = append(uni, n)
	}
	// extend the probe universe below every name by one more label
	ext := append([]name(nil), uni...)
	for _, u := range uni {
		if len(u) >= 1 && len(u) <= 2 {
			ext = append(ext, append(name{[]byte("zz")}, u...))
		}
	}
	for _, st := range sf.Stims {
		s := newSession()
		for _, a := range st {
			e := entry{kind: a[0].(string), n: toName(a[1])}
			s.load([]entry{e})
			s.probe(ext)
		}
	}
	return len(sf.Stims)
}

// ---------------------------------------------------------------- random lists

var alphabet = []byte{'a', 'b', 'c', 'x', '0', '-', 0, 0, 1, 0x7f, 0x80, 0xff, '\\', ' ', ':', '_', 'z'}

func randLabel() []byte {
	var n int
	switch rng.Intn(10) {
	case 0:
		n = 23 + rng.Intn(4) // both sides of the 24-octet boundary
	case 1:
		n = 60 + rng.Intn(4)
	default:
		n = 1 + rng.Intn(3)
	}
	l := make([]byte, n)
	for i := range l {
		if rng.Intn(12) == 0 {
			c := byte(rng.Intn(256))
			if c == '.' || c == '#' || c == '\n' || c == '\r' || ('A' <= c && c <= 'Z') {
				c = 'q'
			}
			l[i] = c
		} else {
			l[i] = alphabet[rng.Intn(len(alphabet))]
		}
	}
	return l
}

func wireLen(n name) int {
	t := 0
	for _, l := range n {
		t += 1 + len(l)
	}
	return t
}

func randName(pool []name) name {
	var n name
	if len(pool) > 0 && rng.Intn(3) > 0 {
		b := pool[rng.Intn(len(pool))]
		switch rng.Intn(5) {
		case 0: // child
			n = append(name{randLabel()}, b...)
		case 1: // parent
			if len(b) > 1 {
				n = append(name(nil), b[1:]...)
			} else {
				n = append(name(nil), b...)
			}
		case 2: // duplicate
			n = append(name(nil), b...)
		case 3: // sibling
			n = append(name{randLabel()}, b[min(1, len(b)):]...)
		default: // zero-padding variant of the first label
			if len(b) > 0 {
				l0 := append(append([]byte(nil), b[0]...), 0)
				n = append(name{l0}, b[1:]...)
			}
		}
	} else {
		d := 1 + rng.Intn(3)
		for i := 0; i < d; i++ {
			n = append(n, randLabel())
		}
	}
	for wireLen(n) > 250 || len(n) > 8 {
		n = n[1:]
	}
	for _, l := range n {
		if len(l) > 63 {
			return randName(nil)
		}
	}
	return n
}

func randomLists(lists, entries, probes int) {
	for li := 0; li < lists; li++ {
		s := newSession()
		var es []entry
		var names []name
		ne := entries/2 + rng.Intn(entries)
		for i := 0; i < ne; i++ {
			n := randName(names)
			if rng.Intn(60) == 0 {
				n = name{} // the root
			}
			names = append(names, n)
			k := "domain"
			switch rng.Intn(8) {
			case 0:
				k = "full"
			case 1:
				k = "regexp"
			}
			es = append(es, entry{kind: k, n: n})
		}
		// probe set: entries, relatives, strangers
		var ps []name
		for i := 0; i < probes; i++ {
			ps = append(ps, randName(names))
		}
		// names as long as a name can be, made of octets that need escaping in the text form (the regexp
		// entries are matched against the text form)
		for _, fill := range []byte{0x01, 0xfe, '.', '\\'} {
			var ln name
			for _, l := range []int{63, 63, 63, 59 - rng.Intn(6)} {
				ln = append(ln, bytes.Repeat([]byte{fill}, l))
			}
			ps = append(ps, ln)
		}
		for _, t := range []string{"tail.long-comment.example", "glued.example"} {
			var n name
			for _, l := range strings.Split(t, ".") {
				n = append(n, []byte(l))
			}
			ps = append(ps, n)
		}
		nfiles := 1 + rng.Intn(3)
		per := (len(es) + nfiles - 1) / nfiles
		for f := 0; f < nfiles; f++ {
			lo, hi := f*per, min(len(es), (f+1)*per)
			if lo >= hi {
				break
			}
			s.load(es[lo:hi])
			s.probe(ps)
		}
		// a balanced probe set of deep names for the concurrent phase: sub-domains of entries (match) and the
		// same names under a top label no entry has (no match)
		var cps []name
		for i := 0; i < len(es) && len(cps) < 60; i++ {
			if es[i].kind != "domain" || len(es[i].n) == 0 || wireLen(es[i].n) > 120 {
				continue
			}
			var deep name
			for k := 0; k < 8+rng.Intn(8); k++ {
				deep = append(deep, []byte{byte('a' + rng.Intn(26)), byte('0' + k%10)})
			}
			cps = append(cps, append(append(name{}, deep...), es[i].n...))
			cps = append(cps, append(append(append(name{}, deep...), es[i].n...), []byte("no-such-top-label")))
		}
		// the same entries once more as the files of one domain set of the router's configuration, loaded by the
		// router's own loader: the files end with or without a final newline
		if li%3 == 1 {
			s3 := newSession()
			s3.loadFiles(es, 2+rng.Intn(2))
			s3.probe(ps)
		}
		if li%2 == 0 {
			// on a set without regexp entries (their evaluation dwarfs the walk of the label tree and goes through
			// the instrumented buffer pool): loaded and probed sequentially first, so the trace vouches for `want`
			// first on the full set, regular expressions included: concurrent look-ups (names that match a regexp
			// entry among them), then the same probe once more by a single caller - look-ups do not change what
			// the set matches. (Before the second session: the trace knows one current session.)
			s.probeConcurrent(ps, 16, 150*time.Millisecond)
			s.probe(ps)
			var plain []entry
			for _, e := range es {
				if e.kind != "regexp" {
					plain = append(plain, e)
				}
			}
			s2 := newSession()
			s2.load(plain)
			s2.probe(cps)
			s2.probeConcurrent(cps, 4*runtime.GOMAXPROCS(0), 400*time.Millisecond)
		}
		// a twin of the full set whose first look-ups are concurrent: what they answer is what the single caller
		// got from the first set (the trace has vouched for those answers)
		{
			want := make([]bool, len(ps))
			for i, n := range ps {
				want[i] = s.match(n.wire())
			}
			s4 := newSession()
			s4.load(es)
			s4.probeConcurrentWant(ps, want, 4*runtime.GOMAXPROCS(0), 20*time.Millisecond)
			s4.probe(ps)
		}
		for i := 0; i < 20 && i < len(ps); i++ {
			emitReadable(ps[i])
		}
	}
}

func main() {
	out := flag.String("out", "trace.ndjson", "")
	stim := flag.String("stim", "", "TLC-generated stimuli (json)")
	lists := flag.Int("lists", 0, "number of random lists")
	entries := flag.Int("entries", 60, "")
	probes := flag.Int("probes", 120, "")
	flag.Parse()
	rng = rand.New(rand.NewSource(vtrace.Seed()))
	tr = vtrace.Open(*out)
	defer tr.Close()
	n := 0
	if *stim != "" {
		n = replayStims(*stim)
	}
	if *lists > 0 {
		randomLists(*lists, *entries, *probes)
	}
	fmt.Printf("stims=%d lists=%d events=%d\n", n, *lists, tr.N)
}
