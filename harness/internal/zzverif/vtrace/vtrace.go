//go:build verif

// Package vtrace is the ndjson trace sink shared by the verification drivers.
// It lives in /verif/harness and is overlaid into the mosproxy module at build time.
package vtrace

import (
	"bufio"
	"encoding/json"
	"fmt"
	"os"
	"strconv"
	"sync"
	"time"
)

type T struct {
	mu   sync.Mutex
	f    *os.File
	w    *bufio.Writer
	seq  int
	t0   time.Time
	ids  map[string]map[any]int
	N    int
	Mute bool

	lastFlush time.Time
}

func Open(path string) *T {
	f, err := os.Create(path)
	if err != nil {
		panic(err)
	}
	return &T{f: f, w: bufio.NewWriterSize(f, 1<<20), t0: time.Now(), ids: map[string]map[any]int{}}
}

// Ms returns milliseconds since the trace was opened.
func (t *T) Ms() int { return int(time.Since(t.t0) / time.Millisecond) }

func (t *T) MsOf(x time.Time) int { return int(x.Sub(t.t0) / time.Millisecond) }

// ID returns a dense integer (1..) for obj within the namespace kind.
func (t *T) ID(kind string, obj any) int {
	t.mu.Lock()
	defer t.mu.Unlock()
	return t.idLocked(kind, obj)
}

func (t *T) idLocked(kind string, obj any) int {
	m := t.ids[kind]
	if m == nil {
		m = map[any]int{}
		t.ids[kind] = m
	}
	id, ok := m[obj]
	if !ok {
		id = len(m) + 1
		m[obj] = id
	}
	return id
}

// Emit appends one event. kv is a list of key, value pairs. The sequence number and
// the time stamp are assigned under the sink's mutex, so the file order is the order
// in which Emit calls were serialised.
func (t *T) Emit(ev string, kv ...any) {
	t.mu.Lock()
	defer t.mu.Unlock()
	t.emitLocked(ev, kv)
}

// EmitWith runs f under the sink mutex to compute fields (used for object ids).
func (t *T) EmitWith(ev string, f func(id func(kind string, obj any) int) []any) {
	t.mu.Lock()
	defer t.mu.Unlock()
	t.emitLocked(ev, f(t.idLocked))
}

func (t *T) emitLocked(ev string, kv []any) {
	if t.Mute {
		return
	}
	t.seq++
	t.N++
	m := make(map[string]any, len(kv)/2+3)
	m["ev"] = ev
	m["seq"] = t.seq
	m["t"] = int(time.Since(t.t0) / time.Millisecond)
	for i := 0; i+1 < len(kv); i += 2 {
		m[kv[i].(string)] = kv[i+1]
	}
	b, err := json.Marshal(m)
	if err != nil {
		panic(fmt.Sprintf("vtrace: %v in %v", err, m))
	}
	t.w.Write(b)
	t.w.WriteByte('\n')
	if t.seq%64 == 0 || time.Since(t.lastFlush) > 20*time.Millisecond {
		// keep the file close to the execution: a crash of the code under test must not lose the trace
		t.w.Flush()
		t.lastFlush = time.Now()
	}
}

func (t *T) Flush() {
	t.mu.Lock()
	defer t.mu.Unlock()
	t.w.Flush()
}

func (t *T) Close() {
	t.mu.Lock()
	defer t.mu.Unlock()
	t.w.Flush()
	t.f.Close()
}

// Bytes renders b as a JSON array of ints (TLC reads it as a tuple of naturals).
func Bytes(b []byte) []int {
	r := make([]int, len(b))
	for i, c := range b {
		r[i] = int(c)
	}
	return r
}

// U32 splits a 32-bit value into [hi16, lo16] (TLC integers are 32-bit signed).
func U32(v uint32) []int { return []int{int(v >> 16), int(v & 0xffff)} }

func Seed() int64 {
	s, err := strconv.ParseInt(os.Getenv("VERIF_SEED"), 10, 64)
	if err != nil {
		return 1
	}
	return s
}

// OpenNull returns a sink that discards everything.
func OpenNull() *T {
	f, _ := os.OpenFile(os.DevNull, os.O_WRONLY, 0)
	return &T{f: f, w: bufio.NewWriterSize(f, 1<<16), t0: time.Now(), ids: map[string]map[any]int{}, Mute: true}
}

// ---------------------------------------------------------------- ownership events (C20)

// Own turns the pool / object hook events into the ownership trace. Normal get/release events are
// written for a sample of objects only (1 in Every); anomalies are always written.
type Own struct {
	T     *T
	Every int
	mu    sync.Mutex
	ids   map[any]int
	held  map[any]bool
}

func NewOwn(path string, every int) *Own {
	return &Own{T: Open(path), Every: every, ids: map[any]int{}, held: map[any]bool{}}
}

// Handle consumes buf.* and obj.* hook events; it returns false for other events.
func (o *Own) Handle(name string, args []any) bool {
	switch name {
	case "buf.get":
		id := args[0].(int)
		if washeld := args[2].(bool); washeld || id%o.Every == 0 {
			o.T.Emit("own.get", "kind", "buf", "id", id, "washeld", washeld, "sampled", id%o.Every == 0)
		}
	case "buf.release":
		id, held := args[0].(int), args[1].(bool)
		if !held || id%o.Every == 0 {
			o.T.Emit("own.release", "kind", "buf", "id", id, "held", held, "sampled", held && id%o.Every == 0)
		}
	case "buf.quarantine":
		id, intact := args[0].(int), args[1].(bool)
		if !intact || id%o.Every == 0 {
			o.T.Emit("own.qexit", "id", id, "intact", intact)
		}
	case "obj.get", "obj.release":
		kind := args[0].(string)
		o.mu.Lock()
		id, ok := o.ids[args[1]]
		if !ok {
			id = len(o.ids) + 1
			o.ids[args[1]] = id
		}
		was := o.held[args[1]]
		o.held[args[1]] = name == "obj.get"
		o.mu.Unlock()
		sampled := id%o.Every == 0
		if name == "obj.get" {
			if was || sampled {
				o.T.Emit("own.get", "kind", kind, "id", id, "washeld", was, "sampled", sampled)
			}
		} else if !was || sampled {
			o.T.Emit("own.release", "kind", kind, "id", id, "held", was, "sampled", was && sampled)
		}
	default:
		return false
	}
	return true
}

// PoisonRun reports whether b contains a run of at least n poison octets (0xDB): bytes of a released buffer.
func PoisonRun(b []byte, n int) bool {
	run := 0
	for _, c := range b {
		if c == 0xDB {
			run++
			if run >= n {
				return true
			}
		} else {
			run = 0
		}
	}
	return false
}
