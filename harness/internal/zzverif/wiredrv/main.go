//go:build verif

// wiredrv exercises the real wire codec (internal/dnsmsg) and records each call:
//
//	unpack  {in, ok, msg}                 dnsmsg.UnpackMsg on arbitrary bytes
//	pack    {msg, compress, size, wire}   Msg.Pack on a message built from an abstract description
//
// A panic or a stall of the code under test is recorded as crash / hang.
package main

import (
	"bytes"
	"encoding/binary"
	"encoding/json"
	"flag"
	"fmt"
	"math/rand"
	"net"
	"os"
	"runtime"
	"strings"
	"sync"
	"sync/atomic"
	"time"

	"github.com/IrineSistiana/mosproxy/internal/dnsmsg"
	"github.com/IrineSistiana/mosproxy/internal/dnsutils"
	"github.com/IrineSistiana/mosproxy/internal/pool"
	"github.com/IrineSistiana/mosproxy/internal/verifhook"
	"github.com/IrineSistiana/mosproxy/internal/zzverif/vtrace"
	"github.com/miekg/dns"
)

var tr *vtrace.T
var rng *rand.Rand
var hangs int

// ---------------------------------------------------------------- abstract <-> real

func nameAbs(n []byte) [][]int {
	r := [][]int{}
	sc := dnsmsg.NewNameScanner(n)
	for sc.Scan() {
		r = append(r, vtrace.Bytes(sc.Label()))
	}
	return r
}

func bpart(b []byte) []any { return []any{"b", vtrace.Bytes(b)} }
func npart(n []byte) []any { return []any{"n", nameAbs(n)} }
func u16(v uint16) []byte  { return []byte{byte(v >> 8), byte(v)} }
func u32(v uint32) []byte  { var b [4]byte; binary.BigEndian.PutUint32(b[:], v); return b[:] }

func rrAbs(r dnsmsg.Resource) map[string]any {
	h := r.Hdr()
	var rd []any
	switch x := r.(type) {
	case *dnsmsg.A:
		rd = []any{bpart(x.A[:])}
	case *dnsmsg.AAAA:
		rd = []any{bpart(x.AAAA[:])}
	case *dnsmsg.NAMEResource:
		rd = []any{npart(x.NameData)}
	case *dnsmsg.MX:
		rd = []any{bpart(u16(x.Pref)), npart(x.MX)}
	case *dnsmsg.SOA:
		var t []byte
		for _, v := range []uint32{x.Serial, x.Refresh, x.Retry, x.Expire, x.MinTTL} {
			t = append(t, u32(v)...)
		}
		rd = []any{npart(x.NS), npart(x.MBox), bpart(t)}
	case *dnsmsg.SRV:
		t := append(append(u16(x.Priority), u16(x.Weight)...), u16(x.Port)...)
		rd = []any{bpart(t), npart(x.Target)}
	case *dnsmsg.RawResource:
		rd = []any{bpart(x.Data)}
	}
	return map[string]any{"name": nameAbs(h.Name), "typ": int(h.Type), "cls": int(h.Class), "ttl": vtrace.U32(h.TTL), "rd": rd}
}

func msgAbs(m *dnsmsg.Msg) map[string]any {
	id, bits := m.Header.Pack()
	qd := []any{}
	for _, q := range m.Questions {
		qd = append(qd, map[string]any{"name": nameAbs(q.Name), "typ": int(q.Type), "cls": int(q.Class)})
	}
	sec := func(rs []dnsmsg.Resource) []any {
		o := []any{}
		for _, r := range rs {
			o = append(o, rrAbs(r))
		}
		return o
	}
	return map[string]any{"id": int(id), "bits": int(bits), "qd": qd, "an": sec(m.Answers), "ns": sec(m.Authorities), "ar": sec(m.Additionals)}
}

type absRR struct {
	Name [][]int           `json:"name"`
	Typ  int               `json:"typ"`
	Cls  int               `json:"cls"`
	TTL  []int             `json:"ttl"`
	Rd   []json.RawMessage `json:"rd"`
}
type absQ struct {
	Name [][]int `json:"name"`
	Typ  int     `json:"typ"`
	Cls  int     `json:"cls"`
}
type absMsg struct {
	ID   int     `json:"id"`
	Bits int     `json:"bits"`
	Qd   []absQ  `json:"qd"`
	An   []absRR `json:"an"`
	Ns   []absRR `json:"ns"`
	Ar   []absRR `json:"ar"`
}

func mkName(ls [][]int) dnsmsg.Name {
	n := 0
	for _, l := range ls {
		n += 1 + len(l)
	}
	b := pool.GetBuf(n)
	o := 0
	for _, l := range ls {
		b[o] = byte(len(l))
		o++
		for _, c := range l {
			b[o] = byte(c)
			o++
		}
	}
	return dnsmsg.Name(b)
}

func partBytes(p json.RawMessage) ([]byte, [][]int, bool) {
	var raw []json.RawMessage
	json.Unmarshal(p, &raw)
	var kind string
	json.Unmarshal(raw[0], &kind)
	if kind == "b" {
		var bs []int
		json.Unmarshal(raw[1], &bs)
		b := make([]byte, len(bs))
		for i, c := range bs {
			b[i] = byte(c)
		}
		return b, nil, false
	}
	var n [][]int
	json.Unmarshal(raw[1], &n)
	return nil, n, true
}

func mkRR(a absRR) dnsmsg.Resource {
	hdr := dnsmsg.ResourceHdr{Name: mkName(a.Name), Type: dnsmsg.Type(a.Typ), Class: dnsmsg.Class(a.Cls), TTL: uint32(a.TTL[0])<<16 | uint32(a.TTL[1])}
	get := func(i int) ([]byte, [][]int) { b, n, _ := partBytes(a.Rd[i]); return b, n }
	switch dnsmsg.Type(a.Typ) {
	case dnsmsg.TypeA:
		r := dnsmsg.NewA()
		r.ResourceHdr = hdr
		b, _ := get(0)
		copy(r.A[:], b)
		return r
	case dnsmsg.TypeAAAA:
		r := dnsmsg.NewAAAA()
		r.ResourceHdr = hdr
		b, _ := get(0)
		copy(r.AAAA[:], b)
		return r
	case dnsmsg.TypeNS, dnsmsg.TypeCNAME, dnsmsg.TypePTR:
		r := dnsmsg.NewNAME()
		r.ResourceHdr = hdr
		_, n := get(0)
		r.NameData = mkName(n)
		return r
	case dnsmsg.TypeMX:
		r := dnsmsg.NewMX()
		r.ResourceHdr = hdr
		b, _ := get(0)
		r.Pref = binary.BigEndian.Uint16(b)
		_, n := get(1)
		r.MX = mkName(n)
		return r
	case dnsmsg.TypeSOA:
		r := dnsmsg.NewSOA()
		r.ResourceHdr = hdr
		_, n1 := get(0)
		_, n2 := get(1)
		b, _ := get(2)
		r.NS, r.MBox = mkName(n1), mkName(n2)
		r.Serial, r.Refresh, r.Retry = binary.BigEndian.Uint32(b), binary.BigEndian.Uint32(b[4:]), binary.BigEndian.Uint32(b[8:])
		r.Expire, r.MinTTL = binary.BigEndian.Uint32(b[12:]), binary.BigEndian.Uint32(b[16:])
		return r
	case dnsmsg.TypeSRV:
		r := dnsmsg.NewSRV()
		r.ResourceHdr = hdr
		b, _ := get(0)
		r.Priority, r.Weight, r.Port = binary.BigEndian.Uint16(b), binary.BigEndian.Uint16(b[2:]), binary.BigEndian.Uint16(b[4:])
		_, n := get(1)
		r.Target = mkName(n)
		return r
	}
	r := dnsmsg.NewRaw()
	r.ResourceHdr = hdr
	b, _ := get(0)
	r.Data = pool.CopyBuf(b)
	return r
}

func mkMsg(a absMsg) *dnsmsg.Msg {
	m := dnsmsg.NewMsg()
	h := a.Bits
	m.Header = dnsmsg.Header{ID: uint16(a.ID), Response: h&0x8000 != 0, OpCode: dnsmsg.OpCode(h>>11) & 0xF, Authoritative: h&0x400 != 0,
		Truncated: h&0x200 != 0, RecursionDesired: h&0x100 != 0, RecursionAvailable: h&0x80 != 0, AuthenticData: h&0x20 != 0,
		CheckingDisabled: h&0x10 != 0, RCode: dnsmsg.RCode(h & 0xF)}
	for _, q := range a.Qd {
		qq := dnsmsg.NewQuestion()
		qq.Name, qq.Type, qq.Class = mkName(q.Name), dnsmsg.Type(q.Typ), dnsmsg.Class(q.Cls)
		m.Questions = append(m.Questions, qq)
	}
	for _, r := range a.An {
		m.Answers = append(m.Answers, mkRR(r))
	}
	for _, r := range a.Ns {
		m.Authorities = append(m.Authorities, mkRR(r))
	}
	for _, r := range a.Ar {
		m.Additionals = append(m.Additionals, mkRR(r))
	}
	return m
}

// ---------------------------------------------------------------- supervised calls

func supervised(what string, in []byte, f func()) bool {
	done := make(chan any, 1)
	go func() {
		defer func() { done <- recover() }()
		f()
	}()
	select {
	case p := <-done:
		if p != nil {
			tr.Emit("crash", "what", what, "in", vtrace.Bytes(in), "panic", fmt.Sprint(p))
			return false
		}
		return true
	case <-time.After(3 * time.Second):
		tr.Emit("hang", "what", what, "in", vtrace.Bytes(in))
		hangs++
		if hangs >= 3 {
			// the stalled goroutines keep spinning: stop here, the trace already carries the verdict
			tr.Close()
			fmt.Println("aborting after 3 hangs")
			os.Exit(0)
		}
		return false
	}
}

func doUnpack(in []byte) *dnsmsg.Msg {
	var m *dnsmsg.Msg
	var err error
	if !supervised("unpack", in, func() { m, err = dnsmsg.UnpackMsg(in) }) {
		return nil
	}
	if err != nil {
		tr.Emit("unpack", "in", vtrace.Bytes(in), "ok", false)
		return nil
	}
	tr.Emit("unpack", "in", vtrace.Bytes(in), "ok", true, "msg", msgAbs(m))
	return m
}

// doUnpackVia decodes `in` through the transports' readers (one datagram / one length-prefixed frame). What
// comes back must be what the decoder makes of exactly these octets - nothing that was left in a buffer.
func doUnpackVia(in []byte, tcp bool) {
	var m *dnsmsg.Msg
	var err error
	ok := supervised("unpack", in, func() {
		if tcp {
			f := make([]byte, 2+len(in))
			binary.BigEndian.PutUint16(f, uint16(len(in)))
			copy(f[2:], in)
			m, _, err = dnsutils.ReadMsgFromTCP(bytes.NewReader(f))
		} else {
			m, _, err = dnsutils.ReadMsgFromUDP(bytes.NewReader(in), 4096)
		}
	})
	if !ok {
		return
	}
	if err != nil {
		tr.Emit("unpack", "in", vtrace.Bytes(in), "ok", false)
		return
	}
	tr.Emit("unpack", "in", vtrace.Bytes(in), "ok", true, "msg", msgAbs(m))
	dnsmsg.ReleaseMsg(m)
}

// doPack packs m (compress, size limit) and records the abstract message as it was BEFORE packing.
func doPack(m *dnsmsg.Msg, compress bool, size int) []byte {
	abs := msgAbs(m)
	l := m.Len()
	buf := make([]byte, l+64)
	for i := range buf {
		buf[i] = 0xEE
	}
	var n int
	var err error
	if !supervised("pack", nil, func() { n, err = m.Pack(buf[:l], compress, size) }) {
		return nil
	}
	if err != nil {
		tr.Emit("pack", "msg", abs, "compress", compress, "size", size, "ok", false, "wire", []int{}, "len", l, "err", err.Error())
		return nil
	}
	tr.Emit("pack", "msg", abs, "compress", compress, "size", size, "ok", true, "wire", vtrace.Bytes(buf[:n]), "len", l, "err", "")
	return buf[:n]
}

// ---------------------------------------------------------------- generators

func randLabel() string {
	n := 1 + rng.Intn(6)
	if rng.Intn(12) == 0 {
		n = 60 + rng.Intn(4)
	}
	b := make([]byte, n)
	alpha := []byte("abAB01-\x00\x01\x03\xc0. \\\xff")
	for i := range b {
		b[i] = alpha[rng.Intn(len(alpha))]
	}
	return string(b)
}

var namePool [][]string

func randNameLabels() []string {
	if len(namePool) > 0 && rng.Intn(2) == 0 {
		base := namePool[rng.Intn(len(namePool))]
		switch rng.Intn(3) {
		case 0:
			return base
		case 1:
			return append([]string{randLabel()}, base...)
		default:
			if len(base) > 1 {
				return base[1:]
			}
		}
	}
	k := rng.Intn(5)
	var ls []string
	for i := 0; i < k; i++ {
		ls = append(ls, randLabel())
	}
	tot := 1
	for _, l := range ls {
		tot += 1 + len(l)
	}
	for tot > 250 {
		tot -= 1 + len(ls[0])
		ls = ls[1:]
	}
	namePool = append(namePool, ls)
	return ls
}

func wireName(ls []string) []byte {
	var b []byte
	for _, l := range ls {
		b = append(b, byte(len(l)))
		b = append(b, l...)
	}
	return append(b, 0)
}

// an independent encoder that places compression pointers anywhere legal (also inside RDATA)
type enc struct {
	b    []byte
	offs map[string]int
}

func (e *enc) name(ls []string, allowPtr bool) {
	for i := range ls {
		key := string(wireName(ls[i:]))
		if off, ok := e.offs[key]; ok && allowPtr && rng.Intn(4) > 0 {
			e.b = append(e.b, 0xC0|byte(off>>8), byte(off))
			return
		}
		if len(e.b) < 0x3fff {
			e.offs[key] = len(e.b)
		}
		e.b = append(e.b, byte(len(ls[i])))
		e.b = append(e.b, ls[i]...)
	}
	e.b = append(e.b, 0)
}

func (e *enc) u16(v int)    { e.b = append(e.b, byte(v>>8), byte(v)) }
func (e *enc) u32(v uint32) { e.b = append(e.b, u32(v)...) }

func randWire(maxRR int) []byte {
	e := &enc{offs: map[string]int{}}
	nq := rng.Intn(3)
	counts := [3]int{rng.Intn(maxRR + 1), rng.Intn(maxRR/2 + 1), rng.Intn(maxRR/2 + 1)}
	e.u16(rng.Intn(65536))
	e.u16(rng.Intn(65536))
	e.u16(nq)
	e.u16(counts[0])
	e.u16(counts[1])
	e.u16(counts[2])
	for i := 0; i < nq; i++ {
		e.name(randNameLabels(), true)
		e.u16([]int{1, 28, 255, 65280}[rng.Intn(4)])
		e.u16([]int{1, 3, 255}[rng.Intn(3)])
	}
	for s := 0; s < 3; s++ {
		for i := 0; i < counts[s]; i++ {
			e.name(randNameLabels(), true)
			typ := []int{1, 28, 2, 5, 12, 15, 6, 33, 41, 16, 65280, 99}[rng.Intn(12)]
			e.u16(typ)
			e.u16([]int{1, 1, 1, 4096, 255}[rng.Intn(5)])
			e.u32([]uint32{0, 1, 60, 300, 0x7fffffff, 0xffffffff}[rng.Intn(6)])
			lenAt := len(e.b)
			e.u16(0)
			st := len(e.b)
			switch typ {
			case 1:
				e.b = append(e.b, 10, 0, byte(rng.Intn(256)), 1)
			case 28:
				e.b = append(e.b, net.ParseIP("2001:db8::1").To16()...)
			case 2, 5, 12:
				e.name(randNameLabels(), true)
			case 15:
				e.u16(rng.Intn(100))
				e.name(randNameLabels(), true)
			case 6:
				e.name(randNameLabels(), true)
				e.name(randNameLabels(), true)
				for k := 0; k < 5; k++ {
					e.u32(rng.Uint32())
				}
			case 33:
				e.u16(1)
				e.u16(2)
				e.u16(53)
				e.name(randNameLabels(), rng.Intn(2) == 0)
			default:
				k := rng.Intn(40)
				if rng.Intn(8) == 0 {
					k = 0
				}
				for j := 0; j < k; j++ {
					e.b = append(e.b, byte(rng.Intn(256)))
				}
			}
			binary.BigEndian.PutUint16(e.b[lenAt:], uint16(len(e.b)-st))
		}
	}
	return e.b
}

func mutate(w []byte) []byte {
	m := append([]byte(nil), w...)
	if len(m) == 0 {
		return m
	}
	switch rng.Intn(9) {
	case 0: // truncate
		return m[:rng.Intn(len(m))]
	case 1: // flip a byte
		m[rng.Intn(len(m))] = byte(rng.Intn(256))
	case 2: // pointer to itself / forward / into header
		if len(m) > 14 {
			i := 12 + rng.Intn(len(m)-13)
			t := []int{i, i + 2, rng.Intn(12), len(m) - 1, len(m) + 5, 0x3fff}[rng.Intn(6)]
			m[i], m[i+1] = 0xC0|byte(t>>8), byte(t)
		}
	case 3: // counts lie
		if len(m) >= 12 {
			binary.BigEndian.PutUint16(m[4+2*rng.Intn(4):], uint16(rng.Intn(5)))
		}
	case 4: // reserved label prefix
		if len(m) > 13 {
			m[12+rng.Intn(len(m)-12)] = []byte{0x40, 0x80, 0x7f, 0xbf}[rng.Intn(4)]
		}
	case 5: // grow
		for i := 0; i < 1+rng.Intn(8); i++ {
			m = append(m, byte(rng.Intn(256)))
		}
	case 6: // rdlength off by one (find a plausible spot: any two bytes)
		if len(m) > 14 {
			i := 12 + rng.Intn(len(m)-13)
			v := binary.BigEndian.Uint16(m[i:])
			binary.BigEndian.PutUint16(m[i:], v+uint16(rng.Intn(3))-1)
		}
	case 7: // chain of pointers
		if len(m) > 40 {
			o := 12
			for k := 0; k < 9+rng.Intn(4) && o+2*k+3 < len(m); k++ {
				t := o + 2*k + 2
				m[o+2*k], m[o+2*k+1] = 0xC0|byte(t>>8), byte(t)
			}
		}
	case 8: // header only / tiny
		return m[:min(len(m), rng.Intn(14))]
	}
	return m
}

// messages larger than 16 KiB whose late names (first written beyond offset 0x3fff) are used again
func bigWire() []byte {
	e := &enc{offs: map[string]int{}}
	pad := 66 + rng.Intn(40)
	late := 2 + rng.Intn(4)
	e.u16(rng.Intn(65536))
	e.u16(0x8180)
	e.u16(1)
	e.u16(pad + late*3)
	e.u16(0)
	e.u16(0)
	e.name([]string{"big", "test"}, false)
	e.u16(255)
	e.u16(1)
	for i := 0; i < pad; i++ {
		e.name([]string{"big", "test"}, true)
		e.u16(65280 + i%3)
		e.u16(1)
		e.u32(300)
		l := 230 + rng.Intn(40)
		e.u16(l)
		for j := 0; j < l; j++ {
			e.b = append(e.b, byte(i))
		}
	}
	for k := 0; k < late; k++ {
		nm := []string{fmt.Sprintf("late%d", k), randLabel(), "zone"}
		for r := 0; r < 3; r++ {
			e.name(nm, false) // uncompressed in the input: the real encoder decides itself
			if r == 1 {
				e.u16(5)
				e.u16(1)
				e.u32(60)
				at := len(e.b)
				e.u16(0)
				st := len(e.b)
				e.name(nm, false)
				binary.BigEndian.PutUint16(e.b[at:], uint16(len(e.b)-st))
			} else {
				e.u16(1)
				e.u16(1)
				e.u32(60)
				e.u16(4)
				e.b = append(e.b, 10, 1, byte(k), byte(r))
			}
		}
	}
	return e.b
}

// chainWire: an uncompressed message whose d answer records have owner names that each extend the previous one by a
// label (c.b.a under b.a under a): a compressing encoder writes each as one label and a pointer to the previous name,
// so reading the last name means following d-1 pointers (+1 to the question)
func chainWire(d int) []byte {
	e := &enc{offs: map[string]int{}}
	e.u16(rng.Intn(65536))
	e.u16(0x8180)
	e.u16(1)
	e.u16(d)
	e.u16(0)
	e.u16(0)
	nm := []string{"chain", "test"}
	e.name(nm, false)
	e.u16(1)
	e.u16(1)
	for i := 0; i < d; i++ {
		nm = append([]string{fmt.Sprintf("l%d", i)}, nm...)
		e.name(nm, false)
		e.u16(1)
		e.u16(1)
		e.u32(60)
		e.u16(4)
		e.b = append(e.b, 10, 3, 0, byte(i))
	}
	return e.b
}

// ptrChainWire: a question whose name is k pointers in a row, each to the next, then a label: around the decoder's
// bound on followed pointers
func ptrChainWire(k int) []byte {
	b := []byte{0, byte(k), 0x01, 0x00, 0, 1, 0, 0, 0, 0, 0, 0}
	for i := 0; i < k; i++ {
		t := 12 + 2*(i+1)
		b = append(b, 0xC0|byte(t>>8), byte(t))
	}
	return append(b, 1, 'a', 0, 0, 1, 0, 1)
}

// hugeWire: an accepted message (below 64 KiB) whose re-encoding - with the encoder's own compression - is larger than
// 64 KiB: the owner names of its late records are pointers into the RDATA of an uninterpreted record, which no
// encoder reproduces; each of them is written out in full when the message is packed again. The last name is used by
// three records and is first written beyond offset 65535.
func hugeWire() []byte {
	e := &enc{offs: map[string]int{}}
	const K = 64
	e.u16(rng.Intn(65536))
	e.u16(0x8180)
	e.u16(1)
	cntAt := len(e.b)
	e.u16(0)
	e.u16(0)
	e.u16(0)
	e.name([]string{"big", "test"}, false)
	e.u16(255)
	e.u16(1)
	n := 0
	// record 0: uninterpreted type, its RDATA is K+1 names back to back
	e.b = append(e.b, 0xC0, 12)
	e.u16(65281)
	e.u16(1)
	e.u32(300)
	at := len(e.b)
	e.u16(0)
	st := len(e.b)
	nameAt := make([]int, K+1)
	for k := 0; k <= K; k++ {
		nameAt[k] = len(e.b)
		lab := fmt.Sprintf("n%02d-%s", k, strings.Repeat(string(rune('a'+k%26)), 50+rng.Intn(8)))
		e.b = append(e.b, byte(len(lab)))
		e.b = append(e.b, lab...)
		e.b = append(e.b, 4, 'z', 'o', 'n', 'e', 0)
	}
	binary.BigEndian.PutUint16(e.b[at:], uint16(len(e.b)-st))
	n++
	grow := 0 // what the re-encoding is longer by: every late name in full (its "zone" suffix compressed after the first)
	for k := 0; k < K; k++ {
		grow += int(e.b[nameAt[k]]) + 1 + 2 - 2
	}
	grow += 4
	// padding until the first of the last three records lands beyond offset 65535 in the re-encoding
	for len(e.b)+K*16+grow < 65536+40 {
		l := 200 + rng.Intn(50)
		if rest := 65536 + 40 - (len(e.b) + K*16 + grow) - 12; rest < l+13 {
			l = max(rest, 1)
		}
		e.b = append(e.b, 0xC0, 12)
		e.u16(65280 + n%3)
		e.u16(1)
		e.u32(300)
		e.u16(l)
		for j := 0; j < l; j++ {
			e.b = append(e.b, byte(n))
		}
		n++
	}
	a := func(k, r int) {
		e.b = append(e.b, 0xC0|byte(nameAt[k]>>8), byte(nameAt[k]))
		e.u16(1)
		e.u16(1)
		e.u32(60)
		e.u16(4)
		e.b = append(e.b, 10, 2, byte(k), byte(r))
		n++
	}
	for k := 0; k < K; k++ {
		a(k, 0)
	}
	for r := 0; r < 3; r++ {
		a(K, r)
	}
	binary.BigEndian.PutUint16(e.b[cntAt:], uint16(n))
	if len(e.b) > 65535 || nameAt[K] > 0x3fff {
		panic(fmt.Sprintf("hugeWire: layout (%d octets)", len(e.b)))
	}
	return e.b
}

// a name that starts at or just below offset 0x3fff in the compressed encoding and runs past it, whose
// suffixes are used again later: only the labels that begin at an offset <= 0x3fff may be pointed at
func straddleWire(d int) []byte {
	e := &enc{offs: map[string]int{}}
	e.u16(rng.Intn(65536))
	e.u16(0x8180)
	e.u16(1)
	cntAt := len(e.b)
	e.u16(0)
	e.u16(0)
	e.u16(0)
	e.name([]string{"big", "test"}, false)
	e.u16(255)
	e.u16(1)
	// compressed size so far: 12 + 10 + 4; every padding record takes 2 (pointer) + 10 + l there
	target := 0x3fff - d
	off, n := 26, 0
	for off < target {
		l := 200 + rng.Intn(60)
		if rest := target - off - 12; rest < l+12+1 { // the last one (or two) land exactly on the target
			if rest < 0 {
				panic("straddleWire: layout")
			}
			l = rest
		}
		e.name([]string{"big", "test"}, true)
		e.u16(65280 + n%3)
		e.u16(1)
		e.u32(300)
		e.u16(l)
		for j := 0; j < l; j++ {
			e.b = append(e.b, byte(n))
		}
		off += 12 + l
		n++
	}
	rec := func(nm []string, k int) {
		e.name(nm, false)
		e.u16(1)
		e.u16(1)
		e.u32(60)
		e.u16(4)
		e.b = append(e.b, 10, 2, byte(d), byte(k))
		n++
	}
	a, b := randLabel(), randLabel()
	rec([]string{"aaaa", a, b, "example"}, 0) // starts at target
	rec([]string{a, b, "example"}, 1)
	rec([]string{"www", b, "example"}, 2)
	rec([]string{"x", "example"}, 3)
	rec([]string{"aaaa", a, b, "example"}, 4)
	binary.BigEndian.PutUint16(e.b[cntAt:], uint16(n))
	return e.b
}

// long names: 253..257 octets
func longNameWire() []byte {
	e := &enc{offs: map[string]int{}}
	e.u16(1)
	e.u16(0x0100)
	e.u16(1)
	e.u16(0)
	e.u16(0)
	e.u16(0)
	target := 250 + rng.Intn(8)
	var ls []string
	tot := 1
	for tot < target {
		l := 63
		if target-tot-1 < 63 {
			l = target - tot - 1
		}
		if l <= 0 {
			break
		}
		ls = append(ls, string(make([]byte, l)))
		tot += 1 + l
	}
	e.name(ls, false)
	e.u16(1)
	e.u16(1)
	return e.b
}

func main() {
	out := flag.String("out", "trace.ndjson", "")
	stim := flag.String("stim", "", "TLC-generated abstract messages (json array)")
	names := flag.String("names", "", "TLC-enumerated name-decoder inputs (json array of byte arrays)")
	gen := flag.Int("gen", 0, "random valid wire images (decode, then re-encode both ways)")
	mal := flag.Int("mal", 0, "mutated wire images (decode only)")
	ownPath := flag.String("own", "", "ownership trace (pool hook events)")
	big := flag.Int("big", 0, "messages larger than 16 KiB with late names reused")
	chain := flag.Int("chain", 0, "messages whose names form a chain of suffixes (2 to 41 deep)")
	huge := flag.Int("huge", 0, "accepted messages whose compressed re-encoding exceeds 64 KiB")
	lim := flag.Int("lim", 0, "size-limited packs")
	conc := flag.Int("conc", 0, "milliseconds of concurrent decoding / holding / re-encoding / releasing")
	flag.Parse()
	rng = rand.New(rand.NewSource(vtrace.Seed()))
	tr = vtrace.Open(*out)
	defer tr.Close()
	if *ownPath != "" { // anomalies of the buffer pool (double release, release of a foreign slice, ...)
		own := vtrace.NewOwn(*ownPath, 64)
		defer own.T.Close()
		verifhook.SetSink(func(name string, args []any) { own.Handle(name, args) })
	}

	if *stim != "" {
		raw, _ := os.ReadFile(*stim)
		var ms []absMsg
		if err := json.Unmarshal(raw, &ms); err != nil {
			panic(err)
		}
		for _, a := range ms {
			m := mkMsg(a)
			doPack(m, false, 0)
			doPack(m, true, 0)
			dnsmsg.ReleaseMsg(m)
		}
	}
	if *names != "" {
		raw, _ := os.ReadFile(*names)
		var ins [][]int
		if err := json.Unmarshal(raw, &ins); err != nil {
			panic(err)
		}
		for _, in := range ins {
			b := make([]byte, len(in))
			for i, c := range in {
				b[i] = byte(c)
			}
			if m := doUnpack(b); m != nil {
				dnsmsg.ReleaseMsg(m)
			}
		}
	}
	for i := 0; i < *gen; i++ {
		w := randWire(6)
		if rng.Intn(20) == 0 {
			w = longNameWire()
		}
		m := doUnpack(w)
		if m == nil {
			continue
		}
		doPack(m, false, 0)
		doPack(m, true, 0)
		dnsmsg.ReleaseMsg(m)
	}
	for i := 0; i < *big; i++ {
		w := bigWire()
		if i%2 == 1 {
			w = straddleWire((i / 2) % 14)
		}
		m := doUnpack(w)
		if m == nil {
			continue
		}
		doPack(m, true, 0)
		if i%4 == 0 {
			doPack(m, false, 0)
		}
		dnsmsg.ReleaseMsg(m)
	}
	for i := 0; i < *chain; i++ {
		m := doUnpack(chainWire(2 + i%40))
		if m == nil {
			continue
		}
		doPack(m, true, 0)
		if i%3 == 0 {
			doPack(m, true, 1232)
		}
		dnsmsg.ReleaseMsg(m)
	}
	if *chain > 0 {
		for _, k := range []int{1, 9, 10, 11, 12, 64, 125, 126, 127, 128, 200} {
			if m := doUnpack(ptrChainWire(k)); m != nil {
				dnsmsg.ReleaseMsg(m)
			}
		}
	}
	for i := 0; i < *huge; i++ {
		m := doUnpack(hugeWire())
		if m == nil {
			continue
		}
		doPack(m, true, 0)
		dnsmsg.ReleaseMsg(m)
	}
	for i := 0; i < *mal; i++ {
		w := mutate(randWire(4))
		if rng.Intn(3) == 0 {
			w = mutate(w)
		}
		if m := doUnpack(w); m != nil {
			dnsmsg.ReleaseMsg(m)
		}
		if i%4 == 1 && len(w) > 0 && len(w) <= 4096 {
			doUnpackVia(w, i%8 == 1)
		}
	}
	if *mal > 0 {
		// systematically: messages cut at every offset of their last record (whatever its type), as they are and
		// with the record's RDLENGTH left announcing more than is there
		for k := 0; k < 48; k++ {
			w := randWire(3)
			for cut := max(12, len(w)-72); cut < len(w); cut++ {
				if m := doUnpack(w[:cut]); m != nil {
					dnsmsg.ReleaseMsg(m)
				}
			}
		}
	}
	for i := 0; i < *lim; i++ {
		limCase(i)
	}
	if *conc > 0 {
		concPhase(time.Duration(*conc) * time.Millisecond)
	}
	_ = dns.TypeA
	fmt.Printf("events=%d\n", tr.N)
}

// concPhase: the codec's records and messages come from shared pools. Many goroutines decode the same images at
// the same time; half of them release at once (feeding the pools), the others hold what they decoded for a
// while before they look at it. Whatever a goroutine decoded has to stay what the (sequential, validated)
// decoding of the same octets gave; a decoding that differs is recorded as an ordinary unpack event and is
// rejected by the specification's decoder.
func concPhase(d time.Duration) {
	const variants = 24
	wires := make([][]byte, 0, variants)
	refs := make([]string, 0, variants)
	for len(wires) < variants {
		w := randWire(6)
		if len(wires)%2 == 0 { // record-rich replies: many records of one type
			e := &enc{offs: map[string]int{}}
			ls := randNameLabels()
			typ := []int{1, 28, 2, 5, 15, 6, 33, 12}[len(wires)/2%8]
			nrr := 8 + rng.Intn(12)
			e.b = append(e.b, byte(rng.Intn(256)), byte(rng.Intn(256)), 0x81, 0x80)
			e.u16(1)
			e.u16(nrr)
			e.u16(0)
			e.u16(0)
			e.name(ls, false)
			e.u16(typ)
			e.u16(1)
			for i := 0; i < nrr; i++ {
				e.name(ls, true)
				e.u16(typ)
				e.u16(1)
				e.u32(uint32(1000 + i))
				var rd []byte
				switch typ {
				case 1:
					rd = []byte{10, byte(len(wires)), byte(i), 7}
				case 28:
					rd = append(bytes.Repeat([]byte{0x20}, 14), byte(len(wires)), byte(i))
				case 2, 5, 12:
					rd = wireName(randNameLabels())
				case 15:
					rd = append(u16(uint16(i)), wireName(randNameLabels())...)
				case 33:
					rd = append(append(append(u16(uint16(i)), u16(5)...), u16(53)...), wireName(randNameLabels())...)
				case 6:
					rd = append(append(wireName(randNameLabels()), wireName(randNameLabels())...), bytes.Repeat([]byte{0, 0, 1, byte(i)}, 5)...)
				}
				e.u16(len(rd))
				e.b = append(e.b, rd...)
			}
			w = e.b
		}
		m := doUnpack(w) // sequential reference, validated through the trace
		if m == nil {
			continue
		}
		rb := make([]byte, m.Len())
		n, err := m.Pack(rb, false, 0)
		dnsmsg.ReleaseMsg(m)
		if err != nil {
			continue
		}
		wires = append(wires, w)
		refs = append(refs, string(rb[:n]))
	}
	// the pool's ownership instrumentation takes one lock per buffer: off, the goroutines have to run in parallel
	pool.VerifBypass.Store(true)
	deadline := time.Now().Add(d)
	var bad atomic.Int64
	var total atomic.Int64
	report := func(v int, m *dnsmsg.Msg) {
		if bad.Add(1) <= 5 {
			tr.Emit("unpack", "in", vtrace.Bytes(wires[v]), "ok", true, "msg", msgAbs(m))
		}
	}
	same := func(v int, m *dnsmsg.Msg) bool { // the uncompressed re-encoding is the one the sequential decoding gave
		b := make([]byte, m.Len()+16)
		n, err := m.Pack(b[:m.Len()], false, 0)
		return err == nil && string(b[:n]) == refs[v]
	}
	var wg sync.WaitGroup
	procs := runtime.GOMAXPROCS(0)
	for g := 0; g < procs*2; g++ {
		wg.Add(2)
		go func(g int) { // decodes and releases at once
			defer wg.Done()
			defer func() {
				if p := recover(); p != nil {
					tr.Emit("crash", "what", "unpack", "in", []int{}, "panic", fmt.Sprint(p))
				}
			}()
			for i := 0; bad.Load() == 0 && time.Now().Before(deadline); i++ {
				v := (g + i) % variants
				m, err := dnsmsg.UnpackMsg(wires[v])
				if err != nil {
					tr.Emit("unpack", "in", vtrace.Bytes(wires[v]), "ok", false)
					bad.Add(1)
					return
				}
				if i%32 == 0 && !same(v, m) {
					report(v, m)
				}
				dnsmsg.ReleaseMsg(m)
				total.Add(1)
			}
		}(g)
		go func(g int) { // decodes, holds, looks again later, releases
			defer wg.Done()
			defer func() {
				if p := recover(); p != nil {
					tr.Emit("crash", "what", "unpack", "in", []int{}, "panic", fmt.Sprint(p))
				}
			}()
			type held struct {
				m *dnsmsg.Msg
				v int
			}
			ring := make([]held, 256)
			for i := 0; bad.Load() == 0 && time.Now().Before(deadline); i++ {
				s := &ring[i%len(ring)]
				if s.m != nil {
					if !same(s.v, s.m) {
						report(s.v, s.m)
					}
					if i%3 != 0 { // some are never handed back: this goroutine keeps drawing from the pools
						dnsmsg.ReleaseMsg(s.m)
					}
				}
				v := (g*7 + i) % variants
				m, err := dnsmsg.UnpackMsg(wires[v])
				if err != nil {
					tr.Emit("unpack", "in", vtrace.Bytes(wires[v]), "ok", false)
					bad.Add(1)
					return
				}
				*s = held{m, v}
				total.Add(1)
			}
		}(g)
	}
	wg.Wait()
	fmt.Printf("concurrent decodings=%d differing=%d\n", total.Load(), bad.Load())
}
