//go:build verif

package main

import (
	"github.com/IrineSistiana/mosproxy/internal/dnsmsg"
)

// limCase builds a response with a random record mix (sizes from tiny to large, OPT absent or at a
// random position of the additional section) and packs it under a size limit.
func limCase(i int) {
	e := &enc{offs: map[string]int{}}
	nq := 1
	if rng.Intn(10) == 0 {
		nq = 0
	}
	n := [3]int{rng.Intn(12), rng.Intn(4), rng.Intn(4)}
	if rng.Intn(6) == 0 {
		n[0] = 30 + rng.Intn(60)
	}
	optAt := -1
	if rng.Intn(3) > 0 {
		n[2]++
		optAt = rng.Intn(n[2])
	}
	e.u16(rng.Intn(65536))
	e.u16(0x8180)
	e.u16(nq)
	e.u16(n[0])
	e.u16(n[1])
	e.u16(n[2])
	qn := randNameLabels()
	if rng.Intn(5) == 0 { // a name of the maximal size (255 octets on the wire) as owner of every record
		qn = nil
		for _, ll := range []int{63, 63, 63, 61} {
			lb := make([]byte, ll)
			for j := range lb {
				lb[j] = byte('a' + rng.Intn(26))
			}
			qn = append(qn, string(lb))
		}
	}
	if nq == 1 {
		e.name(qn, false)
		e.u16(16)
		e.u16(1)
	}
	for s := 0; s < 3; s++ {
		for k := 0; k < n[s]; k++ {
			if s == 2 && k == optAt {
				e.b = append(e.b, 0)
				e.u16(41)
				e.u16(1232)
				e.u32(0)
				ol := []int{0, 0, 12}[rng.Intn(3)]
				e.u16(ol)
				if ol > 0 {
					e.u16(10)
					e.u16(8)
					e.b = append(e.b, 1, 2, 3, 4, 5, 6, 7, 8)
				}
				continue
			}
			e.name(qn, rng.Intn(2) == 0)
			e.u16(16)
			e.u16(1)
			e.u32(300)
			dl := []int{1, 5, 20, 60, 120, 250, 400}[rng.Intn(7)]
			e.u16(dl)
			for j := 0; j < dl; j++ {
				e.b = append(e.b, byte(k))
			}
		}
	}
	m, err := dnsmsg.UnpackMsg(e.b)
	if err != nil {
		panic(err)
	}
	l := m.Len()
	sizes := []int{0, 512, 1232, 4096, 65535, l, l - 1, l + 1, l / 2, 100, 511, 513, 600 + rng.Intn(3000)}
	size := sizes[rng.Intn(len(sizes))]
	if size < 0 {
		size = 0
	}
	doPack(m, rng.Intn(2) == 0, size)
	dnsmsg.ReleaseMsg(m)
}
