//go:build verif

// limdrv replays arrival histories (TLC-generated and seeded random) into the real
// limiter.ClientLimiter with virtual time and records every decision.
package main

import (
	"encoding/json"
	"flag"
	"fmt"
	"math/rand"
	"net/netip"
	"os"
	"sync"
	"time"

	"github.com/IrineSistiana/mosproxy/app/router"
	"github.com/IrineSistiana/mosproxy/internal/limiter"
	"github.com/IrineSistiana/mosproxy/internal/verifhook"
	"github.com/IrineSistiana/mosproxy/internal/zzverif/vtrace"
)

type addrJ struct {
	Fam int   `json:"fam"`
	O   []int `json:"o"`
}

func toAddr(a addrJ) netip.Addr {
	if a.Fam == 4 {
		return netip.AddrFrom4([4]byte{byte(a.O[0]), byte(a.O[1]), byte(a.O[2]), byte(a.O[3])})
	}
	var b [16]byte
	for i := range b {
		b[i] = byte(a.O[i])
	}
	return netip.AddrFrom16(b)
}

func fromAddr(a netip.Addr) addrJ {
	if a.Is4() {
		b := a.As4()
		return addrJ{4, vtrace.Bytes(b[:])}
	}
	b := a.As16()
	return addrJ{6, vtrace.Bytes(b[:])}
}

type cfg struct{ limit, burst, v4, v6 int }

type arrival struct {
	a  netip.Addr
	n  int
	ms int
}

var tr *vtrace.T
var epoch = time.Unix(1_700_000_000, 0)

func replay(c cfg, arrs []arrival) {
	cl := limiter.NewClientLimiter(limiter.ClientLimiterOpts{Limit: float64(c.limit), Burst: c.burst, V4Mask: c.v4, V6Mask: c.v6})
	defer cl.Close()
	tr.Emit("lim.cfg", "limit", c.limit, "burst", c.burst, "v4", c.v4, "v6", c.v6)
	for _, ar := range arrs {
		res := cl.AllowN(ar.a, epoch.Add(time.Duration(ar.ms)*time.Millisecond), ar.n)
		tr.Emit("lim.v", "addr", fromAddr(ar.a), "t", ar.ms, "n", ar.n, "res", res)
	}
}

func main() {
	out := flag.String("out", "trace.ndjson", "")
	stim := flag.String("stim", "", "")
	random := flag.Int("random", 0, "")
	conc := flag.Int("conc", 0, "rounds of concurrent first contacts of a fresh subnet")
	gc := flag.Int("gc", 0, "rounds of bucket-collection histories")
	flag.Parse()
	rng := rand.New(rand.NewSource(vtrace.Seed()))
	tr = vtrace.Open(*out)
	defer tr.Close()

	// configuration shapes: explicit masks, omitted (0) masks, out-of-range masks, omitted burst
	cfgs := []cfg{{8, 2, 0, 0}, {8, 2, 24, 48}, {8, 0, 24, 0}, {8, 2, 0, 64}, {16, 4, 32, 128}, {8, 3, 16, 56}, {8, 2, 33, 129}, {8, 2, 24, 48}}
	ns := 0
	if *stim != "" {
		raw, err := os.ReadFile(*stim)
		if err != nil {
			panic(err)
		}
		var stims [][][]json.RawMessage
		if err := json.Unmarshal(raw, &stims); err != nil {
			panic(err)
		}
		for i, st := range stims {
			var arrs []arrival
			for _, a := range st {
				var aj addrJ
				var n, t int
				json.Unmarshal(a[0], &aj)
				json.Unmarshal(a[1], &n)
				json.Unmarshal(a[2], &t)
				arrs = append(arrs, arrival{toAddr(aj), n, t * 125}) // one model tick = 125 ms = one token at 8/s
			}
			// the model was explored with rate 1 token/tick, burst 2 and default masks: shape 0,1,6,7 agree with it
			replay(cfgs[[]int{0, 1, 6, 2}[i%4]], arrs)
			ns++
		}
	}
	pool4 := []string{"10.0.1.5", "10.0.1.200", "10.0.2.5", "10.1.1.1", "192.168.7.7", "192.168.7.77", "::ffff:10.0.1.9", "::ffff:192.168.7.1"}
	pool6 := []string{"2001:db8:1:1::1", "2001:db8:1:2::1", "2001:db8:2:1::1", "2001:db8:1:1:8000::5", "fe80::1", "2001:db8:1:100::9"}
	for i := 0; i < *random; i++ {
		c := cfgs[rng.Intn(len(cfgs))]
		var arrs []arrival
		t := 0
		k := 40 + rng.Intn(160)
		for j := 0; j < k; j++ {
			if rng.Intn(3) > 0 {
				t += 125 * rng.Intn(4)
			}
			if rng.Intn(40) == 0 {
				t += 125 * 40
			}
			var a netip.Addr
			if rng.Intn(3) == 0 {
				a = netip.MustParseAddr(pool6[rng.Intn(len(pool6))])
			} else {
				a = netip.MustParseAddr(pool4[rng.Intn(len(pool4))])
			}
			// flood one subnet most of the time so that isolation is exercised
			if rng.Intn(2) == 0 {
				a = netip.MustParseAddr(pool4[rng.Intn(2)])
			}
			arrs = append(arrs, arrival{a, 1 + rng.Intn(3), t})
		}
		replay(c, arrs)
	}
	// concurrent first contacts: the decisions are taken from the hook inside ClientLimiter.AllowN
	// (emitted under the bucket's own lock), so the file order is the linearization order
	if *conc > 0 {
		var inConc bool
		verifhook.SetSink(func(name string, args []any) {
			if name != "lim.cl" || !inConc {
				return
			}
			tr.Emit("lim.v", "addr", fromAddr(args[1].(netip.Addr)), "t", int(args[3].(time.Time).Sub(epoch)/time.Millisecond), "n", args[4], "res", args[5])
		})
		for r := 0; r < *conc; r++ {
			c := cfg{8, 1 + r%3, 24, 48}
			cl := limiter.NewClientLimiter(limiter.ClientLimiterOpts{Limit: float64(c.limit), Burst: c.burst, V4Mask: c.v4, V6Mask: c.v6})
			tr.Emit("lim.cfg", "limit", c.limit, "burst", c.burst, "v4", c.v4, "v6", c.v6)
			inConc = true
			for k := 0; k < 6; k++ { // several fresh subnets per limiter
				var wg sync.WaitGroup
				start := make(chan struct{})
				now := epoch.Add(time.Duration(125*k) * time.Millisecond)
				for g := 0; g < 8; g++ {
					wg.Add(1)
					a := netip.AddrFrom4([4]byte{64, byte(r), byte(k), byte(1 + g)})
					go func() { defer wg.Done(); <-start; cl.AllowN(a, now, 1) }()
				}
				close(start)
				wg.Wait()
			}
			inConc = false
			cl.Close()
		}
	}
	// bucket collection: gc() compares lastSeen with the wall clock, so these histories use time stamps
	// relative to the real clock (t = milliseconds since ten minutes ago); lim.gc is one gc() call.
	if *gc > 0 {
		for r := 0; r < *gc; r++ {
			base := time.Now().Add(-10 * time.Minute)
			at := func(ms int) time.Time { return base.Add(time.Duration(ms) * time.Millisecond) }
			nowMs := func() int { return int(time.Since(base) / time.Millisecond) }
			shapes := []cfg{{8, 4, 24, 48}, {1, 100, 24, 48}, {2, 200, 0, 0}, {8, 0, 24, 48}, {1, 70, 24, 48}}
			c := shapes[r%len(shapes)]
			cl := limiter.NewClientLimiter(limiter.ClientLimiterOpts{Limit: float64(c.limit), Burst: c.burst, V4Mask: c.v4, V6Mask: c.v6})
			tr.Emit("lim.cfg", "limit", c.limit, "burst", c.burst, "v4", c.v4, "v6", c.v6)
			call := func(a string, ms, n int) {
				ad := netip.MustParseAddr(a)
				res := cl.AllowN(ad, at(ms), n)
				tr.Emit("lim.v", "addr", fromAddr(ad), "t", ms, "n", n, "res", res)
			}
			burst := c.burst
			if burst == 0 {
				burst = c.limit
			}
			drain := func(a string, ms int) {
				left := burst
				for left > 0 {
					n := 1 + rng.Intn(3)
					if n > left {
						n = left
					}
					call(a, ms, n)
					left -= n
				}
				call(a, ms, 1) // refused: the bucket is empty
			}
			t0 := nowMs()
			// an active client: first seen two minutes ago, still querying now, bucket empty
			drain("10.9.1.1", t0-120000)
			for ms := t0 - 118000; ms < t0-2000; ms += 7000 + rng.Intn(4000) {
				call("10.9.1.1", ms, 1+rng.Intn(2))
			}
			drain("10.9.1.2", t0-1)
			// an idle client whose bucket is full again, one that is idle but has not refilled (large burst),
			// one idle for less than the collection age
			drain("10.9.2.1", t0-(61000+rng.Intn(50000)))
			drain("2001:db8:9:1::1", t0-(61000+rng.Intn(30000)))
			drain("10.9.3.1", t0-(20000+rng.Intn(30000)))
			limiter.VerifGC(cl)
			tr.Emit("lim.gc", "t", nowMs())
			t1 := nowMs()
			for _, a := range []string{"10.9.1.77", "10.9.2.1", "2001:db8:9:1::2", "10.9.3.200"} {
				call(a, t1, burst)
				call(a, t1, 1)
			}
			limiter.VerifGC(cl)
			tr.Emit("lim.gc", "t", nowMs())
			for _, a := range []string{"10.9.1.1", "10.9.2.2", "10.9.3.1"} {
				call(a, nowMs(), 1+rng.Intn(burst))
			}
			cl.Close()
			if r == 0 {
				crowd()
			}
			gcRace(r)
			if r%5 == 0 {
				globalRound(r)
			}
		}
	}
	fmt.Printf("stims=%d random=%d events=%d\n", ns, *random, tr.N)
}

// gcRace (LimiterStep.tla): the collector has decided to forget an idle, full bucket; before the bucket is gone
// (the collector is held at its gate) the client comes back and spends its burst, and once the collector has
// finished it asks again. Within these few milliseconds the subnet gets its burst once.
func gcRace(r int) {
	base := time.Now().Add(-10 * time.Minute)
	at := func(ms int) time.Time { return base.Add(time.Duration(ms) * time.Millisecond) }
	nowMs := func() int { return int(time.Since(base) / time.Millisecond) }
	burst := 3 + r%4
	cl := limiter.NewClientLimiter(limiter.ClientLimiterOpts{Limit: 1, Burst: burst, V4Mask: 24, V6Mask: 48})
	defer cl.Close()
	tr.Emit("lim.cfg", "limit", 1, "burst", burst, "v4", 24, "v6", 48)
	ad := netip.MustParseAddr("10.8.1.1")
	call := func(ms, n int) {
		res := cl.AllowN(ad, at(ms), n)
		tr.Emit("lim.v", "addr", fromAddr(ad), "t", ms, "n", n, "res", res)
	}
	call(nowMs()-300000, 1) // five minutes ago: idle and full again by now
	// from here on the decisions are recorded by the hook inside AllowN, under the bucket's lock: two callers run
	// at the same time and the file order has to be the order of the decisions
	verifhook.SetSink(func(name string, args []any) {
		if name == "lim.cl" && args[0] == any(cl) {
			tr.Emit("lim.v", "addr", fromAddr(args[1].(netip.Addr)), "t", int(args[3].(time.Time).Sub(base)/time.Millisecond), "n", args[4], "res", args[5])
		}
	})
	defer verifhook.SetSink(nil)
	quiet := func() { cl.AllowN(ad, at(nowMs()), 1) }
	reached, gate := make(chan struct{}, 1), make(chan struct{})
	verifhook.SetSched(func(name string, args []any) {
		if name == "lim.gc" && args[0] == any(cl) {
			reached <- struct{}{}
			<-gate
		}
	})
	defer verifhook.SetSched(nil)
	gcDone := make(chan struct{})
	go func() { limiter.VerifGC(cl); close(gcDone) }()
	select {
	case <-reached:
	case <-gcDone:
	}
	var b1 sync.WaitGroup
	for g := 0; g < 2; g++ { // two callers of the subnet come back while the collector is at work
		b1.Add(1)
		go func() {
			defer b1.Done()
			for i := 0; i < burst; i++ {
				quiet()
			}
		}()
	}
	b1done := make(chan struct{})
	go func() { b1.Wait(); close(b1done) }()
	select {
	case <-b1done:
	case <-time.After(30 * time.Millisecond): // these calls may have to wait for the collector
	}
	close(gate)
	<-gcDone
	<-b1done
	tr.Emit("lim.gc", "t", nowMs())
	for i := 0; i <= burst; i++ {
		quiet()
	}
}

// globalRound: the router's resource limiter in real time. Four subnets spend the whole global budget; a fifth
// one is refused meanwhile (by the global limit); once the global budget is back, the fifth subnet - which was
// admitted nothing - has its whole burst.
func globalRound(r int) {
	base := time.Now()
	nowMs := func() int { return int(time.Since(base) / time.Millisecond) }
	var lc router.LimiterConfig
	lc.GlobalLimit = 20
	lc.Client.Limit, lc.Client.Burst = 1, 5
	allow, closeL := router.VerifResourceLimiter(lc)
	defer closeL()
	tr.Emit("lim.cfg", "limit", 1, "burst", 5, "v4", 0, "v6", 0, "glimit", 20, "t", nowMs())
	call := func(a string, n int) {
		ad := netip.MustParseAddr(a)
		t := nowMs()
		tr.Emit("lim.r", "addr", fromAddr(ad), "t", t, "n", n, "res", allow(ad, n))
	}
	for i := 0; i < 5; i++ {
		for _, a := range []string{"10.7.1.1", "10.7.2.9", "2001:db8:7:1::1", "10.7.4.200"} {
			call(a, 1)
		}
	}
	for i := 0; i < 5; i++ {
		call("10.7.9.1", 1) // the global budget is gone: refused, its own bucket untouched
	}
	call("10.7.1.77", 1)
	time.Sleep(1400 * time.Millisecond)
	for i := 0; i < 4; i++ {
		call("10.7.9.1", 1)
	}
	call("10.7.1.1", 1) // 1.4 tokens
	call("10.7.1.1", 1)
}

// crowd: a subnet spends its burst, stays away for three seconds while more than 65536 other subnets ask one query
// each (a flood from spoofed sources), and comes back: what it may spend is what three seconds refilled, however
// many buckets the limiter holds by then.  Only the subnet's own events are recorded: the others are strangers to
// its bucket.
func crowd() {
	base := time.Now().Add(-10 * time.Minute)
	at := func(ms int) time.Time { return base.Add(time.Duration(ms) * time.Millisecond) }
	cl := limiter.NewClientLimiter(limiter.ClientLimiterOpts{Limit: 1, Burst: 40, V4Mask: 24, V6Mask: 48})
	defer cl.Close()
	tr.Emit("lim.cfg", "limit", 1, "burst", 40, "v4", 24, "v6", 48)
	for _, a := range []string{"10.8.1.1", "2001:db8:8:1::1"} {
		ad := netip.MustParseAddr(a)
		call := func(ms, n int) {
			res := cl.AllowN(ad, at(ms), n)
			tr.Emit("lim.v", "addr", fromAddr(ad), "t", ms, "n", n, "res", res)
		}
		t := 1000
		call(t, 25)
		call(t, 15)
		call(t, 1) // empty
		for k := 0; k < 3; k++ {
			t += 1000
			for i := 0; i < 22100; i++ {
				x := k*22100 + i
				cl.AllowN(netip.AddrFrom4([4]byte{11 + byte(x>>16), byte(x >> 8), byte(x), 1}), at(t+i%900), 1)
			}
		}
		t += 1000
		call(t, 5) // four seconds: four tokens
		call(t, 4)
		call(t, 1)
		call(t+36000, 40)
	}
}
