//go:build verif

package main

import (
	"encoding/base64"
	"encoding/binary"
	"fmt"
	"io"
	"net"
	"net/http"
	"strings"
	"sync"
	"sync/atomic"
	"time"

	"github.com/IrineSistiana/mosproxy/internal/zzverif/vtrace"
	"github.com/miekg/dns"
)

// Behaviour of a fake upstream for one question, decoded from the second label of the name:
//
//	r<rcode>t<ttl>d<delay ms>[f<flags>]   flags: T truncated, G garbage, S silent, C connection failure,
//	N no answer (SOA in authority), O reply carries an option-laden OPT, M several answers with distinct TTLs
type beh struct {
	rcode, ttl, delay int
	flags             string
}

func parseBeh(name string) beh {
	ls := dns.SplitDomainName(name)
	b := beh{ttl: 60}
	if len(ls) < 2 {
		return b
	}
	s := strings.ToLower(ls[1])
	if i := strings.IndexByte(s, 'f'); i >= 0 {
		b.flags = strings.ToUpper(s[i+1:])
		s = s[:i]
	}
	fmt.Sscanf(s, "r%dt%dd%d", &b.rcode, &b.ttl, &b.delay)
	return b
}

func (b beh) has(f byte) bool { return strings.IndexByte(b.flags, f) >= 0 }

var tokCtr atomic.Uint32

type fakeUp struct {
	tag   string
	tr    func() *vtrace.T
	uc    *net.UDPConn
	tl    net.Listener
	addr  string
	hl    net.Listener // plain-HTTP DoH
	haddr string
	// dynamic override: name(lower) -> behaviour label sequence (one per successive query)
	mu       sync.Mutex
	override map[string][]string
	hold     map[string]chan struct{} // name -> release channel (reply is held until closed)
}

func newFakeUp(tag string, tr func() *vtrace.T) *fakeUp {
	u := &fakeUp{tag: tag, tr: tr, override: map[string][]string{}, hold: map[string]chan struct{}{}}
	var l net.Listener
	for try := 0; ; try++ {
		uc, err := net.ListenUDP("udp", &net.UDPAddr{IP: net.IPv4(127, 0, 0, 1)})
		if err != nil {
			panic(err)
		}
		port := uc.LocalAddr().(*net.UDPAddr).Port
		l, err = net.Listen("tcp", fmt.Sprintf("127.0.0.1:%d", port))
		if err != nil {
			uc.Close()
			if try > 20 {
				panic(err)
			}
			continue
		}
		u.uc = uc
		break
	}
	u.tl = l
	u.addr = l.Addr().String()
	hl, err := net.Listen("tcp", "127.0.0.1:0")
	if err != nil {
		panic(err)
	}
	u.hl = hl
	u.haddr = hl.Addr().String()
	go u.serveUDP()
	go u.serveTCP()
	go u.serveHTTP()
	return u
}

func (u *fakeUp) close() { u.uc.Close(); u.tl.Close(); u.hl.Close() }

// url of the upstream for a scheme of the router's configuration
func (u *fakeUp) url(scheme string) string {
	if scheme == "http" {
		return "http://" + u.haddr + "/dns-query"
	}
	return scheme + "://" + u.addr
}

// plain-HTTP DoH (RFC 8484 GET and POST)
func (u *fakeUp) serveHTTP() {
	hs := &http.Server{Handler: http.HandlerFunc(func(w http.ResponseWriter, r *http.Request) {
		var body []byte
		if r.Method == http.MethodGet {
			body, _ = base64.RawURLEncoding.DecodeString(r.URL.Query().Get("dns"))
		} else {
			body, _ = io.ReadAll(io.LimitReader(r.Body, 65536))
		}
		reply, fail := u.handle(body, "http")
		if fail {
			if hj, ok := w.(http.Hijacker); ok {
				if c, _, err := hj.Hijack(); err == nil {
					c.Close()
				}
			}
			return
		}
		if reply == nil {
			<-r.Context().Done()
			return
		}
		w.Header().Set("Content-Type", "application/dns-message")
		w.Write(reply)
	})}
	hs.Serve(u.hl)
}

func labelsJS(name string) [][]int {
	var r [][]int
	for _, l := range dns.SplitDomainName(name) {
		r = append(r, vtrace.Bytes([]byte(unescape(l))))
	}
	if r == nil {
		r = [][]int{}
	}
	return r
}

// miekg presents labels in escaped text form (\DDD for an octet, \X for a special character): back to the octets
func unescape(l string) string {
	if strings.IndexByte(l, '\\') < 0 {
		return l
	}
	b := make([]byte, 0, len(l))
	for i := 0; i < len(l); i++ {
		if l[i] != '\\' || i+1 >= len(l) {
			b = append(b, l[i])
			continue
		}
		if i+3 < len(l) && l[i+1] >= '0' && l[i+1] <= '9' && l[i+2] >= '0' && l[i+2] <= '9' && l[i+3] >= '0' && l[i+3] <= '9' {
			b = append(b, byte(int(l[i+1]-'0')*100+int(l[i+2]-'0')*10+int(l[i+3]-'0')))
			i += 3
			continue
		}
		b = append(b, l[i+1])
		i++
	}
	return string(b)
}

// optScan walks the additional section of an uncompressed single-question message (the form the
// proxy sends upstream) and returns, for OPT records: count, class (udp size), total rdlen of the
// first OPT, the option codes in order, and the raw ECS option payload if present.
func optScan(w []byte, nq int) (nopt, size, rdlen int, codes []int, ecs []byte) {
	codes = []int{}
	off := 12
	for i := 0; i < nq; i++ {
		for off < len(w) && w[off] != 0 {
			off += 1 + int(w[off])
		}
		off += 1 + 4
	}
	for off+11 <= len(w) {
		if w[off] != 0 {
			return
		}
		typ := binary.BigEndian.Uint16(w[off+1:])
		cls := int(binary.BigEndian.Uint16(w[off+3:]))
		l := int(binary.BigEndian.Uint16(w[off+9:]))
		rd := w[off+11:]
		if l > len(rd) {
			return
		}
		rd = rd[:l]
		if typ == dns.TypeOPT {
			nopt++
			if nopt == 1 {
				size, rdlen = cls, l
				for len(rd) >= 4 {
					c := int(binary.BigEndian.Uint16(rd))
					ol := int(binary.BigEndian.Uint16(rd[2:]))
					if 4+ol > len(rd) {
						break
					}
					codes = append(codes, c)
					if c == 8 {
						ecs = rd[4 : 4+ol]
					}
					rd = rd[4+ol:]
				}
			}
		}
		off += 11 + l
	}
	return
}

func (u *fakeUp) behFor(name string) beh {
	key := strings.ToLower(name)
	u.mu.Lock()
	defer u.mu.Unlock()
	if seq, ok := u.override[key]; ok && len(seq) > 0 {
		lab := seq[0]
		if len(seq) > 1 {
			u.override[key] = seq[1:]
		}
		return parseBeh("x." + lab + ".")
	}
	return parseBeh(name)
}

func (u *fakeUp) setSeq(name string, labs ...string) {
	u.mu.Lock()
	u.override[strings.ToLower(name)] = labs
	u.mu.Unlock()
}

func (u *fakeUp) holdName(name string) chan struct{} {
	ch := make(chan struct{})
	u.mu.Lock()
	u.hold[strings.ToLower(name)] = ch
	u.mu.Unlock()
	return ch
}

// holdWith: the reply for name is held until ch is closed (one channel may hold many names: a barrier)
func (u *fakeUp) holdWith(name string, ch chan struct{}) {
	u.mu.Lock()
	u.hold[strings.ToLower(name)] = ch
	u.mu.Unlock()
}

// handle returns the wire reply (nil = none) and whether the connection should be failed.
func (u *fakeUp) handle(w []byte, proto string) (reply []byte, fail bool) {
	if own != nil && vtrace.PoisonRun(w, 6) {
		own.T.Emit("own.poison", "where", "upstream query on "+proto)
	}
	q := new(dns.Msg)
	if err := q.Unpack(w); err != nil {
		u.tr().Emit("up.recv.bad", "up", u.tag, "proto", proto, "wire", vtrace.Bytes(w))
		return nil, false
	}
	name := "."
	cls, typ := 0, 0
	if len(q.Question) > 0 {
		name, cls, typ = q.Question[0].Name, int(q.Question[0].Qclass), int(q.Question[0].Qtype)
	}
	nopt, size, rdlen, codes, ecs := optScan(w, len(q.Question))
	fam, src, scope, addr := 0, 0, 0, []int{}
	if len(ecs) >= 4 {
		fam = int(binary.BigEndian.Uint16(ecs))
		src, scope = int(ecs[2]), int(ecs[3])
		addr = vtrace.Bytes(ecs[4:])
	}
	u.tr().Emit("up.recv", "up", u.tag, "proto", proto, "id", int(q.Id), "name", labelsJS(name), "cls", cls, "typ", typ,
		"rd", q.RecursionDesired, "nq", len(q.Question), "nopt", nopt, "optsize", size, "optrdlen", rdlen,
		"optcodes", codes, "ecs", ecs != nil, "ecsfam", fam, "ecssrc", src, "ecsscope", scope, "ecsaddr", addr,
		"nan", len(q.Answer), "nns", len(q.Ns), "nar", len(q.Extra), "qr", q.Response, "opcode", q.Opcode)
	b := u.behFor(name)
	u.mu.Lock()
	hold := u.hold[strings.ToLower(name)]
	u.mu.Unlock()
	if hold != nil {
		<-hold
	}
	if b.delay > 0 {
		time.Sleep(time.Duration(b.delay) * time.Millisecond)
	}
	tok := tokCtr.Add(1)
	kind := "reply"
	switch {
	case b.has('S'):
		kind = "silent"
	case b.has('C'):
		kind = "close"
	case b.has('G'):
		kind = "garbage"
	}
	ttls := []int{b.ttl}
	if b.has('M') {
		ttls = []int{b.ttl + 7, b.ttl, b.ttl + 300}
	}
	if b.has('Z') { // a zero TTL first: the minimum is 0 whatever follows
		ttls = []int{0, b.ttl}
	}
	if b.has('Y') { // a zero TTL in the middle
		ttls = []int{b.ttl + 10, 0, b.ttl}
	}
	// big answers: B ~ 65 KB (330 TXT records of 190 octets), K ~ 3 KB, L ~ 1.3 KB
	ntxt := 0
	switch {
	case b.has('B'):
		ntxt = 325
	case b.has('K'):
		ntxt = 15
	case b.has('L'):
		ntxt = 6
	}
	r := new(dns.Msg)
	r.SetReply(q)
	r.Rcode = b.rcode
	r.Truncated = b.has('T')
	r.RecursionAvailable = true
	if len(q.Question) > 0 && !b.has('N') && !b.has('E') && (b.rcode == 0) {
		for i, t := range ttls {
			var ip [4]byte
			binary.BigEndian.PutUint32(ip[:], tok)
			if i > 0 {
				ip[0] = byte(200 + i)
			}
			r.Answer = append(r.Answer, &dns.A{Hdr: dns.RR_Header{Name: name, Rrtype: dns.TypeA, Class: dns.ClassINET, Ttl: uint32(t)}, A: net.IP(append([]byte(nil), ip[:]...))})
		}
	}
	for i := 0; i < ntxt; i++ {
		r.Answer = append(r.Answer, &dns.TXT{Hdr: dns.RR_Header{Name: name, Rrtype: dns.TypeTXT, Class: dns.ClassINET, Ttl: uint32(b.ttl)}, Txt: []string{strings.Repeat(string(rune('a'+i%26)), 188)}})
	}
	if b.has('R') && len(q.Question) > 0 { // record types with names inside RDATA
		r.Answer = append(r.Answer,
			&dns.SRV{Hdr: dns.RR_Header{Name: name, Rrtype: dns.TypeSRV, Class: dns.ClassINET, Ttl: uint32(b.ttl)}, Priority: 1, Weight: 2, Port: 5060, Target: "sip1." + name},
			&dns.MX{Hdr: dns.RR_Header{Name: name, Rrtype: dns.TypeMX, Class: dns.ClassINET, Ttl: uint32(b.ttl)}, Preference: 10, Mx: "mail." + name})
	}
	if (b.has('J') || b.has('H')) && len(q.Question) > 0 {
		// J: the proxy's (compressed) response to a client with EDNS0 lands in 65508..65535 octets - legal for
		//    the advertised size 65535, too large for a UDP datagram.  H: the upstream reply is 65525..65535
		//    octets without OPT, so that adding the proxy's OPT pushes a stream response over 65535.
		// compressed size: 12 + question + A (16) + n x (12 + 1 + len) [+ 11 for the OPT]
		qlen := len(name) + 1 + 4
		if name == "." {
			qlen = 5
		}
		target := 65505 // + 11 for the proxy's OPT = 65516
		if b.has('H') {
			target = 65530
		}
		size := 12 + qlen + 16*len(r.Answer)
		for size < target {
			l := 255
			if rest := target - size - 13; rest < l+13+1 {
				l = rest
				if l > 255 {
					l = rest / 2
				}
			}
			if l < 0 {
				break
			}
			r.Answer = append(r.Answer, &dns.TXT{Hdr: dns.RR_Header{Name: name, Rrtype: dns.TypeTXT, Class: dns.ClassINET, Ttl: uint32(b.ttl)}, Txt: []string{strings.Repeat("j", l)}})
			size += 13 + l
		}
		r.Compress = true
	}
	if b.has('N') || b.rcode != 0 && b.has('A') {
		r.Ns = append(r.Ns, &dns.SOA{Hdr: dns.RR_Header{Name: "test.", Rrtype: dns.TypeSOA, Class: dns.ClassINET, Ttl: uint32(b.ttl)}, Ns: "ns.test.", Mbox: "m.test.", Serial: tok, Refresh: 1, Retry: 2, Expire: 3, Minttl: 4})
	}
	if b.has('P') { // the upstream's OPT stands first in the additional section, other records behind it
		b.flags += "O"
	}
	if b.has('O') {
		o := &dns.OPT{Hdr: dns.RR_Header{Name: ".", Rrtype: dns.TypeOPT}}
		o.SetUDPSize(4096)
		o.SetDo()
		o.SetExtendedRcode(0)
		o.Option = append(o.Option, &dns.EDNS0_COOKIE{Code: dns.EDNS0COOKIE, Cookie: "0123456789abcdef0123456789abcdef"},
			&dns.EDNS0_SUBNET{Code: dns.EDNS0SUBNET, Family: 1, SourceNetmask: 24, SourceScope: 24, Address: net.IPv4(9, 9, 9, 0)},
			&dns.EDNS0_PADDING{Padding: make([]byte, 17)})
		r.Extra = append(r.Extra, o)
		if b.has('P') {
			r.Extra = append(r.Extra, &dns.A{Hdr: dns.RR_Header{Name: "glue1.test.", Rrtype: dns.TypeA, Class: dns.ClassINET, Ttl: uint32(b.ttl)}, A: net.IPv4(10, 9, 8, 7)},
				&dns.A{Hdr: dns.RR_Header{Name: "glue2.test.", Rrtype: dns.TypeA, Class: dns.ClassINET, Ttl: uint32(b.ttl)}, A: net.IPv4(10, 9, 8, 6)})
		}
	}
	// the length of the reply as the proxy will account for it: uncompressed, without the upstream's OPT
	r2 := r.Copy()
	r2.Compress = false
	var keep []dns.RR
	for _, x := range r2.Extra {
		if x.Header().Rrtype != dns.TypeOPT {
			keep = append(keep, x)
		}
	}
	r2.Extra = keep
	ulen := r2.Len()
	u.tr().Emit("up.send", "up", u.tag, "proto", proto, "tok", int(tok), "name", labelsJS(name), "cls", cls, "typ", typ,
		"rcode", b.rcode, "ttl", b.ttl, "ttls", ttls, "tc", b.has('T'), "kind", kind, "nodata", b.has('N') || b.has('E'), "soa", b.has('N') || (b.rcode != 0 && b.has('A')), "opt", b.has('O'), "ntxt", ntxt, "ulen", ulen)
	if kind == "silent" {
		return nil, false
	}
	if kind == "close" {
		return nil, true
	}
	r.Compress = r.Compress || ntxt > 0
	out, err := r.Pack()
	if err != nil {
		panic(err)
	}
	if len(out) > 65535 {
		panic("fake upstream: reply too large for a frame")
	}
	if kind == "garbage" {
		out = out[:len(out)-2]
		out[7] = 3 // three answers announced
	}
	return out, false
}

func (u *fakeUp) serveUDP() {
	buf := make([]byte, 65535)
	for {
		n, ra, err := u.uc.ReadFromUDP(buf)
		if err != nil {
			return
		}
		w := append([]byte(nil), buf[:n]...)
		go func() {
			r, _ := u.handle(w, "udp")
			if len(r) > 4096 { // a real server truncates: header + question with TC set
				m := new(dns.Msg)
				if m.Unpack(r) == nil {
					m.Answer, m.Ns, m.Extra, m.Truncated = nil, nil, nil, true
					r, _ = m.Pack()
				}
			}
			if r != nil {
				u.uc.WriteToUDP(r, ra)
			}
		}()
	}
}

func (u *fakeUp) serveTCP() {
	for {
		c, err := u.tl.Accept()
		if err != nil {
			return
		}
		go func() {
			defer c.Close()
			var wm sync.Mutex
			hdr := make([]byte, 2)
			for {
				if _, err := readFull(c, hdr); err != nil {
					return
				}
				body := make([]byte, binary.BigEndian.Uint16(hdr))
				if _, err := readFull(c, body); err != nil {
					return
				}
				go func() {
					r, fail := u.handle(body, "tcp")
					if fail {
						c.Close()
						return
					}
					if r != nil {
						f := make([]byte, 2+len(r))
						binary.BigEndian.PutUint16(f, uint16(len(r)))
						copy(f[2:], r)
						wm.Lock()
						c.Write(f)
						wm.Unlock()
					}
				}()
			}
		}()
	}
}

func readFull(c net.Conn, b []byte) (int, error) {
	n := 0
	for n < len(b) {
		k, err := c.Read(b[n:])
		n += k
		if err != nil {
			return n, err
		}
	}
	return n, nil
}
