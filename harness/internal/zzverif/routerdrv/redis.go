//go:build verif

package main

import (
	"bufio"
	"fmt"
	"io"
	"net"
	"strconv"
	"strings"
	"sync"
	"sync/atomic"
	"time"

	"github.com/IrineSistiana/mosproxy/internal/zzverif/vtrace"
)

// fakeRedis is a minimal RESP3 server: what the proxy's second-level cache needs (HELLO, CLIENT ..., PING,
// GET, SET key value [NX] [PX ms]) and nothing else. Keys expire lazily. `delay` slows every SET down (the
// proxy's store queue fills up and stores are dropped).
type fakeRedis struct {
	l     net.Listener
	mu    sync.Mutex
	data  map[string]redisVal
	delay atomic.Int64 // nanoseconds per SET
	// getPlan: delays for the next GETs (one entry per GET, in order; the server answers in order, so a delayed
	// reply holds back the ones behind it)
	getPlan chan time.Duration
	sets    atomic.Int64
	gets    atomic.Int64
	hits    atomic.Int64
}

type redisVal struct {
	v   []byte
	exp time.Time
}

func newFakeRedis() *fakeRedis {
	l, err := net.Listen("tcp", "127.0.0.1:0")
	if err != nil {
		panic(err)
	}
	r := &fakeRedis{l: l, data: map[string]redisVal{}, getPlan: make(chan time.Duration, 8)}
	go func() {
		for {
			c, err := l.Accept()
			if err != nil {
				return
			}
			go r.serve(c)
		}
	}()
	return r
}

func (r *fakeRedis) url() string { return "redis://" + r.l.Addr().String() }
func (r *fakeRedis) close()      { r.l.Close() }

func readCmd(br *bufio.Reader) ([][]byte, error) {
	line, err := br.ReadString('\n')
	if err != nil {
		return nil, err
	}
	line = strings.TrimRight(line, "\r\n")
	if len(line) == 0 || line[0] != '*' {
		return nil, fmt.Errorf("fake redis: not an array: %q", line)
	}
	n, err := strconv.Atoi(line[1:])
	if err != nil || n < 1 || n > 64 {
		return nil, fmt.Errorf("fake redis: bad array length %q", line)
	}
	args := make([][]byte, n)
	for i := range args {
		h, err := br.ReadString('\n')
		if err != nil {
			return nil, err
		}
		h = strings.TrimRight(h, "\r\n")
		if len(h) == 0 || h[0] != '$' {
			return nil, fmt.Errorf("fake redis: not a bulk string: %q", h)
		}
		l, err := strconv.Atoi(h[1:])
		if err != nil || l < 0 || l > 1<<20 {
			return nil, fmt.Errorf("fake redis: bad bulk length %q", h)
		}
		b := make([]byte, l+2)
		if _, err := io.ReadFull(br, b); err != nil {
			return nil, err
		}
		args[i] = b[:l]
	}
	return args, nil
}

func (r *fakeRedis) serve(c net.Conn) {
	defer c.Close()
	br := bufio.NewReader(c)
	bw := bufio.NewWriter(c)
	for {
		args, err := readCmd(br)
		if err != nil {
			return
		}
		switch strings.ToUpper(string(args[0])) {
		case "HELLO":
			bw.WriteString("%7\r\n$6\r\nserver\r\n$5\r\nredis\r\n$7\r\nversion\r\n$5\r\n7.0.0\r\n$5\r\nproto\r\n:3\r\n$2\r\nid\r\n:1\r\n$4\r\nmode\r\n$10\r\nstandalone\r\n$4\r\nrole\r\n$6\r\nmaster\r\n$7\r\nmodules\r\n*0\r\n")
		case "CLIENT":
			bw.WriteString("+OK\r\n")
		case "PING":
			bw.WriteString("+PONG\r\n")
		case "GET":
			r.gets.Add(1)
			r.mu.Lock()
			v, ok := r.data[string(args[1])]
			if ok && time.Now().After(v.exp) {
				delete(r.data, string(args[1]))
				ok = false
			}
			r.mu.Unlock()
			// the command is executed when it arrives; it is its reply that is slow (the network's doing)
			select {
			case d := <-r.getPlan:
				bw.Flush()
				time.Sleep(d)
			default:
			}
			if !ok {
				bw.WriteString("_\r\n")
			} else {
				r.hits.Add(1)
				fmt.Fprintf(bw, "$%d\r\n", len(v.v))
				bw.Write(v.v)
				bw.WriteString("\r\n")
			}
		case "SET":
			if d := r.delay.Load(); d > 0 {
				bw.Flush()
				time.Sleep(time.Duration(d))
			}
			r.sets.Add(1)
			nx, px := false, int64(0)
			for i := 3; i < len(args); i++ {
				switch strings.ToUpper(string(args[i])) {
				case "NX":
					nx = true
				case "PX":
					if i+1 < len(args) {
						px, _ = strconv.ParseInt(string(args[i+1]), 10, 64)
						i++
					}
				}
			}
			exp := time.Now().Add(time.Duration(px) * time.Millisecond)
			if px == 0 {
				exp = time.Now().Add(24 * time.Hour)
			}
			r.mu.Lock()
			old, present := r.data[string(args[1])]
			if present && time.Now().After(old.exp) {
				present = false
			}
			if nx && present {
				r.mu.Unlock()
				bw.WriteString("_\r\n")
			} else {
				r.data[string(args[1])] = redisVal{v: append([]byte(nil), args[2]...), exp: exp}
				r.mu.Unlock()
				bw.WriteString("+OK\r\n")
			}
		default:
			fmt.Fprintf(bw, "-ERR unknown command '%s'\r\n", args[0])
		}
		if br.Buffered() == 0 {
			if bw.Flush() != nil {
				return
			}
		}
	}
}

// C20 / C04 on the second-level cache's paths: stores queued for a slow server (the queue of 128 overflows and
// stores are dropped), hits served from redis and promoted to the memory cache, with the buffer pool's
// ownership hooks recording every buffer.
func modeC20Redis() {
	own = vtrace.NewOwn(workdir+"/own.ndjson", 16)
	defer own.T.Close()
	useRedis = "both"
	in, err := newInst("c20redis", instOpts{listeners: []string{"udp", "tcp"}, upstreams: map[string]string{"u1": "udp"},
		rules: []ruleSpec{{Forward: "u1"}}, cacheMem: 24 << 10})
	if err != nil {
		panic(err)
	}
	defer in.close()
	names := make([]string, 900)
	for i := range names {
		names[i] = fmt.Sprintf("%s.%s.rd.test.", uniq(), []string{"r0t60d0", "r0t60d2", "r3t20d0fA", "r2t0d0", "r0t60d0fM"}[i%5])
	}
	in.redis.delay.Store(int64(4 * time.Millisecond)) // ~250 stores/s against ~1500 queries/s
	par(24, func(w int) {
		for i := w; i < len(names); i += 24 {
			in.send([]string{"udp", "tcp"}[i%2], "", mkq(names[i]), 4*time.Second, nil)
		}
	})
	in.redis.delay.Store(0)
	time.Sleep(700 * time.Millisecond) // the queue drains
	// asked again: the small memory cache has lost most of them, redis has those that were not dropped
	par(24, func(w int) {
		for i := w; i < len(names); i += 24 {
			in.send([]string{"udp", "tcp"}[(i+1)%2], "", mkq(names[i]), 4*time.Second, nil)
		}
	})
}
