//go:build verif

package main

import (
	"fmt"
	"net"
	"os"
	"path/filepath"
	"strings"
	"sync"
	"time"

	"github.com/IrineSistiana/mosproxy/app/router"
	"github.com/IrineSistiana/mosproxy/internal/zzverif/vtrace"
)

func sockFDs() int {
	es, _ := os.ReadDir("/proc/self/fd")
	n := 0
	for _, e := range es {
		if l, err := os.Readlink("/proc/self/fd/" + e.Name()); err == nil && strings.HasPrefix(l, "socket:") {
			n++
		}
	}
	return n
}

func canBind(kind string, port int) bool {
	if kind == "udp" || kind == "quic" || kind == "udpth" {
		c, err := net.ListenUDP("udp", &net.UDPAddr{IP: net.IPv4(127, 0, 0, 1), Port: port})
		if err != nil {
			return false
		}
		c.Close()
		return true
	}
	l, err := net.Listen("tcp", fmt.Sprintf("127.0.0.1:%d", port))
	if err != nil {
		// a connection of the closed listener that is in TIME_WAIT (the listener had no SO_REUSEADDR) also refuses the
		// bind: that is no open socket of the proxy. Only when the kernel's socket table shows such a remnant on this
		// port is the refusal put down to it; otherwise a listening socket was there when Close returned.
		return tcpRemnant(port)
	}
	l.Close()
	return true
}

// tcpRemnant: is there a socket on this local port that is neither listening nor established (TIME_WAIT, FIN_WAIT, ...)?
func tcpRemnant(port int) bool {
	for _, f := range []string{"/proc/net/tcp", "/proc/net/tcp6"} {
		b, err := os.ReadFile(f)
		if err != nil {
			continue
		}
		for _, ln := range strings.Split(string(b), "\n")[1:] {
			fs := strings.Fields(ln)
			if len(fs) < 4 {
				continue
			}
			if strings.HasSuffix(fs[1], fmt.Sprintf(":%04X", port)) && fs[3] != "0A" && fs[3] != "01" {
				return true
			}
		}
	}
	return false
}

func modeC18() {
	tr := vtrace.Open(filepath.Join(workdir, "c18.ndjson"))
	defer tr.Close()
	u := newFakeUp("u1", func() *vtrace.T { return vtrace.OpenNull() })
	defer u.close()
	isUDP := func(k string) bool { return k == "udp" || k == "quic" }
	for ks, kinds := range [][]string{{"udp", "tcp", "http"}, {"fasthttp", "gnet", "quic"}, {"https", "fasthttp", "tls"}} {
		for _, fk := range []string{"inuse", "badproto", "badcert", "badcert-https"} {
			for pos := 1; pos <= 3; pos++ {
				if ks > 0 && fk != "inuse" && pos != 2 { // the other listener kinds: mainly as the ones already started
					continue
				}
				cfg := &router.Config{Upstreams: []router.UpstreamConfig{{Tag: "u1", Addr: "udp://" + u.addr}}, Rules: []router.RuleConfig{{Forward: "u1"}}}
				ports := make([]int, 3)
				mport := freePort(false)
				cfg.Metrics.Addr = fmt.Sprintf("127.0.0.1:%d", mport) // started before the listeners: released as well
				var blocker interface{ Close() error }
				for i, k := range kinds {
					ports[i] = freePort(isUDP(k))
					sc := router.ServerConfig{Protocol: k, Listen: fmt.Sprintf("127.0.0.1:%d", ports[i])}
					if k == "tls" || k == "https" || k == "quic" {
						sc.Tls.DebugUseTempCert = true
					}
					if i+1 == pos {
						switch fk {
						case "inuse":
							if isUDP(k) {
								c, err := net.ListenUDP("udp", &net.UDPAddr{IP: net.IPv4(127, 0, 0, 1), Port: ports[i]})
								if err != nil {
									panic(err)
								}
								blocker = c
							} else {
								l, err := net.Listen("tcp", sc.Listen)
								if err != nil {
									panic(err)
								}
								blocker = l
							}
						case "badproto":
							sc.Protocol = "bogus"
						case "badcert":
							sc.Protocol = "tls"
							sc.Tls.Cert, sc.Tls.Key = "/nonexistent/cert.pem", "/nonexistent/key.pem"
						case "badcert-https":
							sc.Protocol = "https"
							sc.Tls.Cert, sc.Tls.Key = "/nonexistent/cert.pem", "/nonexistent/key.pem"
						}
					}
					cfg.Servers = append(cfg.Servers, sc)
				}
				vr, err := router.VerifRun(cfg)
				es, panicked, started := "", false, err == nil
				if err != nil {
					es = err.Error()
					panicked = strings.HasPrefix(es, "panic:")
				}
				if vr != nil {
					vr.Close()
				}
				time.Sleep(150 * time.Millisecond)
				rebound := true
				for i, k := range kinds {
					if i+1 < pos && !canBind(k, ports[i]) {
						rebound = false
					}
					// the listener that failed holds nothing either (its port was never ours when it was in use)
					if i+1 == pos && fk != "inuse" && !canBind(map[bool]string{true: "udp", false: "tcp"}[isUDP(k) && fk == "badproto"], ports[i]) {
						rebound = false
						es += " [the failing listener left its socket open]"
					}
				}
				if !canBind("tcp", mport) {
					rebound = false
					es += " [metrics endpoint still listening]"
				}
				if blocker != nil {
					blocker.Close()
				}
				if !rebound {
					es += fmt.Sprintf(" [listeners %v]", kinds)
				}
				tr.Emit("boot18", "kind", fk, "pos", pos, "started", started, "panicked", panicked, "rebound", rebound, "err", es)
			}
		}
	}
	// start-up errors in the upstream / domain-set part of the configuration with upstreams that own a socket
	// from the moment they are built (quic, h3): everything built so far is released
	for _, kind := range []string{"dupup-quic", "dupup-h3", "unkfwd-quic", "badset-quic", "badtag-quic", "badtag-h3"} {
		time.Sleep(100 * time.Millisecond)
		base := sockFDs()
		scheme := "quic"
		if strings.HasSuffix(kind, "h3") {
			scheme = "h3"
		}
		cfg := &router.Config{Upstreams: []router.UpstreamConfig{{Tag: "main", Addr: "udp://" + u.addr}, {Tag: "backup", Addr: scheme + "://127.0.0.1:5353"}},
			Rules:   []router.RuleConfig{{Forward: "main"}},
			Servers: []router.ServerConfig{{Protocol: "udp", Listen: fmt.Sprintf("127.0.0.1:%d", freePort(true))}}}
		switch {
		case strings.HasPrefix(kind, "dupup"):
			cfg.Upstreams = append(cfg.Upstreams, router.UpstreamConfig{Tag: "main", Addr: scheme + "://127.0.0.1:5354"})
		case strings.HasPrefix(kind, "unkfwd"):
			cfg.Rules = append(cfg.Rules, router.RuleConfig{Forward: "nowhere"})
		case strings.HasPrefix(kind, "badtag"):
			// a tag that is no valid UTF-8: the upstream is built (and owns its socket), then its metrics cannot be registered
			cfg.Upstreams[1].Tag = "back\xffup"
		case strings.HasPrefix(kind, "badset"):
			cfg.DomainSets = []router.DomainSetConfig{{Tag: "s", Files: []string{"/nonexistent/set.txt"}}}
		}
		vr, err := router.VerifRun(cfg)
		es, panicked, started := "", false, err == nil
		if err != nil {
			es = err.Error()
			panicked = strings.HasPrefix(es, "panic:")
		}
		if vr != nil {
			vr.Close()
		}
		time.Sleep(250 * time.Millisecond)
		tr.Emit("boot18", "kind", kind, "pos", 0, "started", started, "panicked", panicked, "rebound", sockFDs() <= base, "err", es, "fds", sockFDs(), "basefds", base)
	}
	// whole router: all listener kinds, a few queries, then close - once with nothing going on (what Close leaves
	// behind at the very moment it returns), once with a query in flight on every listener
	whole := func(inflight bool) {
		base := sockFDs()
		all18 := append(append([]string{}, allListeners...), "udpth") // + a UDP listener with three threads (sockets)
		in, err := newInst(map[bool]string{false: "c18-all", true: "c18-busy"}[inflight], instOpts{listeners: all18, upstreams: map[string]string{"u1": "udp", "u2": "tcp", "u3": "tcp+pipeline"},
			rules: []ruleSpec{{Set: "", Forward: "u1"}}, cacheMem: 1 << 20, metrics: true})
		if err != nil {
			panic(err)
		}
		for _, lst := range all18 {
			in.send(lst, "", mkq(uniq()+".r0t60d0.z1.test."), 3*time.Second, nil)
		}
		// queries in flight on every listener when Close is called: the upstream never answers them
		var inflMu sync.Mutex
		var inflWG sync.WaitGroup
		inflLate := []string{}
		var t0 time.Time
		for _, lst := range all18 {
			if !inflight {
				break
			}
			lst := lst
			inflWG.Add(1)
			go func() {
				defer inflWG.Done()
				w := mkq(uniq() + ".r0t60d0fS.z1.test.").wire()
				wait := 9 * time.Second
				dgram := lst == "udp" || lst == "udpth" // nothing tells a datagram client that its query is over
				if dgram {
					wait = 2 * time.Second
				}
				in.roundTrip(lst, "", w, wait, nil)
				inflMu.Lock()
				if !dgram && !t0.IsZero() && time.Since(t0) > 3*time.Second {
					inflLate = append(inflLate, lst)
				}
				inflMu.Unlock()
			}()
		}
		time.Sleep(500 * time.Millisecond)
		inflMu.Lock()
		t0 = time.Now()
		inflMu.Unlock()
		cerr := in.vr.Close()
		dur := int(time.Since(t0) / time.Millisecond)
		// no listening socket is left when Close has returned: every address can be bound again at once
		nowBound := []string{}
		for _, lst := range append([]string{"metrics"}, all18...) {
			if !canBind(lst, in.ports[lst]) {
				nowBound = append(nowBound, lst)
			}
		}
		inflWG.Wait()
		cerr2 := in.vr.Close() // idempotent
		in.vr = nil
		for _, fu := range in.ups {
			fu.close()
		}
		time.Sleep(600 * time.Millisecond)
		rebound := true
		notRebound := []string{}
		for _, lst := range append([]string{"metrics"}, all18...) {
			if !canBind(lst, in.ports[lst]) {
				rebound = false
				notRebound = append(notRebound, lst)
			}
		}
		ps := ""
		if cerr != nil {
			ps = cerr.Error()
		}
		if cerr2 != nil {
			ps += " / second close: " + cerr2.Error()
		}
		// the instance's own trace file and the fake upstream sockets are closed by now
		in.tr.Close()
		instMu.Lock()
		insts = nil
		instMu.Unlock()
		time.Sleep(100 * time.Millisecond)
		tr.Emit("rclose", "dur", dur, "panic", ps, "rebound", rebound, "stillbound", notRebound, "boundatreturn", nowBound, "infllate", inflLate, "fds", sockFDs(), "basefds", base)
	}
	whole(false)
	time.Sleep(300 * time.Millisecond)
	whole(true)
}
