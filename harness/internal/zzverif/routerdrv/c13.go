//go:build verif

package main

import (
	"bytes"
	"crypto/tls"
	"encoding/binary"
	"encoding/json"
	"fmt"
	"io"
	"math/rand"
	"net"
	"os"
	"sync"
	"time"

	"github.com/IrineSistiana/mosproxy/internal/zzverif/vtrace"
	"github.com/miekg/dns"
)

// cut point kinds inside frame i: 1 = inside the length prefix, 2 = between prefix and body,
// 3 = inside the body, 4 = at the end of the frame
type cutPoint struct {
	Frame int `json:"f"`
	Kind  int `json:"k"`
}

var connCtr int

// streamBarrier: runStream holds the upstream's replies to all queries of a connection and lets them go at once
var streamBarrier bool

func streamConn(in *inst, lst string) (net.Conn, error) {
	addr := fmt.Sprintf("127.0.0.1:%d", in.ports[lst])
	c, err := net.DialTimeout("tcp", addr, 3*time.Second)
	if err != nil {
		return nil, err
	}
	c.(*net.TCPConn).SetNoDelay(true)
	if lst == "tls" {
		tc := tls.Client(c, &tls.Config{InsecureSkipVerify: true})
		if err := tc.Handshake(); err != nil {
			return nil, err
		}
		return tc, nil
	}
	return c, nil
}

// runStream pipelines k queries on one connection, cut as requested, and records the whole return stream.
func runStream(in *inst, lst string, k int, cuts []cutPoint, mode string, delayLab func(i int) string, rng *rand.Rand, limit int) {
	instMu.Lock()
	connCtr++
	conn := connCtr
	instMu.Unlock()
	var stream []byte
	var ids []int
	var names [][][]int
	var barrier chan struct{}
	if streamBarrier {
		barrier = make(chan struct{})
	}
	bounds := []int{} // frame start offsets
	for i := 0; i < k; i++ {
		q := mkq(fmt.Sprintf("%s.%s.fr.test.", uniq(), delayLab(i)))
		q.id = uint16(3000 + conn*37 + i)
		if barrier != nil {
			in.ups["u1"].holdWith(q.name, barrier)
		}
		if i%3 == 1 {
			q.opt = true
		}
		w := q.wire()
		bounds = append(bounds, len(stream))
		f := make([]byte, 2+len(w))
		binary.BigEndian.PutUint16(f, uint16(len(w)))
		copy(f[2:], w)
		stream = append(stream, f...)
		ids = append(ids, int(q.id))
		names = append(names, labelsJS(q.name))
	}
	bounds = append(bounds, len(stream))
	cutSet := map[int]bool{}
	switch mode {
	case "bytes":
		for i := 1; i < len(stream); i++ {
			cutSet[i] = true
		}
	case "one":
	case "random":
		for i := 0; i < 2+rng.Intn(2*k+2); i++ {
			cutSet[1+rng.Intn(len(stream)-1)] = true
		}
	default:
		for _, cp := range cuts {
			if cp.Frame > k {
				continue
			}
			s, e := bounds[cp.Frame-1], bounds[cp.Frame]
			switch cp.Kind {
			case 1:
				cutSet[s+1] = true
			case 2:
				cutSet[s+2] = true
			case 3:
				cutSet[s+3+rng.Intn(e-s-4)] = true
			case 4:
				if e < len(stream) {
					cutSet[e] = true
				}
			}
		}
	}
	c, err := streamConn(in, lst)
	if err != nil {
		in.tr.Emit("c13.err", "conn", conn, "err", err.Error())
		return
	}
	defer c.Close()
	in.tr.Emit("c13.conn", "conn", conn, "lst", lst, "ids", ids, "names", names, "limit", limit, "mode", mode, "ncuts", len(cutSet))
	done := make(chan []byte, 1)
	go func() {
		var got []byte
		buf := make([]byte, 65536)
		frames := 0
		for frames < k {
			c.SetReadDeadline(time.Now().Add(4 * time.Second))
			n, err := c.Read(buf)
			got = append(got, buf[:n]...)
			// count complete frames so far
			frames = 0
			for o := 0; o+2 <= len(got); {
				l := int(binary.BigEndian.Uint16(got[o:]))
				if o+2+l > len(got) {
					break
				}
				o += 2 + l
				frames++
			}
			if err != nil {
				break
			}
		}
		done <- got
	}()
	prev := 0
	for i := 1; i <= len(stream); i++ {
		if i == len(stream) || cutSet[i] {
			c.Write(stream[prev:i])
			prev = i
			if i < len(stream) {
				if mode == "bytes" {
					time.Sleep(300 * time.Microsecond)
				} else {
					time.Sleep(2 * time.Millisecond)
				}
			}
		}
	}
	if barrier != nil {
		time.Sleep(80 * time.Millisecond) // every query is waiting at the upstream by now
		close(barrier)
	}
	got := <-done
	in.tr.Emit("c13.ret", "conn", conn, "bytes", vtrace.Bytes(got))
}

func modeC13(cutsFile string, thorough bool) {
	var cutSets [][]cutPoint
	if cutsFile != "" {
		raw, _ := os.ReadFile(cutsFile)
		if err := json.Unmarshal(raw, &cutSets); err != nil {
			panic(err)
		}
	}
	rng := rand.New(rand.NewSource(seed))
	lsts := []string{"tcp", "gnet", "tls"}
	mk := func(tag string, maxc int32) *inst {
		in, err := newInst(tag, instOpts{listeners: lsts, upstreams: map[string]string{"u1": "udp"}, rules: []ruleSpec{{Forward: "u1"}}, maxConc: maxc})
		if err != nil {
			panic(err)
		}
		return in
	}
	fast := func(i int) string { return fmt.Sprintf("r0t60d%d", []int{0, 12, 3, 25, 7}[i%5]) }
	in := mk("c13", 0)
	// TLC-generated cut sets (classes of cut points for up to 3 frames), each on every stream listener
	sem := make(chan struct{}, 8)
	done := make(chan struct{}, 4096)
	n := 0
	for ci, cs := range cutSets {
		for li, lst := range lsts {
			if !thorough && (ci+li)%3 != 0 {
				continue
			}
			n++
			sem <- struct{}{}
			go func(cs []cutPoint, lst string, s int64) {
				runStream(in, lst, 3, cs, "cuts", fast, rand.New(rand.NewSource(s)), 100)
				<-sem
				done <- struct{}{}
			}(cs, lst, seed+int64(ci*7+li))
		}
	}
	for i := 0; i < n; i++ {
		<-done
	}
	for _, lst := range lsts {
		runStream(in, lst, 2, nil, "bytes", fast, rng, 100)
		runStream(in, lst, 5, nil, "bytes", fast, rng, 100)
		runStream(in, lst, 8, nil, "one", fast, rng, 100)
		for i := 0; i < 6; i++ {
			runStream(in, lst, 3+rng.Intn(6), nil, "random", fast, rng, 100)
		}
		if thorough {
			runStream(in, lst, 50, nil, "random", fast, rng, 100)
		}
	}
	// connections that die inside a frame (inside the length prefix, inside the body) leave nothing behind: the
	// connections that come after them start at a frame boundary
	for _, lst := range lsts {
		w := mkq(uniq() + ".r0t60d0.fr.test.").wire()
		f := make([]byte, 2+len(w))
		binary.BigEndian.PutUint16(f, uint16(len(w)))
		copy(f[2:], w)
		for _, cut := range []int{1, 9, len(f) - 1} {
			if c, err := streamConn(in, lst); err == nil {
				c.Write(f[:cut])
				time.Sleep(15 * time.Millisecond)
				c.Close()
			}
			time.Sleep(15 * time.Millisecond)
			for k := 0; k < 3; k++ {
				runStream(in, lst, 1+k, nil, "one", fast, rng, 100)
			}
		}
	}
	// many pipelined queries whose upstream answers arrive at the same instant: the handlers of one connection
	// finish together, and still every response is one contiguous frame (several connections at once)
	same := func(i int) string { return "r0t60d0" }
	{
		streamBarrier = true
		var wg sync.WaitGroup
		for _, lst := range lsts {
			for k := 0; k < map[string]int{"tls": 24, "tcp": 4, "gnet": 4}[lst]; k++ {
				wg.Add(1)
				go func(lst string, s int64) {
					defer wg.Done()
					runStream(in, lst, 20, nil, "one", same, rand.New(rand.NewSource(s)), 100)
				}(lst, seed+int64(k))
			}
		}
		wg.Wait()
		streamBarrier = false
	}
	in.close()
	// per-connection limit: queries beyond it are answered REFUSED, not dropped
	in2 := mk("c13-limit", 2)
	slow := func(i int) string { return "r0t60d150" }
	for _, lst := range lsts {
		runStream(in2, lst, 6, nil, "one", slow, rng, 2)
		runStream(in2, lst, 5, nil, "random", slow, rng, 2)
	}
	in2.close()
	// an answer that fits a frame (65530 octets) until the proxy adds its OPT: the response must be cut to
	// 65535 octets with TC, and the frames after it must still be found where the length prefixes say
	in3 := mk("c13-huge", 0)
	huge := func(i int) string {
		if i == 1 { // the second query of a connection carries an OPT
			return "r0t60d0fH"
		}
		return "r0t60d4"
	}
	for _, lst := range lsts {
		if lst == "gnet" || thorough {
			runStream(in3, lst, 4, nil, "random", huge, rng, 100)
		}
		if lst != "gnet" || thorough {
			runStream(in3, lst, 3, nil, "one", huge, rng, 100)
		}
	}
	in3.close()
	// a connection that is never idle but whose segments always end inside a frame, for longer than the
	// listener's idle time-out: nothing is dropped
	in4, err := newInst("c13-slow", instOpts{listeners: lsts, upstreams: map[string]string{"u1": "udp"}, rules: []ruleSpec{{Forward: "u1"}}, idleTimeout: 1})
	if err != nil {
		panic(err)
	}
	done4 := make(chan struct{}, 3)
	for _, lst := range lsts {
		go func(lst string) { runSlowStream(in4, lst, 22, 110*time.Millisecond); done4 <- struct{}{} }(lst)
	}
	for range lsts {
		<-done4
	}
	// an earlier query still in flight, and the client pauses inside the next frame for longer than the idle
	// time-out; the paused frame carries (as EDNS padding) octets that would read as a frame of their own.
	// Whatever the proxy does about the pause (it may close the connection), it never answers a query nobody sent
	for _, lst := range lsts {
		runStallStream(in4, lst, false)
	}
	// the same with the pause right behind the length prefix; the late body begins with an ID that reads as the
	// length of a frame (12: a bare header)
	for _, lst := range lsts {
		runStallStream(in4, lst, true)
	}
	in4.close()
	_ = io.EOF
	_ = dns.TypeA
}

func runStallStream(in *inst, lst string, atPrefix bool) {
	instMu.Lock()
	connCtr++
	conn := connCtr
	instMu.Unlock()
	frame := func(w []byte) []byte {
		f := make([]byte, 2+len(w))
		binary.BigEndian.PutUint16(f, uint16(len(w)))
		copy(f[2:], w)
		return f
	}
	qa := mkq(fmt.Sprintf("%s.r0t60d2500.fr.test.", uniq()))
	qa.id = uint16(6000 + conn*3)
	smug := mkq(fmt.Sprintf("smuggled-%s.r0t60d0.fr.test.", uniq()))
	smug.id = uint16(6000 + conn*3 + 2)
	inner := frame(smug.wire())
	mb := new(dns.Msg)
	bname := fmt.Sprintf("%s.r0t60d0.fr.test.", uniq())
	mb.SetQuestion(bname, dns.TypeA)
	mb.Id = uint16(6000 + conn*3 + 1)
	o := &dns.OPT{Hdr: dns.RR_Header{Name: ".", Rrtype: dns.TypeOPT}}
	o.SetUDPSize(1232)
	o.Option = append(o.Option, &dns.EDNS0_PADDING{Padding: inner})
	mb.Extra = append(mb.Extra, o)
	if atPrefix {
		// a query for the root, no OPT, ID 12: read from its third octet on, the first 12 octets of its body are a
		// message of their own (ID 0x0100, no question)
		mb = new(dns.Msg)
		bname = "."
		mb.SetQuestion(bname, dns.TypeA)
		mb.Id = 12
	}
	wb, _ := mb.Pack()
	fb := frame(wb)
	cut := bytes.Index(fb, inner)
	if atPrefix {
		cut = 2
	}
	if cut < 0 {
		return
	}
	c, err := streamConn(in, lst)
	if err != nil {
		in.tr.Emit("c13.err", "conn", conn, "err", err.Error())
		return
	}
	defer c.Close()
	in.tr.Emit("c13.conn", "conn", conn, "lst", lst, "ids", []int{int(qa.id), int(mb.Id)}, "names", [][][]int{labelsJS(qa.name), labelsJS(bname)},
		"limit", 100, "mode", "stall", "ncuts", 1)
	done := make(chan []byte, 1)
	go func() {
		var got []byte
		buf := make([]byte, 65536)
		for {
			c.SetReadDeadline(time.Now().Add(4500 * time.Millisecond))
			n, err := c.Read(buf)
			got = append(got, buf[:n]...)
			if err != nil {
				break
			}
		}
		done <- got
	}()
	c.Write(frame(qa.wire()))
	time.Sleep(30 * time.Millisecond)
	c.Write(fb[:cut])
	time.Sleep(1300 * time.Millisecond)
	c.Write(fb[cut:])
	got := <-done
	in.tr.Emit("c13.ret", "conn", conn, "bytes", vtrace.Bytes(got))
}

// runSlowStream sends k queries as k+1 segments, one every `gap`, each segment ending in the middle of a frame.
func runSlowStream(in *inst, lst string, k int, gap time.Duration) {
	instMu.Lock()
	connCtr++
	conn := connCtr
	instMu.Unlock()
	var stream []byte
	var ids []int
	var names [][][]int
	var mids []int
	for i := 0; i < k; i++ {
		q := mkq(fmt.Sprintf("%s.r0t60d0.fr.test.", uniq()))
		q.id = uint16(5000 + conn*41 + i)
		w := q.wire()
		f := make([]byte, 2+len(w))
		binary.BigEndian.PutUint16(f, uint16(len(w)))
		copy(f[2:], w)
		mids = append(mids, len(stream)+2+len(w)/2)
		stream = append(stream, f...)
		ids = append(ids, int(q.id))
		names = append(names, labelsJS(q.name))
	}
	c, err := streamConn(in, lst)
	if err != nil {
		in.tr.Emit("c13.err", "conn", conn, "err", err.Error())
		return
	}
	defer c.Close()
	in.tr.Emit("c13.conn", "conn", conn, "lst", lst, "ids", ids, "names", names, "limit", 100, "mode", "slow", "ncuts", k)
	done := make(chan []byte, 1)
	go func() {
		var got []byte
		buf := make([]byte, 65536)
		for {
			c.SetReadDeadline(time.Now().Add(time.Duration(k+20) * gap))
			n, err := c.Read(buf)
			got = append(got, buf[:n]...)
			frames := 0
			for o := 0; o+2 <= len(got); {
				l := int(binary.BigEndian.Uint16(got[o:]))
				if o+2+l > len(got) {
					break
				}
				o += 2 + l
				frames++
			}
			if err != nil || frames >= k {
				break
			}
		}
		done <- got
	}()
	prev := 0
	for _, m := range append(mids, len(stream)) {
		if _, err := c.Write(stream[prev:m]); err != nil {
			break
		}
		prev = m
		time.Sleep(gap)
	}
	got := <-done
	in.tr.Emit("c13.ret", "conn", conn, "bytes", vtrace.Bytes(got))
}
