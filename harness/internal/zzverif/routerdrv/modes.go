//go:build verif

package main

import (
	"crypto/tls"
	"encoding/binary"
	"encoding/json"
	"fmt"
	"io"
	"math/rand"
	"net"
	"net/netip"
	"os"
	"runtime"
	"strings"
	"sync"
	"sync/atomic"
	"time"

	"github.com/IrineSistiana/mosproxy/app/router"
	"github.com/IrineSistiana/mosproxy/internal/zzverif/vtrace"
	"github.com/miekg/dns"
)

var allListeners = []string{"udp", "tcp", "gnet", "tls", "http", "https", "fasthttp", "quic"}

var qSerial int32

func uniq() string { return fmt.Sprintf("q%d", qnCtr.Add(1)+100000) }

func par(n int, f func(i int)) {
	var wg sync.WaitGroup
	for i := 0; i < n; i++ {
		wg.Add(1)
		go func(i int) { defer wg.Done(); f(i) }(i)
	}
	wg.Wait()
}

// standard zones: z1 -> set s1, z2 -> set s2, z3 in no set
func stdSets() map[string][]string {
	// a parent listed before one of its sub-domains (s1) and after one (s2): both orders must keep the parent
	// (the matcher keeps labels longer than 24 octets in a second table: the same two orders there)
	return map[string][]string{"s1": {"domain:z1.test", "# comment", "domain:www.z1.test", "img.a-label-of-more-than-24-octets.z1x.test", "a-label-of-more-than-24-octets.z1x.test"},
		"s2": {"deep.sub.z2.test", "z2.test", "full:exact.z3.test", "another-label-of-more-than-24-octets.z2x.test", "cdn.another-label-of-more-than-24-octets.z2x.test"}}
}

// ---------------------------------------------------------------- C03 (+C12 response side, C04 light)
func modeC03(thorough bool) {
	in, err := newInst("c03", instOpts{
		listeners: append(append([]string{}, allListeners...), "udpmr", "udpth"),
		upstreams: map[string]string{"u1": "udp", "u2": "tcp", "u3": "tcp+pipeline"},
		sets:      map[string][]string{"s1": {"domain:z1.test"}, "s2": {"domain:z2.test"}, "s3": {"domain:z3.test"}, "s4": {"domain:z4.test"}, "s5": {"domain:z5.test"}},
		rules:     []ruleSpec{{Set: "s1", Forward: "u1"}, {Set: "s2", Forward: "u2"}, {Set: "s3", Reject: 3}, {Set: "s4"}, {Set: "s5", Forward: "u3"}},
	})
	if err != nil {
		panic(err)
	}
	defer in.close()
	type job struct {
		lst string
		q   qspec
		hdr map[string]string
	}
	var jobs []job
	outcomes := []string{"r0t60d0", "r2t0d0", "r3t10d0fA", "r5t0d0", "r0t60d30", "r0t5d0fG", "r0t5d0fC", "r0t5d0fS", "r0t60d0fO", "r0t60d0fT"}
	zones := []string{"z1", "z2", "z5"}
	k := 0
	for _, lst := range allListeners {
		for _, oc := range outcomes {
			for zi, z := range zones {
				if !thorough && (k+zi)%3 != 0 && oc != "r0t5d0fS" {
					continue
				}
				q := mkq(fmt.Sprintf("%s.%s.%s.test.", uniq(), oc, z))
				q.opt = k%2 == 0
				q.optopts = k%4 == 0
				q.id = uint16(1000 + k*13)
				jobs = append(jobs, job{lst: lst, q: q})
			}
			k++
		}
		// unsupported queries and rule outcomes
		base := func(z string) qspec {
			q := mkq(fmt.Sprintf("%s.r0t60d0.%s.test.", uniq(), z))
			q.id = uint16(2000 + len(jobs))
			return q
		}
		q1 := base("z1")
		q1.rd = false
		q2 := base("z1")
		q2.opcode = 2
		q3 := base("z1")
		q3.nq = 2
		q4 := base("z1")
		q4.nq = 0
		q5 := base("z1")
		q5.opt, q5.rd = true, false
		q6 := base("z3") // reject 3
		q7 := base("z4") // rule without action
		q8 := base("z9") // no rule
		q9 := base("z1")
		q9.name = "MiXeD." + q9.name // case-insensitive question echo
		q10 := base("z1")
		q10.opcode, q10.opt = 5, true
		q11 := base("z3")
		q11.opt = true
		q12 := base("z1")
		q12.typ = dns.TypeAAAA
		q13 := base("z1")
		q13.cls = dns.ClassCHAOS
		for _, q := range []qspec{q1, q2, q3, q4, q5, q6, q7, q8, q9, q10, q11, q12, q13} {
			jobs = append(jobs, job{lst: lst, q: q})
		}
		if lst == "http" || lst == "https" || lst == "fasthttp" {
			jobs = append(jobs, job{lst: lst, q: base("z1"), hdr: map[string]string{"method": "GET"}})
		}
		if lst == "http" || lst == "fasthttp" {
			for _, hc := range []string{"lower", "upper"} {
				jobs = append(jobs, job{lst: lst, q: base("z1"), hdr: map[string]string{"method": "GET", "hdrcase": hc}},
					job{lst: lst, q: base("z2"), hdr: map[string]string{"method": "POST", "hdrcase": hc}})
			}
			// a POST whose body has no announced length (chunked transfer encoding)
			jobs = append(jobs, job{lst: lst, q: base("z2"), hdr: map[string]string{"method": "POST", "hdrcase": "asis", "chunked": "1"}})
		}
	}
	// a plain (UDP) upstream whose truncated answer comes late (3.5 s) and whose TCP side then says nothing: two
	// faults in a row, one deadline - the response (SERVFAIL) is there 6 s after the query
	for _, lst := range []string{"udp", "tcp"} {
		ln := fmt.Sprintf("%s.r0t60d0.z1.test.", uniq())
		in.ups["u1"].setSeq(ln, "r0t60d3500fT", "r0t60d0fS", "r0t60d0fS")
		jobs = append(jobs, job{lst: lst, q: mkq(ln)})
	}
	par(len(jobs), func(i int) {
		time.Sleep(time.Duration(i%40) * 5 * time.Millisecond)
		in.send(jobs[i].lst, "", jobs[i].q, 9*time.Second, jobs[i].hdr)
	})
	// with the cache on: the same name and type in another class is another question
	if inc, err := newInst("c03-cache", instOpts{listeners: []string{"udp", "tcp"}, upstreams: map[string]string{"u1": "udp"}, rules: []ruleSpec{{Forward: "u1"}}, cacheMem: 1 << 20}); err == nil {
		for k := 0; k < 3; k++ {
			n := fmt.Sprintf("%s.r0t60d0.cl.test.", uniq())
			for _, c := range []uint16{dns.ClassINET, dns.ClassCHAOS, dns.ClassHESIOD, dns.ClassCHAOS, dns.ClassINET} {
				q := mkq(n)
				q.cls = c
				q.typ = []uint16{dns.TypeA, dns.TypeTXT, dns.TypeA}[k]
				inc.send([]string{"udp", "tcp"}[k%2], "", q, 3*time.Second, nil)
			}
		}
		inc.close()
	}
	// an upstream reply of 65530 octets to a client with EDNS0 on the stream listeners: with the proxy's own OPT the
	// response no longer fits a frame. It is cut (TC) - never sent under a length prefix that wrapped around
	for _, lst := range []string{"tcp", "tls", "gnet", "quic"} {
		hn := fmt.Sprintf("h%s.z2.test.", lst)
		in.ups["u2"].setSeq(hn, "r0t60d0fH")
		hq := mkq(hn)
		hq.opt = true
		if lst == "quic" {
			hq.id = 0
		}
		in.send(lst, "", hq, 4*time.Second, nil)
	}
	// a short idle time-out (1 s) and an upstream that takes 2.5 s: a connection with a query in flight is not
	// idle - the client keeps it open and gets its response on it
	if ini, err := newInst("c03-idle", instOpts{listeners: []string{"tcp", "gnet", "tls", "quic", "http", "https", "fasthttp"}, upstreams: map[string]string{"u1": "udp"}, rules: []ruleSpec{{Forward: "u1"}}, idleTimeout: 1}); err == nil {
		par(7, func(i int) {
			lst := []string{"tcp", "gnet", "tls", "quic", "http", "https", "fasthttp"}[i]
			ini.send(lst, "", mkq(fmt.Sprintf("%s.r0t60d2500.idle.test.", uniq())), 5*time.Second, nil)
		})
		ini.close()
	}
	goneScenario()
	// a UDP client that advertises 65535 octets and an answer of 65508..65535 octets: legal for the advertised
	// size, impossible as one datagram. The client still gets a response, and the listener keeps answering.
	for k := 0; k < 2; k++ {
		// (a short name: the proxy decides with the uncompressed record length whether a record still fits)
		jn := fmt.Sprintf("j%d.z2.test.", k)
		in.ups["u2"].setSeq(jn, "r0t60d0fJ", "r0t60d0fJ")
		jq := mkq(jn)
		jq.opt, jq.optsize = true, 65535
		in.send("udp", "", jq, 4*time.Second, nil)
		par(6, func(i int) { in.send("udp", "", mkq(fmt.Sprintf("%s.r0t60d0.z1.test.", uniq())), 3*time.Second, nil) })
	}
	// pipelined batches: several complete frames in one segment on every stream listener
	par(9, func(i int) {
		lst := []string{"gnet", "tcp", "tls"}[i%3]
		var qs []qspec
		for k := 0; k < 8; k++ {
			q := mkq(fmt.Sprintf("%s.%s.%s.test.", uniq(), []string{"r0t60d0", "r0t60d15", "r3t10d0fA", "r0t60d4"}[k%4], []string{"z1", "z2", "z5", "z3"}[k%4]))
			q.id = uint16(9000 + i*16 + k)
			q.opt = k%2 == 0
			qs = append(qs, q)
		}
		in.sendBatch(lst, "", qs, 8*time.Second)
	})
	// more queries on one DoQ connection than the listener allows streams at a time, FINs in frames of their own
	{
		var qs []qspec
		for k := 0; k < 130; k++ {
			q := mkq(fmt.Sprintf("%s.r0t60d0.z1.test.", uniq()))
			q.id = 0 // DoQ: the message ID is 0 on the wire
			qs = append(qs, q)
		}
		in.sendQuicSeries(qs, 3*time.Second)
	}
	// wildcard UDP listener with multi_routes: the response comes from the address the query was sent to
	par(6, func(i int) {
		in.send("udpmr", []string{"127.0.0.1", "127.0.0.2", "127.0.0.3"}[i%3], mkq(fmt.Sprintf("%s.r0t60d0.z1.test.", uniq())), 3*time.Second, nil)
	})
	// UDP listener with three reader threads (three SO_REUSEPORT sockets on one address): clients on many source
	// ports reach all of them; each is answered on the socket it wrote to
	par(24, func(i int) {
		for k := 0; k < 3; k++ {
			in.send("udpth", "", mkq(fmt.Sprintf("%s.r0t60d0.z1.test.", uniq())), 3*time.Second, nil)
		}
	})
	// a query whose response cannot be delivered (source port 0: sendmsg fails): the listener keeps answering
	if in.sendFromPort0(mkq(fmt.Sprintf("%s.r0t60d0.z1.test.", uniq())).wire()) {
		time.Sleep(50 * time.Millisecond)
		par(6, func(i int) { in.send("udp", "", mkq(fmt.Sprintf("%s.r0t60d0.z1.test.", uniq())), 3*time.Second, nil) })
	}
	time.Sleep(100 * time.Millisecond)
}

// ---------------------------------------------------------------- C10: rule lists

func modeC10(rulesFile string) {
	raw, err := os.ReadFile(rulesFile)
	if err != nil {
		panic(err)
	}
	var lists [][]ruleSpec
	if err := json.Unmarshal(raw, &lists); err != nil {
		panic(err)
	}
	sem := make(chan struct{}, 12)
	var wg sync.WaitGroup
	for li, rl := range lists {
		wg.Add(1)
		sem <- struct{}{}
		go func(li int, rl []ruleSpec) {
			defer wg.Done()
			defer func() { <-sem }()
			in, err := newInst(fmt.Sprintf("c10-%04d", li), instOpts{
				listeners: []string{"udp", "tcp"},
				upstreams: map[string]string{"u1": "udp", "u2": "tcp"},
				sets:      stdSets(),
				rules:     rl,
				cacheMem:  (li % 2) * 1 << 20,
			})
			if err != nil {
				in.tr.Emit("boot.err", "err", err.Error())
				in.close()
				return
			}
			names := []string{"a.z1.test.", "z1.test.", "b.z2.test.", "exact.z3.test.", "other.z3.test.", "z9.test.", "A.Z1.TEST.",
				"a-label-of-more-than-24-octets.z1x.test.", "js.a-label-of-more-than-24-octets.z1x.test.", "x.another-label-of-more-than-24-octets.z2x.test.",
				// names of many labels (a reverse-lookup name has 34): every label counts, the set's entry is at the far end
				"1.0.0.0.0.0.0.0.0.0.0.0.0.0.0.0.0.0.0.0.0.0.0.0.8.b.d.0.1.0.0.2.z1.test.", "f.e.d.c.b.a.9.8.7.6.5.4.3.2.1.0.z2.test.",
				"a.b.c.d.e.f.g.h.i.j.k.l.m.n.o.p.q.r.s.t.u.v.w.x.y.z.other.z3.test.",
				// octets above 0x7f in long labels (UTF-8 as it comes, Latin-1): lower-casing is for A-Z only
				"caf\\195\\169-soci\\195\\169t\\195\\169-CAF\\195\\137.z1.test.", "\\216\\167\\217\\132\\216\\185\\216\\177\\216\\168-Long-Label.z2.test.",
				"\\193\\194\\200\\218\\219\\192ABCDEFGH\\201\\202.other.z3.test."}
			par(len(names), func(i int) {
				lst := []string{"udp", "tcp"}[i%2]
				q := mkq(uniq() + ".r0t60d0." + names[i])
				if names[i] == "exact.z3.test." || names[i] == "z1.test." || strings.Contains(names[i], "24-octets") {
					q = mkq(names[i])
				}
				q.id = uint16(li*16 + i)
				q.typ = []uint16{dns.TypeA, dns.TypeAAAA, dns.TypeTXT}[i%3]
				in.send(lst, "", q, 8*time.Second, nil)
				if i%3 == 0 { // repeat: may come from cache, must not reach another upstream
					in.send(lst, "", q, 8*time.Second, nil)
				}
			})
			in.close()
		}(li, rl)
	}
	wg.Wait()
	c10Regexp()
}

// a rule whose set is a long list of regular expressions: the very first queries the router gets arrive together and
// each of them matches one expression - the first rule decides for them as for any later query
func c10Regexp() {
	for round := 0; round < 3; round++ {
		var lines []string
		for i := 0; i < 600; i++ {
			lines = append(lines, fmt.Sprintf("regexp:^h%d\\.r0t60d0\\.rx%d\\.test$", i, round))
		}
		in, err := newInst(fmt.Sprintf("c10-rx%d", round), instOpts{
			listeners: []string{"udp", "tcp"},
			upstreams: map[string]string{"u1": "udp", "u2": "tcp"},
			sets:      map[string][]string{"rx": lines},
			rules:     []ruleSpec{{Set: "rx", Forward: "u1"}, {Forward: "u2"}},
		})
		if err != nil {
			panic(err)
		}
		par(64, func(i int) {
			in.send([]string{"udp", "tcp"}[i%2], "", mkq(fmt.Sprintf("h%d.r0t60d0.rx%d.test.", i*9, round)), 4*time.Second, nil)
		})
		par(32, func(i int) {
			in.send("udp", "", mkq(fmt.Sprintf("h%d.r0t60d0.rx%d.test.", i*9+1, round)), 4*time.Second, nil)
			in.send("udp", "", mkq(fmt.Sprintf("h%d.r0t60d0.rx%d.test.", 700+i, round)), 4*time.Second, nil) // no entry: second rule
		})
		in.close()
	}
}

// background refreshes must go to the rule's upstream with the entry's own question: entries of zone z1 (u1)
// are hit in their refresh window while bursts of queries for zone z2 (u2) recycle the request objects;
// few Ps, so that the refresh goroutine runs after the hitting request has finished.
func modeC10Prefetch() {
	in, err := newInst("c10-pf", instOpts{
		listeners: []string{"udp", "tcp"},
		upstreams: map[string]string{"u1": "udp", "u2": "tcp", "u3": "http"},
		sets:      map[string][]string{"s1": stdSets()["s1"], "s2": stdSets()["s2"], "s3": {"domain:z3.test"}},
		rules:     []ruleSpec{{Set: "s1", Forward: "u1"}, {Set: "s3", Forward: "u3"}, {Forward: "u2"}},
		cacheMem:  4 << 20,
	})
	if err != nil {
		panic(err)
	}
	defer in.close()
	// many different questions in flight at once on the DoH upstream: each is sent as itself
	par(96, func(i int) {
		q := mkq(fmt.Sprintf("%s.r0t60d%d.z3.test.", uniq(), i%4))
		q.typ = []uint16{dns.TypeA, dns.TypeAAAA, dns.TypeTXT}[i%3]
		in.send([]string{"udp", "tcp"}[i%2], "", q, 4*time.Second, nil)
	})
	var hot []string
	for i := 0; i < 24; i++ {
		hot = append(hot, fmt.Sprintf("%s.r0t8d%d.z1.test.", uniq(), 5+i%10))
	}
	par(len(hot), func(i int) { in.send("udp", "", mkq(hot[i]), 3*time.Second, nil) })
	time.Sleep(6350 * time.Millisecond)
	old := runtime.GOMAXPROCS(2)
	for round := 0; round < 3; round++ {
		par(len(hot)*4, func(i int) {
			if i%4 == 0 {
				if round == 0 {
					in.send("udp", "", mkq(hot[i/4]), 3*time.Second, nil)
				}
				return
			}
			q := mkq(fmt.Sprintf("%s.r0t60d2.z2.test.", uniq()))
			q.typ = []uint16{dns.TypeAAAA, dns.TypeTXT, dns.TypeMX}[i%3]
			in.send([]string{"udp", "tcp"}[i%2], "", q, 3*time.Second, nil)
		})
	}
	runtime.GOMAXPROCS(old)
	time.Sleep(300 * time.Millisecond)
}

// ---------------------------------------------------------------- C10: start-up decisions (in-process)
func modeC10Boot() {
	type bc struct {
		name                                     string
		unkFwd, unkSet, dupUp, dupSet, rejectToo bool
	}
	cases := []bc{{name: "valid"}, {name: "unkfwd", unkFwd: true}, {name: "unkfwd-reject", unkFwd: true, rejectToo: true},
		{name: "unkset", unkSet: true}, {name: "unkset-reject", unkSet: true, rejectToo: true}, {name: "dupup", dupUp: true}, {name: "dupset", dupSet: true},
		{name: "unkfwd-late", unkFwd: true}}
	for i, c := range cases {
		o := instOpts{listeners: []string{"udp"}, upstreams: map[string]string{"u1": "udp", "u2": "tcp"}, sets: stdSets(),
			rules: []ruleSpec{{Set: "s1", Forward: "u1"}, {Forward: "u2"}}}
		r := ruleSpec{Forward: "u1"}
		if c.unkFwd {
			r.Forward = "u9"
		}
		if c.unkSet {
			r.Set = "s9"
		}
		if c.rejectToo {
			r.Reject = 3
		}
		if c.name == "unkfwd-late" {
			o.rules = append(o.rules, r)
		} else {
			o.rules = append([]ruleSpec{r}, o.rules...)
		}
		in, err := newInstDup(fmt.Sprintf("c10boot-%d", i), o, c.dupUp, c.dupSet)
		started := err == nil
		e := ""
		if err != nil {
			e = err.Error()
		}
		in.tr.Emit("boot", "case", c.name, "unkfwd", c.unkFwd, "unkset", c.unkSet, "dupup", c.dupUp, "dupset", c.dupSet, "unkkey", false,
			"started", started, "how", "inprocess", "err", e)
		in.close()
	}
}

// a range file of 300 lines (about 10 KiB, more than any read buffer): labels of early and of late lines; clients of
// ranges with the same label share answers, clients of ranges with different labels do not
func c07BigMarker() {
	var lines []string
	add := func(lo, hi, label string) { lines = append(lines, lo+","+hi+","+label) }
	add("127.0.1.0", "127.0.1.255", "office")
	add("127.0.2.0", "127.0.2.255", "lab")
	for k := 0; k < 290; k++ {
		add(fmt.Sprintf("172.%d.%d.0", 16+k/250, k%250), fmt.Sprintf("172.%d.%d.255", 16+k/250, k%250), fmt.Sprintf("floor-%d", k%7))
	}
	add("127.0.3.0", "127.0.3.255", "office")
	add("127.0.4.0", "127.0.4.255", "lab")
	in, err := newInst("c07-bigmarker", instOpts{
		listeners: []string{"udp"},
		upstreams: map[string]string{"u1": "udp"},
		rules:     []ruleSpec{{Forward: "u1"}},
		cacheMem:  8 << 20,
		ipMarker:  lines,
	})
	if err != nil {
		panic(err)
	}
	defer in.close()
	for k := 0; k < 4; k++ {
		name := fmt.Sprintf("%s.r0t60d0.bm.test.", uniq())
		for _, src := range []string{"127.0.1.7", "127.0.3.7", "127.0.2.7", "127.0.4.7", "127.0.9.7", "127.0.1.8", "127.0.4.8"} {
			in.send("udp", src, mkq(name), 3*time.Second, nil)
		}
	}
}

// goneScenario (C03, C20): clients that hang up with their query still in flight (its answer is there 2.5 s later), and
// new connections right behind them, each with a quick query and one that is in flight for 3.3 s (idle time-out
// 1 s): whatever the listener recycles of the connections that are gone, what is left of them (a late completion)
// does not touch the connections that took their place - those keep their connection and get their answers
func goneScenario() {
	ini, err := newInst("gone", instOpts{listeners: []string{"tcp", "gnet", "tls"}, upstreams: map[string]string{"u1": "udp"}, rules: []ruleSpec{{Forward: "u1"}}, idleTimeout: 1})
	if err != nil {
		panic(err)
	}
	defer ini.close()
	par(3, func(i int) {
		lst := []string{"tcp", "gnet", "tls"}[i]
		for round := 0; round < 2; round++ {
			par(6, func(k int) {
				ini.sendMay(lst, "", mkq(fmt.Sprintf("%s.r0t60d2500.gone.test.", uniq())), 60*time.Millisecond)
			})
			time.Sleep(40 * time.Millisecond)
			par(6, func(k int) {
				a, b := mkq(fmt.Sprintf("%s.r0t60d0.idle.test.", uniq())), mkq(fmt.Sprintf("%s.r0t60d3300.idle.test.", uniq()))
				a.id, b.id = uint16(100+2*k), uint16(101+2*k)
				ini.sendBatch(lst, "", []qspec{a, b}, 6*time.Second)
			})
		}
	})
}

// ---------------------------------------------------------------- C07: cache keying and client groups
func modeC07(thorough bool) {
	in, err := newInst("c07", instOpts{
		listeners: []string{"udp", "tcp", "http"},
		upstreams: map[string]string{"u1": "udp"},
		rules:     []ruleSpec{{Forward: "u1"}},
		cacheMem:  8 << 20,
		xffHeader: "X-Client",
		ipMarker: []string{"127.0.1.0,127.0.1.255,office      # first floor", "127.0.2.5,127.0.2.5,single", "  127.0.2.6,127.0.3.0,office\t# second floor", "# a comment line",
			"2001:db8::,2001:db8::ffff,v6lab", "10.0.0.0,10.0.0.255,ten", "192.0.2.1,192.0.2.1,one"},
	})
	if err != nil {
		panic(err)
	}
	defer in.close()
	c07BigMarker()
	rounds := 6
	if thorough {
		rounds = 40
	}
	// background churn so that pooled buffers carry other requests' bytes
	stop := make(chan struct{})
	go func() {
		for k := 0; k < 120; k++ {
			select {
			case <-stop:
				return
			default:
			}
			q := mkq(fmt.Sprintf("%s.r0t60d0.churn%d.test.", uniq(), k%7))
			q.typ = []uint16{dns.TypeA, dns.TypeTXT, 0xff01}[k%3]
			q.cls = []uint16{dns.ClassINET, dns.ClassCHAOS, 0x7f7f}[k%3]
			in.send("udp", "127.0.9.1", q, 3*time.Second, nil)
		}
	}()
	par(rounds, func(i int) {
		flags := []string{"", "fM", "fR", "", "fMR"}[i%5] // R: SRV and MX records (names inside RDATA)
		base := fmt.Sprintf("%s.r0t60d0%s.zz.test.", uniq(), flags)
		if i%4 == 3 {
			base = fmt.Sprintf("%s.r3t20d0fA.zz.test.", uniq()) // negative answers are cached too
		}
		ask := func(lst, src, name string, typ, cls uint16, xff string) {
			q := mkq(name)
			q.typ, q.cls = typ, cls
			q.id = uint16(i*100 + int(qnCtr.Load())%97)
			var hdr map[string]string
			if xff != "" {
				hdr = map[string]string{"X-Client": xff}
			}
			in.send(lst, src, q, 4*time.Second, hdr)
		}
		A, IN := dns.TypeA, uint16(dns.ClassINET)
		ask("udp", "127.0.1.1", base, A, IN, "")                   // first: miss, stored for group office
		ask("udp", "127.0.1.1", base, A, IN, "")                   // repeat: must hit
		ask("tcp", "127.0.1.77", strings.ToUpper(base), A, IN, "") // other case, same group (other address, other listener)
		ask("udp", "127.0.2.7", base, A, IN, "")                   // other range, same label: same group
		ask("udp", "127.0.1.1", base, dns.TypeAAAA, IN, "")        // other type
		ask("udp", "127.0.1.1", base, A, dns.ClassCHAOS, "")       // other class
		ask("udp", "127.0.1.1", base, A, 254, "")                  // other class (unusual)
		ask("udp", "127.0.1.1", "x"+base, A, IN, "")               // other name
		ask("udp", "127.0.2.5", base, A, IN, "")                   // other group (single-address range)
		ask("udp", "127.0.2.4", base, A, IN, "")                   // just below that range: no group
		ask("udp", "127.0.3.1", base, A, IN, "")                   // just above the office range: no group
		ask("udp", "127.0.9.9", base, A, IN, "")                   // no group again: must hit the no-group entry
		ask("http", "", base, A, IN, "10.0.0.7")                   // group ten via client address header
		ask("http", "", base, A, IN, "::ffff:10.0.0.200")          // IPv4-mapped form of the same range: same group
		ask("http", "", base, A, IN, "2001:db8::1")                // v6 range
		ask("http", "", base, A, IN, "2001:db8::1:0")              // just above the v6 range: no group
		ask("http", "", base, A, IN, "192.0.2.1, 10.9.9.9")        // first address of a list counts
		ask("udp", "127.0.1.1", base, A, IN, "")                   // and the first entry is still there
		time.Sleep(450 * time.Millisecond)
		ask("tcp", "127.0.1.9", base, A, IN, "")    // well after the answer was relayed: served from the cache
		ask("http", "", base, A, IN, "2001:db8::1") // every group has its own entry by now
	})
	// refresh window: hits in the last quarter of an 8 s entry start background refreshes while
	// other requests are in flight (recycled request objects)
	nref := 12
	if thorough {
		nref = 60
	}
	var names []string
	for i := 0; i < nref; i++ {
		names = append(names, fmt.Sprintf("%s.r0t8d25.pf.test.", uniq()))
	}
	par(nref, func(i int) { in.send("udp", "127.0.1.1", mkq(names[i]), 3*time.Second, nil) })
	time.Sleep(6400 * time.Millisecond) // last quarter of the 8 s lifetime, more than the cache clock's 1 s granularity left
	par(nref*3, func(i int) {
		if i%3 == 0 {
			in.send("udp", "127.0.1.1", mkq(names[i/3]), 3*time.Second, nil)
		} else {
			time.Sleep(time.Duration(i%7) * time.Millisecond)
			in.send("tcp", "127.0.1.2", mkq(fmt.Sprintf("%s.r3t20d15fA.other.test.", uniq())), 3*time.Second, nil)
		}
	})
	close(stop)
	time.Sleep(200 * time.Millisecond)
}

// ---------------------------------------------------------------- C12: EDNS0 / ECS

// background refreshes carry the ECS of the client whose hit started them: every hot name belongs to one
// client subnet, other subnets keep the request objects busy while the refresh goroutines start (two Ps)
func modeC12Prefetch(nopoison bool) { modeC12PrefetchEcs(nopoison, true) }

// ecs = false: the background refresh, like every upstream query, carries no client subnet when ECS is off
func modeC12PrefetchEcs(nopoison, ecs bool) {
	in, err := newInst(map[bool]string{true: "c12-pf", false: "c12-pfoff"}[ecs], instOpts{
		listeners: []string{"udp", "tcp"}, upstreams: map[string]string{"u1": "udp"}, rules: []ruleSpec{{Forward: "u1"}},
		cacheMem: 4 << 20, ecs: ecs,
	})
	if err != nil {
		panic(err)
	}
	defer in.close()
	var hot []string
	for i := 0; i < 24; i++ {
		// (the upstream's replies, the refresh's too, carry an OPT with options: nothing of it reaches a client)
		hot = append(hot, fmt.Sprintf("%s.r0t8d%dfO.pf.test.", uniq(), 5+i%10))
	}
	par(len(hot), func(i int) { in.send("udp", fmt.Sprintf("127.0.%d.1", 21+i), mkq(hot[i]), 3*time.Second, nil) })
	time.Sleep(6350 * time.Millisecond)
	old := runtime.GOMAXPROCS(2)
	for round := 0; round < 3; round++ {
		par(len(hot)*4, func(i int) {
			if i%4 == 0 {
				if round == 0 {
					in.send("udp", fmt.Sprintf("127.0.%d.1", 21+i/4), mkq(hot[i/4]), 3*time.Second, nil)
				}
				return
			}
			in.send([]string{"udp", "tcp"}[i%2], fmt.Sprintf("127.0.%d.9", 100+i%50), mkq(fmt.Sprintf("%s.r0t60d2.other.test.", uniq())), 3*time.Second, nil)
		})
	}
	runtime.GOMAXPROCS(old)
	time.Sleep(300 * time.Millisecond)
	// the refreshed entries are served to clients without and with EDNS0
	par(len(hot), func(i int) {
		in.send("udp", fmt.Sprintf("127.0.%d.1", 21+i), mkq(hot[i]), 3*time.Second, nil)
		q := mkq(hot[i])
		q.opt = true
		in.send("tcp", fmt.Sprintf("127.0.%d.1", 21+i), q, 3*time.Second, nil)
	})
}

func modeC12(thorough bool) {
	pfDone := make(chan struct{})
	go func() { defer close(pfDone); modeC12Prefetch(false) }()
	defer func() { <-pfDone }()
	pfDone2 := make(chan struct{})
	go func() { defer close(pfDone2); modeC12PrefetchEcs(false, false) }()
	defer func() { <-pfDone2 }()
	// an upstream that says nothing until the proxy's own deadline: the SERVFAIL the proxy makes up then carries an
	// OPT iff the query did
	siDone := make(chan struct{})
	go func() {
		defer close(siDone)
		ins, err := newInst("c12-silent", instOpts{listeners: []string{"udp", "tcp"}, upstreams: map[string]string{"u1": "udp"}, rules: []ruleSpec{{Forward: "u1"}}})
		if err != nil {
			return
		}
		defer ins.close()
		par(4, func(i int) {
			q := mkq(uniq() + ".r0t60d0fS.si.test.")
			q.opt = i%2 == 0
			ins.send([]string{"udp", "tcp"}[i/2], "127.0.1.1", q, 9*time.Second, nil)
		})
	}()
	defer func() { <-siDone }()
	for _, ecs := range []bool{true, false} {
		in, err := newInst(fmt.Sprintf("c12-ecs%v", ecs), instOpts{
			listeners: []string{"udp", "tcp", "http", "fasthttp", "quic"},
			upstreams: map[string]string{"u1": "udp", "u2": "tcp+pipeline"},
			sets:      stdSets(),
			rules:     []ruleSpec{{Set: "s1", Forward: "u1"}, {Forward: "u2"}},
			cacheMem:  4 << 20,
			ecs:       ecs,
			xffHeader: "X-Client",
		})
		if err != nil {
			panic(err)
		}
		type cl struct {
			lst, src, xff string
		}
		clients := []cl{{"udp", "127.0.1.1", ""}, {"tcp", "127.0.7.9", ""}, {"quic", "127.0.8.8", ""},
			{"http", "", "203.0.113.77"}, {"http", "", "2001:db8:abcd:1234:5678:9abc:def0:1"}, {"http", "", "::ffff:198.51.100.9"},
			{"http", "", ""}, {"fasthttp", "", "2001:db8::1"}, {"fasthttp", "", "192.0.2.255, 10.1.1.1"}, {"fasthttp", "", ""}}
		n := len(clients) * 4
		par(n, func(i int) {
			c := clients[i%len(clients)]
			v := i / len(clients)
			flag := []string{"", "fO", "fP", ""}[v]
			zone := []string{"z1", "z3"}[i%2]
			name := fmt.Sprintf("%s.r0t60d0%s.%s.test.", uniq(), flag, zone)
			var hdr map[string]string
			if c.xff != "" {
				hdr = map[string]string{"X-Client": c.xff}
			}
			mk := func(opt, opts bool) qspec {
				q := mkq(name)
				q.opt, q.optopts = opt, opts
				q.id = uint16(7000 + i)
				return q
			}
			// uncached with OPT variants, then cached path with the opposite OPT presence
			in.send(c.lst, c.src, mk(v%2 == 0, v == 2), 4*time.Second, hdr)
			in.send(c.lst, c.src, mk(v%2 == 1, v == 1), 4*time.Second, hdr)
			in.send(c.lst, c.src, mk(true, true), 4*time.Second, hdr)
			in.send(c.lst, c.src, mk(false, false), 4*time.Second, hdr)
		})
		// one after the other (recycled request state is taken over by the next request): a client whose address
		// is known, then a DoH client that sends no client-address header - its address is unknown, its query
		// goes upstream without ECS
		for k := 0; k < 24; k++ {
			if k%3 == 2 {
				in.send("http", "", mkq(uniq()+".r0t60d0.z3.test."), 3*time.Second, map[string]string{"X-Client": "203.0.113.77"})
			} else {
				in.send([]string{"udp", "tcp"}[k%3], "127.0.1.1", mkq(uniq()+".r0t60d0.z3.test."), 3*time.Second, nil)
			}
			in.send([]string{"http", "fasthttp"}[k%2], "", mkq(uniq()+".r0t60d0.z3.test."), 3*time.Second, nil)
		}
		// a response that has to be cut down to the client's size keeps its OPT
		for _, sz := range []uint16{512, 600, 1232} {
			q := mkq(uniq() + ".r0t60d0fB.z3.test.")
			q.typ = dns.TypeTXT
			q.opt, q.optsize = true, sz
			in.send("udp", "127.0.1.1", q, 4*time.Second, nil)
		}
		// an OPT is an OPT whatever payload size it advertises (0, 1, 511): the response carries the proxy's
		for i, sz := range []uint16{0, 0, 1, 511, 512, 65535} {
			for _, lst := range []string{"udp", "tcp", "http", "quic"} {
				q := mkq(uniq() + ".r0t60d0.z1.test.")
				q.opt, q.optsize, q.optzero = true, sz, sz == 0
				if lst == "quic" {
					q.id = 0
				}
				in.send(lst, "127.0.1.1", q, 3*time.Second, nil)
				if i == 1 { // the cached path
					in.send(lst, "127.0.1.1", q, 3*time.Second, nil)
				}
			}
		}
		// unsupported queries carrying an OPT, and ones without
		for _, lst := range []string{"udp", "tcp"} {
			q := mkq(uniq() + ".r0t60d0.z1.test.")
			q.rd, q.opt = false, true
			in.send(lst, "127.0.1.1", q, 3*time.Second, nil)
			q2 := mkq(uniq() + ".r0t60d0.z1.test.")
			q2.opcode = 4
			in.send(lst, "127.0.1.1", q2, 3*time.Second, nil)
		}
		in.close()
	}
}

// ---------------------------------------------------------------- C08 / C19: timed cache scenarios
// Each scenario runs on its own router instance (low load, so that the cache clock is not starved).
type step struct {
	at   time.Duration
	n    int // number of concurrent identical queries
	name string
}

// names whose later steps are bursts handed to the router directly (no sockets): n goroutines, 1500 queries each
var directStorm sync.Map

func runTimed(tag string, o instOpts, prep func(in *inst), steps []step) {
	in, err := newInst(tag, o)
	if err != nil {
		panic(err)
	}
	defer in.close()
	if prep != nil {
		prep(in)
	}
	t0 := time.Now()
	var wg sync.WaitGroup
	for _, st := range steps {
		st := st
		wg.Add(1)
		go func() {
			defer wg.Done()
			time.Sleep(time.Until(t0.Add(st.at)))
			if _, ok := directStorm.Load(st.name); ok && st.at > 0 {
				stormOn.Store(true)
				var bad atomic.Int64
				par(st.n, func(i int) {
					w := mkq(st.name).wire()
					for k := 0; k < 1500; k++ {
						raw, err := in.vr.Handle(w, netip.AddrPortFrom(stormAddr, uint16(2000+i)))
						r := new(dns.Msg)
						if err != nil || r.Unpack(raw) != nil || r.Rcode != 0 || len(r.Answer) == 0 {
							bad.Add(1)
						}
					}
				})
				stormOn.Store(false)
				in.tr.Emit("burst", "n", st.n*1500, "bad", bad.Load())
				return
			}
			par(st.n, func(i int) {
				src := "127.0.1.1"
				if strings.HasPrefix(in.name, "p-ecs") && st.n > 1 { // hits from eight subnets (one client group)
					src = fmt.Sprintf("127.0.%d.1", 1+i%8)
				}
				name := st.name
				if strings.HasPrefix(in.name, "p-case") && st.n > 1 { // every hit spells the name in its own way (0x20)
					b := []byte(name)
					for k := range b {
						if b[k] >= 'a' && b[k] <= 'z' && (i>>(uint(k)%5))&1 == 1 {
							b[k] -= 32
						}
					}
					name = string(b)
				}
				in.send([]string{"udp", "tcp"}[i%2], src, mkq(name), 8*time.Second, nil)
			})
		}()
	}
	wg.Wait()
	time.Sleep(150 * time.Millisecond)
}

func ms(x int) time.Duration { return time.Duration(x) * time.Millisecond }

func modeC08(thorough bool, only string) {
	base := instOpts{listeners: []string{"udp", "tcp"}, upstreams: map[string]string{"u1": "udp"}, rules: []ruleSpec{{Forward: "u1"}}, cacheMem: 4 << 20}
	type sc struct {
		tag   string
		o     instOpts
		prep  func(in *inst)
		steps []step
	}
	var scs []sc
	add := func(tag string, o instOpts, prep func(in *inst), steps ...step) {
		scs = append(scs, sc{tag, o, prep, steps})
	}
	n := func(lab string) string { return fmt.Sprintf("%s.%s.tm.test.", uniq(), lab) }
	one := func(name string, ats ...int) []step {
		var r []step
		for _, a := range ats {
			r = append(r, step{ms(a), 1, name})
		}
		return r
	}
	if only == "" || only == "c08" {
		add("t-age", base, nil, one(n("r0t4d0fM"), 0, 300, 1250, 2400, 3300, 4500, 6600)...)
		add("t-age2", base, nil, one(n("r0t6d0"), 0, 2100, 4100, 5050, 8300)...)
		add("t-sf", base, nil, one(n("r2t0d0"), 0, 400, 3400)...)
		add("t-ref", base, nil, one(n("r5t0d0"), 0, 2000, 7400)...)
		add("t-nxsoa", base, nil, one(n("r3t3d0fA"), 0, 1000, 5400)...)
		add("t-nodata", base, nil, one(n("r0t3d0fN"), 0, 1000, 5400)...)
		add("t-ttl0", base, nil, one(n("r0t0d0"), 0, 300, 2600)...)
		add("t-ttl1", base, nil, one(n("r0t1d0"), 0, 500, 3300)...)
		mx := base
		mx.maxTTL = 3
		add("t-max", mx, nil, one(n("r0t60d0"), 0, 1000, 5400)...)
		add("t-tc", base, nil, one(n("r0t60d0fT"), 0, 500, 1000)...)
		add("t-fail", base, nil, one(n("r0t60d0fG"), 0, 500)...)
		// positive entry, refresh answered by SERVFAIL / REFUSED: the old entry must stay
		nd := n("r0t8d0")
		add("t-nodisp", base, func(in *inst) { in.ups["u1"].setSeq(nd, "r0t8d0", "r2t0d0") }, one(nd, 0, 6400, 7000, 7300)...)
		nd2 := n("r0t8d0")
		add("t-nodisp5", base, func(in *inst) { in.ups["u1"].setSeq(nd2, "r0t8d0", "r5t0d0") }, one(nd2, 0, 6400, 7000, 7300)...)
		nd3 := n("r0t8d0")
		add("t-nodisp4", base, func(in *inst) { in.ups["u1"].setSeq(nd3, "r0t8d0", "r4t0d0") }, one(nd3, 0, 6400, 7000, 7300)...)
		// refresh answered by a truncated reply (over UDP and over the TCP retry): not cacheable, the old entry stays
		nd4 := n("r0t8d0")
		add("t-nodisptc", base, func(in *inst) { in.ups["u1"].setSeq(nd4, "r0t8d0", "r0t8d0fT", "r0t8d0fT") }, one(nd4, 0, 6400, 7000, 7300, 11500)...)
		// a zero TTL among larger ones bounds the lifetime, wherever it stands
		add("t-zero", base, nil, one(n("r0t300d0fZ"), 0, 500, 3500)...)
		add("t-zeromid", base, nil, one(n("r0t10d0fY"), 0, 400, 3500)...)
		// every branch of the lifetime table is stored at least once (the bound is checked at the store):
		// NXDOMAIN without records, SERVFAIL / REFUSED with an SOA, NOERROR with no record at all
		add("t-nx0", base, nil, one(n("r3t0d0"), 0, 300)...)
		add("t-sfsoa", base, nil, one(n("r2t7d0fA"), 0, 300, 3400)...)
		add("t-rfsoa", base, nil, one(n("r5t3d0fA"), 0, 300)...)
		add("t-empty", base, nil, one(n("r0t0d0fE"), 0, 300)...)
		// a small configured maximum bounds negative and empty answers too
		mx2 := base
		mx2.maxTTL = 2
		for i, lab := range []string{"r3t600d0fA", "r0t300d0fN", "r5t9d0fA", "r3t0d0", "r0t0d0fE"} {
			add(fmt.Sprintf("t-maxneg%d", i), mx2, nil, one(n(lab), 0, 400, 4600)...)
		}
		// two overlapping misses of one name: the first is answered with records, the later one with SERVFAIL -
		// the late error must not displace the live positive entry
		ov := n("r0t300d0")
		add("t-overlap", base, func(in *inst) { in.ups["u1"].setSeq(ov, "r0t300d100", "r2t0d600") },
			[]step{{0, 1, ov}, {ms(20), 1, ov}, {ms(900), 1, ov}, {ms(3600), 1, ov}}...)
		if useRedis == "only" {
			// a slow redis server: the store of a 2 s answer waits in the proxy's store queue behind 14 others for
			// about 4 s. Whatever reaches the server then, the answer is not served once its lifetime is over
			rq := n("r0t2d0")
			add("t-rqueue", base, func(in *inst) {
				in.redis.delay.Store(int64(300 * time.Millisecond))
				par(14, func(i int) { in.send("udp", "127.0.1.1", mkq(n("r0t60d0")), 4*time.Second, nil) })
			}, one(rq, 0, 4700, 5200)...)
		}
		if useRedis == "both" {
			// a small memory cache in front of redis: the 12 s answers are pushed out of memory by 300 short-lived
			// names, found again in redis at 7 s (outside the refresh window) and copied back into memory with
			// their original times - and gone from both after their lifetime
			small := base
			small.cacheMem = 16 << 10
			for k := 0; k < 4; k++ {
				pm := n("r0t12d0")
				add(fmt.Sprintf("t-promote%d", k), small, func(in *inst) {
					go func() {
						time.Sleep(150 * time.Millisecond)
						par(10, func(i int) {
							for j := 0; j < 30; j++ {
								in.send("udp", "127.0.1.1", mkq(n("r0t1d0")), 4*time.Second, nil) // short-lived: memory has room again at 2.5 s
							}
						})
					}()
				}, one(pm, 0, 7000, 16200)...)
			}
		}
		if thorough {
			add("t-nx30", base, nil, one(n("r3t600d0fA"), 0, 15000, 28000, 32500)...)
			add("t-nodata30", base, nil, one(n("r0t300d0fN"), 0, 10000, 32500)...)
			add("t-empty30", base, nil, one(n("r3t0d0"), 0, 20000, 32500)...)
		}
	}
	if only == "" || only == "c19" {
		if useRedis == "both" {
			// a small memory cache in front of redis: the 12 s answer is pushed out of memory and found again in
			// redis inside its refresh window by two hits at once; the second one's redis reply is slow and arrives
			// when the first one's refresh has already stored the renewed answer: later hits see the renewed one
			small := base
			small.cacheMem = 16 << 10
			for k := 0; k < 4; k++ {
				pr := n("r0t12d0")
				add(fmt.Sprintf("p-redisrace%d", k), small, func(in *inst) {
					// the refresh that the second hit starts in its turn is slow: for 700 ms nothing repairs the cache
					in.ups["u1"].setSeq(pr, "r0t12d0", "r0t12d0", "r0t12d700", "r0t12d0")
					go func() {
						time.Sleep(150 * time.Millisecond)
						par(10, func(i int) {
							for j := 0; j < 30; j++ {
								in.send("udp", "127.0.1.1", mkq(n("r0t1d0")), 4*time.Second, nil)
							}
						})
					}()
					go func() {
						time.Sleep(9350 * time.Millisecond)
						in.redis.getPlan <- 300 * time.Millisecond
						in.redis.getPlan <- 400 * time.Millisecond
					}()
				}, step{0, 1, pr}, step{ms(9500), 1, pr}, step{ms(9530), 1, pr}, step{ms(10420), 2, pr}, step{ms(10650), 1, pr}, step{ms(11600), 1, pr})
			}
		}
		// single flight: many hits in the refresh window while the refresh is stalled, then renewed TTLs
		p1 := n("r0t8d0")
		add("p-single", base, func(in *inst) { in.ups["u1"].setSeq(p1, "r0t8d0", "r0t8d1100") },
			step{0, 1, p1}, step{ms(6300), 40, p1}, step{ms(6500), 40, p1}, step{ms(6900), 10, p1}, step{ms(7700), 4, p1}, step{ms(7900), 1, p1})
		// failed refresh (connection failure, garbage): the old entry stays usable until it expires
		p2 := n("r0t8d0")
		add("p-fail", base, func(in *inst) { in.ups["u1"].setSeq(p2, "r0t8d0", "r0t8d50fG", "r0t8d50fG") },
			step{0, 1, p2}, step{ms(6300), 8, p2}, step{ms(6800), 4, p2})
		// many keys entering their refresh window at the same instant, 24 simultaneous hits each
		for k := 0; k < 3; k++ {
			var st []step
			var names []string
			for j := 0; j < 8; j++ {
				names = append(names, n("r0t8d40"))
				st = append(st, step{0, 1, names[j]})
			}
			for j := 0; j < 8; j++ {
				st = append(st, step{ms(6250 + 60*k), 24, names[j]}, step{ms(6600), 2, names[j]})
			}
			add(fmt.Sprintf("p-burst%d", k), base, nil, st...)
		}
		p4 := n("r0t8d0")
		add("p-sfreply", base, func(in *inst) { in.ups["u1"].setSeq(p4, "r0t8d0", "r2t0d30") },
			step{0, 1, p4}, step{ms(6300), 8, p4}, step{ms(6800), 4, p4}, step{ms(6900), 1, p4})
		for i, rc := range []string{"r5t0d30", "r4t0d30", "r1t0d30", "r0t8d0fT"} {
			pn := n("r0t8d0")
			seq := []string{"r0t8d0", rc, rc}
			add(fmt.Sprintf("p-badreply%d", i), base, func(in *inst) { in.ups["u1"].setSeq(pn, seq...) },
				step{0, 1, pn}, step{ms(6300), 8, pn}, step{ms(6800), 4, pn}, step{ms(6900), 1, pn})
		}
		// ECS on, hits from several subnets of one client group while the refresh is slow: still one refresh per
		// (question, client group)
		{
			eo := base
			eo.ecs = true
			pe := n("r0t8d0")
			add("p-ecs", eo, func(in *inst) { in.ups["u1"].setSeq(pe, "r0t8d0", "r0t8d900") },
				step{0, 1, pe}, step{ms(6300), 16, pe}, step{ms(6500), 8, pe}, step{ms(7400), 2, pe})
		}
		// hits that spell the name in different letter cases are hits of one entry: one refresh
		{
			pc := n("r0t8d0")
			add("p-case", base, func(in *inst) { in.ups["u1"].setSeq(pc, "r0t8d0", "r0t8d900") },
				step{0, 1, pc}, step{ms(6300), 16, pc}, step{ms(6500), 8, pc}, step{ms(7400), 2, pc})
		}
		// the refresh exchange itself fails (undecodable reply / connection closed): the old entry stays usable
		for i, rc := range []string{"r0t8d0fG", "r0t8d0fC"} {
			pn := n("r0t8d0")
			seq := []string{"r0t8d0", rc, rc}
			add(fmt.Sprintf("p-failed%d", i), base, func(in *inst) { in.ups["u1"].setSeq(pn, seq...) },
				step{0, 1, pn}, step{ms(6300), 8, pn}, step{ms(6800), 4, pn}, step{ms(6900), 1, pn})
		}
		// the refresh is made for the hitting client's group (ip marker): later hits of that group see it
		mk := base
		mk.ipMarker = []string{"127.0.1.0,127.0.1.255,office"}
		pm := n("r0t8d0")
		add("p-marker", mk, func(in *inst) { in.ups["u1"].setSeq(pm, "r0t8d0", "r0t8d30") },
			step{0, 1, pm}, step{ms(6300), 4, pm}, step{ms(6900), 2, pm}, step{ms(7600), 2, pm})
		// many distinct entries in their refresh window with a slow upstream: every hit is still answered at once
		{
			var st []step
			var names []string
			for j := 0; j < 80; j++ {
				names = append(names, n("r0t8d0"))
				st = append(st, step{0, 1, names[j]})
			}
			for j := 0; j < 80; j++ {
				st = append(st, step{ms(6300 + j), 1, names[j]})
			}
			nm := names
			add("p-many", base, func(in *inst) {
				for _, x := range nm {
					in.ups["u1"].setSeq(x, "r0t8d0", "r0t8d3200")
				}
			}, st...)
		}
		// a storm of simultaneous hits on one entry while its refresh is slow: still one refresh
		ps := n("r0t8d0")
		add("p-storm", base, func(in *inst) { in.ups["u1"].setSeq(ps, "r0t8d0", "r0t8d900") },
			step{0, 1, ps}, step{ms(6300), 400, ps}, step{ms(6400), 400, ps}, step{ms(6500), 200, ps})
		// ... the same with the hits handed to the router at the same instant by 16 goroutines (no sockets)
		pd := n("r0t8d0")
		directStorm.Store(pd, true)
		add("p-direct", base, func(in *inst) { in.ups["u1"].setSeq(pd, "r0t8d0", "r0t8d900") },
			step{0, 1, pd}, step{ms(6300), 16, pd})
		p3 := n("r0t8d0")
		add("p-silent", base, func(in *inst) { in.ups["u1"].setSeq(p3, "r0t8d0", "r0t8d0fS") },
			step{0, 1, p3}, step{ms(6300), 8, p3}, step{ms(6900), 4, p3})
	}
	par(len(scs), func(i int) { runTimed(scs[i].tag, scs[i].o, scs[i].prep, scs[i].steps) })
}

// ---------------------------------------------------------------- C04 / C20: concurrent stress
func modeC04(thorough bool) {
	own = vtrace.NewOwn(workdir+"/own.ndjson", 16)
	defer own.T.Close()
	in, err := newInst("c04", instOpts{
		listeners: allListeners,
		upstreams: map[string]string{"u1": "udp", "u2": "tcp", "u3": "tcp+pipeline", "u4": "http", "u5": "udp", "u6": "tcp+pipeline"},
		sets:      map[string][]string{"s1": {"domain:z1.test"}, "s2": {"domain:z2.test"}, "s4": {"domain:z4.test"}, "s5": {"domain:z5.test"}, "s6": {"domain:z6.test"}},
		rules:     []ruleSpec{{Set: "s1", Forward: "u1"}, {Set: "s2", Forward: "u2"}, {Set: "s4", Forward: "u4"}, {Set: "s5", Forward: "u5"}, {Set: "s6", Forward: "u6"}, {Forward: "u3"}},
		cacheMem:  48 << 10, // eviction pressure
	})
	if err != nil {
		panic(err)
	}
	defer in.close()
	nNames, workers, per := 300, 48, 110
	if thorough {
		nNames, workers, per = 1500, 96, 600
	}
	names := make([]string, nNames)
	for i := range names {
		z := []string{"z1", "z2", "z3", "z4"}[i%4]
		lab := fmt.Sprintf("r0t%dd%d", 2+i%3, []int{0, 3, 9, 25, 1}[i%5])
		switch i % 17 {
		case 5:
			lab = "r3t20d5fA"
		case 11:
			lab += "fM"
		}
		names[i] = fmt.Sprintf("n%d.%s.%s.test.", i, lab, z)
	}
	// a reply that arrives after the response timeout of one-at-a-time connections (6 s), on the tcp upstream
	late := []string{"late1.r0t9d6300.z2.test.", "late2.r0t9d6300.z2.test."}
	go func() {
		for _, n := range late {
			in.send("udp", "127.0.0.1", mkq(n), 8*time.Second, nil)
		}
	}()
	// a multiplexed upstream connection that carried one query which timed out and is then idle: the reply that
	// arrives after the time-out (6.3 s) must not satisfy one of the queries that are in flight by then
	for _, z := range []string{"z5", "z6"} {
		z := z
		go func() {
			in.send("udp", "127.0.0.1", mkq("lone.r0t9d6300."+z+".test."), 8*time.Second, nil)
		}()
		go func() {
			time.Sleep(6080 * time.Millisecond)
			par(8, func(i int) {
				in.send("tcp", "", mkq(fmt.Sprintf("%s.r0t9d400.%s.test.", uniq(), z)), 3*time.Second, nil)
			})
		}()
	}
	// entries that enter their refresh window (last quarter of 8 s) while the stress is still running
	hot8 := make([]string, 16)
	for i := range hot8 {
		hot8[i] = fmt.Sprintf("h%d.r0t8d%d.%s.test.", i, 5+i%20, []string{"z1", "z2", "z3"}[i%3])
	}
	t0 := time.Now()
	par(len(hot8), func(i int) { in.send("udp", "", mkq(hot8[i]), 4*time.Second, nil) })
	par(workers, func(w int) {
		rng := rand.New(rand.NewSource(seed*131 + int64(w)))
		for k := 0; k < per; k++ {
			n := names[rng.Intn(len(names))]
			if rng.Intn(3) == 0 {
				n = names[rng.Intn(20)] // hot names: cache hits, refresh windows
			}
			if rng.Intn(9) == 0 {
				n = hot8[rng.Intn(len(hot8))] // kept hot so that the frequency based eviction leaves them alone
			}
			q := mkq(n)
			q.id = uint16(rng.Intn(65536))
			q.typ = []uint16{dns.TypeA, dns.TypeA, dns.TypeAAAA}[rng.Intn(3)]
			if strings.HasPrefix(n, "h") {
				q.typ = dns.TypeA
			}
			q.opt = rng.Intn(2) == 0
			if rng.Intn(8) == 0 {
				q.name = strings.ToUpper(q.name[:3]) + q.name[3:]
			}
			if rng.Intn(12) == 0 && !strings.HasPrefix(n, "h") {
				q.cls = []uint16{dns.ClassCHAOS, dns.ClassHESIOD}[rng.Intn(2)] // same name and type, another class
			}
			lst := allListeners[rng.Intn(len(allListeners))]
			if k%9 == 4 { // a pipelined batch in one segment (several frames per read event on the stream listeners)
				var qs []qspec
				for b := 0; b < 2+rng.Intn(5); b++ {
					bq := mkq(names[rng.Intn(len(names))])
					bq.id = uint16(rng.Intn(60000) + b)
					bq.opt = rng.Intn(2) == 0
					qs = append(qs, bq)
				}
				for a := range qs { // distinct IDs within the batch
					for b := 0; b < a; b++ {
						if qs[a].id == qs[b].id {
							qs[a].id += uint16(a) + 1
						}
					}
				}
				in.sendBatch([]string{"gnet", "gnet", "tcp", "tls"}[rng.Intn(4)], "", qs, 8*time.Second)
				continue
			}
			if k%23 == 7 { // a datagram whose record body is refused by the decoder (A record with RDLENGTH 3)
				bad := mkq(names[rng.Intn(len(names))]).wire()
				bad[7] = 1 // ANCOUNT 1
				bad = append(bad, 0xC0, 0x0C, 0, 1, 0, 1, 0, 0, 0, 9, 0, 3, 1, 2, 3)
				if c, err := net.Dial("udp", fmt.Sprintf("127.0.0.1:%d", in.ports["udp"])); err == nil {
					c.Write(bad)
					c.Close()
				}
			}
			in.send(lst, "", q, 8*time.Second, nil)
			if thorough || time.Since(t0) < 6500*time.Millisecond {
				continue
			}
		}
	})
	// keep the tcp upstream busy until after the late replies arrived, so that a connection wrongly kept is reused
	for time.Since(t0) < 7400*time.Millisecond {
		par(24, func(w int) {
			if w < 8 {
				q := mkq(fmt.Sprintf("%s.r0t5d0.z2.test.", uniq()))
				in.send("tcp", "", q, 3*time.Second, nil)
				return
			}
			if time.Since(t0) > 6100*time.Millisecond { // refresh window of the 8 s entries
				in.send(allListeners[w%len(allListeners)], "", mkq(hot8[(w*7+int(time.Since(t0)/time.Millisecond))%len(hot8)]), 3*time.Second, nil)
			} else {
				in.send("udp", "", mkq(fmt.Sprintf("%s.r3t20d3fA.z1.test.", uniq())), 3*time.Second, nil)
			}
		})
		time.Sleep(25 * time.Millisecond)
	}
	time.Sleep(300 * time.Millisecond)
}

// ---------------------------------------------------------------- C15 live: refusals on the wire, isolation, charged address
func modeC15Live() {
	lim := router.LimiterConfig{}
	lim.Client.Limit, lim.Client.Burst = 20, 30
	in, err := newInst("c15live", instOpts{
		listeners: []string{"udp", "tcp", "gnet", "tls", "http", "quic"},
		upstreams: map[string]string{"u1": "udp"},
		rules:     []ruleSpec{{Forward: "u1"}},
		limiter:   lim,
		clients:   []string{"127.0.1.1", "127.0.2.1", "127.0.3.1", "127.0.4.1", "127.0.5.1", "127.0.6.1"},
	})
	if err != nil {
		panic(err)
	}
	defer in.close()
	stop := make(chan struct{})
	var wg sync.WaitGroup
	// client B stays within its own budget on every listener kind (one query every 700 ms, cost <= 20)
	wg.Add(1)
	go func() {
		defer wg.Done()
		for k := 0; ; k++ {
			select {
			case <-stop:
				return
			default:
			}
			lst := []string{"udp", "tcp", "http", "gnet"}[k%4]
			q := mkq(uniq() + ".r0t60d0.quiet.test.")
			in.send(lst, "127.0.2.1", q, 3*time.Second, nil)
			time.Sleep(700 * time.Millisecond)
		}
	}()
	// client A floods, one listener kind after the other
	for _, lst := range []string{"udp", "tcp", "http", "gnet", "tls", "quic"} {
		par(6, func(w int) {
			for k := 0; k < 12; k++ {
				q := mkq(uniq() + ".r0t60d0.flood.test.")
				q.id = uint16(9000 + w*50 + k)
				in.sendMay(lst, "127.0.1.1", q, 2*time.Second)
			}
		})
		time.Sleep(300 * time.Millisecond)
	}
	// a connection that sat idle for a while asks a query just after its subnet's bucket was emptied by others,
	// and more queries follow: whatever time-stamp the listener hands to the limiter, the subnet's budget holds
	for _, lst := range []string{"tcp", "tls"} {
		src := map[string]string{"tcp": "127.0.4.1", "tls": "127.0.5.1"}[lst]
		d := net.Dialer{LocalAddr: &net.TCPAddr{IP: net.ParseIP(src)}, Timeout: 2 * time.Second}
		pc, err := d.Dial("tcp", fmt.Sprintf("127.0.0.1:%d", in.ports[lst]))
		if err != nil {
			continue
		}
		var c net.Conn = pc
		if lst == "tls" {
			tc := tls.Client(pc, &tls.Config{InsecureSkipVerify: true})
			if tc.Handshake() != nil {
				pc.Close()
				continue
			}
			c = tc
		}
		time.Sleep(1700 * time.Millisecond) // parked
		flood := func() {
			par(4, func(w int) {
				for k := 0; k < 12; k++ {
					in.sendMay("udp", src, mkq(uniq()+".r0t60d0.parked.test."), 2*time.Second)
				}
			})
		}
		// others of the subnet use up most of the bucket (a few tokens are left: the parked query is admitted) ...
		for k := 0; k < 5; k++ {
			in.sendMay("udp", src, mkq(uniq()+".r0t60d0.parked.test."), 2*time.Second)
		}
		w := mkq(uniq() + ".r0t60d0.parked.test.").wire()
		f := make([]byte, 2+len(w))
		binary.BigEndian.PutUint16(f, uint16(len(w)))
		copy(f[2:], w)
		c.Write(f)
		c.SetReadDeadline(time.Now().Add(time.Second))
		io.ReadFull(c, make([]byte, 2))
		flood() // ... and go on asking
		c.Close()
	}
	// a query of a subnet is in flight at a slow upstream (1 s) while the subnet goes on asking: the charges booked
	// when the answer is there (whatever instant they are booked for) do not give the subnet tokens twice
	{
		src := "127.0.6.1"
		done := make(chan struct{})
		go func() {
			defer close(done)
			in.sendMay("udp", src, mkq(uniq()+".r0t60d1000.slow.test."), 3*time.Second)
		}()
		time.Sleep(20 * time.Millisecond)
		flood := func() {
			par(12, func(w int) {
				for k := 0; k < 3; k++ {
					in.sendMay("udp", src, mkq(uniq()+".r0t60d0.inflight.test."), 2*time.Second)
				}
			})
		}
		flood()
		time.Sleep(850 * time.Millisecond)
		in.sendMay("udp", src, mkq(uniq()+".r0t60d0.inflight.test."), 2*time.Second)
		<-done
		time.Sleep(15 * time.Millisecond)
		flood()
	}
	// a third subnet opens QUIC / TLS connections while A's connection budget is exhausted
	in.send("quic", "127.0.3.1", mkq(uniq()+".r0t60d0.third.test."), 3*time.Second, nil)
	close(stop)
	wg.Wait()
	c15Header()
}

// DoH listeners that are told to take the client's address from a header (they sit behind a reverse proxy: every
// connection comes from the same address): the limiter is charged for the address in the header, so one client's
// flood leaves the others their budget
func c15Header() {
	lim := router.LimiterConfig{}
	lim.Client.Limit, lim.Client.Burst = 20, 60
	hx, hy, hz := "203.0.113.77", "2001:db8:7::1", "198.51.100.9"
	in, err := newInst("c15xff", instOpts{
		listeners: []string{"http", "fasthttp", "https"},
		upstreams: map[string]string{"u1": "udp"},
		rules:     []ruleSpec{{Forward: "u1"}},
		limiter:   lim,
		xffHeader: "X-Client",
		clients:   []string{hx, hy, hz, "127.0.0.1"}, // the connections themselves are charged to the address they come from
	})
	if err != nil {
		panic(err)
	}
	defer in.close()
	for _, lst := range []string{"http", "fasthttp", "https"} {
		par(3, func(w int) { // three connections: the TLS ones cost the connecting address 15 each
			for k := 0; k < 24; k++ {
				q := mkq(uniq() + ".r0t60d0.flood.test.")
				q.mayRefuse = true
				in.send(lst, "", q, 2*time.Second, map[string]string{"X-Client": hx, "keep": "1"})
			}
		})
		// the others are served: nothing of their budget was spent
		in.send(lst, "", mkq(uniq()+".r0t60d0.quiet.test."), 3*time.Second, map[string]string{"X-Client": hy, "keep": "1"})
		in.send(lst, "", mkq(uniq()+".r0t60d0.quiet.test."), 3*time.Second, map[string]string{"X-Client": hz + ", 10.0.0.1", "keep": "1"})
		time.Sleep(1600 * time.Millisecond)
	}
}

// ---------------------------------------------------------------- C09 listener part: size limits per transport
func modeC09() {
	in, err := newInst("c09", instOpts{listeners: allListeners, upstreams: map[string]string{"u2": "tcp"}, rules: []ruleSpec{{Forward: "u2"}}})
	if err != nil {
		panic(err)
	}
	defer in.close()
	type job struct {
		lst   string
		label string
		opt   bool
		size  uint16
	}
	var jobs []job
	for _, lab := range []string{"r0t60d0fL", "r0t60d0fK", "r0t60d0fB", "r0t60d0"} {
		for _, sz := range []int{-1, 0, 512, 600, 1232, 4096, 65535} {
			jobs = append(jobs, job{"udp", lab, sz >= 0, uint16(max(sz, 0))})
		}
		for _, lst := range allListeners[1:] {
			jobs = append(jobs, job{lst, lab, false, 0}, job{lst, lab, true, 1232})
		}
	}
	par(len(jobs), func(i int) {
		time.Sleep(time.Duration(i%20) * 10 * time.Millisecond)
		j := jobs[i]
		q := mkq(fmt.Sprintf("%s.%s.big.test.", uniq(), j.label))
		q.typ = dns.TypeTXT
		q.opt, q.optsize = j.opt, j.size
		q.optmid = j.opt && (j.size == 4096 || i%3 == 1) // the OPT need not be the last additional record (TSIG / SIG(0) follow it)
		q.optzero = j.opt && j.size == 0
		q.id = uint16(5000 + i)
		in.send(j.lst, "", q, 5*time.Second, nil)
	})
	// responses the proxy makes up itself obey the limit too: a query with ten questions (more than 512 octets,
	// legal on the wire) is answered NOTIMP within the client's limit on every listener ...
	par(len(allListeners), func(i int) {
		for _, sz := range []int{-1, 600} {
			q := mkq(fmt.Sprintf("%s.a-rather-long-label-to-make-the-question-section-large.and-another-long-label-for-the-same-purpose.mq.test.", uniq()))
			q.nq, q.nqdistinct = 10, true
			q.opt, q.optsize = sz >= 0, uint16(max(sz, 0))
			q.id = uint16(5600 + i)
			if allListeners[i] == "quic" {
				q.id = 0
			}
			in.send(allListeners[i], "", q, 5*time.Second, nil)
		}
	})
	// ... and so is the REFUSED that a client gets whose rate-limit bucket is empty
	inl, err := newInst("c09-lim", instOpts{listeners: []string{"udp", "tcp"}, upstreams: map[string]string{"u2": "tcp"}, rules: []ruleSpec{{Forward: "u2"}},
		clients: []string{"127.0.7.1", "127.0.7.2", "127.0.7.3"}, limiter: router.LimiterConfig{Client: router.ClientLimiterConfig{Limit: 1, Burst: 2}}})
	if err != nil {
		panic(err)
	}
	defer inl.close()
	for k, src := range []string{"127.0.7.1", "127.0.7.2", "127.0.7.3"} {
		for n := 0; n < 4; n++ { // the first queries use the bucket up
			inl.sendMay("udp", src, mkq(fmt.Sprintf("%s.r0t60d0.lim.test.", uniq())), 2*time.Second)
		}
		for _, sz := range []int{-1, 600} {
			q := mkq(fmt.Sprintf("%s.a-rather-long-label-to-make-the-question-section-large.and-another-long-label-for-the-same-purpose.mq.test.", uniq()))
			q.nq, q.nqdistinct = 10, true
			q.opt, q.optsize = sz >= 0, uint16(max(sz, 0))
			q.id = uint16(5700 + k)
			inl.sendMay("udp", src, q, 2*time.Second)
		}
	}
}
