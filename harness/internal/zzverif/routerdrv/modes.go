//go:build verif

package main

import (
	"encoding/json"
	"fmt"
	"os"
	"strings"
	"sync"
	"time"

	"github.com/miekg/dns"
)

var allListeners = []string{"udp", "tcp", "gnet", "tls", "http", "https", "fasthttp", "quic"}

var qSerial int32

func uniq() string { return fmt.Sprintf("q%d", qnCtr.Add(1)+100000) }

func par(n int, f func(i int)) {
	var wg sync.WaitGroup
	for i := 0; i < n; i++ {
		wg.Add(1)
		go func(i int) { defer wg.Done(); f(i) }(i)
	}
	wg.Wait()
}

// standard zones: z1 -> set s1, z2 -> set s2, z3 in no set
func stdSets() map[string][]string {
	return map[string][]string{"s1": {"domain:z1.test", "# comment"}, "s2": {"z2.test", "full:exact.z3.test"}}
}

// ---------------------------------------------------------------- C03 (+C12 response side, C04 light)
func modeC03(thorough bool) {
	in, err := newInst("c03", instOpts{
		listeners: allListeners,
		upstreams: map[string]string{"u1": "udp", "u2": "tcp", "u3": "tcp+pipeline"},
		sets:      map[string][]string{"s1": {"domain:z1.test"}, "s2": {"domain:z2.test"}, "s3": {"domain:z3.test"}, "s4": {"domain:z4.test"}, "s5": {"domain:z5.test"}},
		rules: []ruleSpec{{Set: "s1", Forward: "u1"}, {Set: "s2", Forward: "u2"}, {Set: "s3", Reject: 3}, {Set: "s4"}, {Set: "s5", Forward: "u3"}},
	})
	if err != nil {
		panic(err)
	}
	defer in.close()
	type job struct {
		lst string
		q   qspec
		hdr map[string]string
	}
	var jobs []job
	outcomes := []string{"r0t60d0", "r2t0d0", "r3t10d0fA", "r5t0d0", "r0t60d30", "r0t5d0fG", "r0t5d0fC", "r0t5d0fS", "r0t60d0fO", "r0t60d0fT"}
	zones := []string{"z1", "z2", "z5"}
	k := 0
	for _, lst := range allListeners {
		for _, oc := range outcomes {
			for zi, z := range zones {
				if !thorough && (k+zi)%3 != 0 && oc != "r0t5d0fS" {
					continue
				}
				q := mkq(fmt.Sprintf("%s.%s.%s.test.", uniq(), oc, z))
				q.opt = k%2 == 0
				q.optopts = k%4 == 0
				q.id = uint16(1000 + k*13)
				jobs = append(jobs, job{lst: lst, q: q})
			}
			k++
		}
		// unsupported queries and rule outcomes
		base := func(z string) qspec { q := mkq(fmt.Sprintf("%s.r0t60d0.%s.test.", uniq(), z)); q.id = uint16(2000 + len(jobs)); return q }
		q1 := base("z1")
		q1.rd = false
		q2 := base("z1")
		q2.opcode = 2
		q3 := base("z1")
		q3.nq = 2
		q4 := base("z1")
		q4.nq = 0
		q5 := base("z1")
		q5.opt, q5.rd = true, false
		q6 := base("z3") // reject 3
		q7 := base("z4") // rule without action
		q8 := base("z9") // no rule
		q9 := base("z1")
		q9.name = "MiXeD." + q9.name // case-insensitive question echo
		q10 := base("z1")
		q10.opcode, q10.opt = 5, true
		q11 := base("z3")
		q11.opt = true
		q12 := base("z1")
		q12.typ = dns.TypeAAAA
		q13 := base("z1")
		q13.cls = dns.ClassCHAOS
		for _, q := range []qspec{q1, q2, q3, q4, q5, q6, q7, q8, q9, q10, q11, q12, q13} {
			jobs = append(jobs, job{lst: lst, q: q})
		}
		if lst == "http" || lst == "https" || lst == "fasthttp" {
			jobs = append(jobs, job{lst: lst, q: base("z1"), hdr: map[string]string{"method": "GET"}})
		}
	}
	par(len(jobs), func(i int) {
		time.Sleep(time.Duration(i%40) * 5 * time.Millisecond)
		in.send(jobs[i].lst, "", jobs[i].q, 9*time.Second, jobs[i].hdr)
	})
	time.Sleep(100 * time.Millisecond)
}

// ---------------------------------------------------------------- C10: rule lists

func modeC10(rulesFile string) {
	raw, err := os.ReadFile(rulesFile)
	if err != nil {
		panic(err)
	}
	var lists [][]ruleSpec
	if err := json.Unmarshal(raw, &lists); err != nil {
		panic(err)
	}
	sem := make(chan struct{}, 12)
	var wg sync.WaitGroup
	for li, rl := range lists {
		wg.Add(1)
		sem <- struct{}{}
		go func(li int, rl []ruleSpec) {
			defer wg.Done()
			defer func() { <-sem }()
			in, err := newInst(fmt.Sprintf("c10-%04d", li), instOpts{
				listeners: []string{"udp", "tcp"},
				upstreams: map[string]string{"u1": "udp", "u2": "tcp"},
				sets:      stdSets(),
				rules:     rl,
				cacheMem:  (li % 2) * 1 << 20,
			})
			if err != nil {
				in.tr.Emit("boot.err", "err", err.Error())
				in.close()
				return
			}
			names := []string{"a.z1.test.", "z1.test.", "b.z2.test.", "exact.z3.test.", "other.z3.test.", "z9.test.", "A.Z1.TEST."}
			par(len(names), func(i int) {
				lst := []string{"udp", "tcp"}[i%2]
				q := mkq(uniq() + ".r0t60d0." + names[i])
				if names[i] == "exact.z3.test." || names[i] == "z1.test." {
					q = mkq(names[i])
				}
				q.id = uint16(li*16 + i)
				q.typ = []uint16{dns.TypeA, dns.TypeAAAA, dns.TypeTXT}[i%3]
				in.send(lst, "", q, 8*time.Second, nil)
				if i%3 == 0 { // repeat: may come from cache, must not reach another upstream
					in.send(lst, "", q, 8*time.Second, nil)
				}
			})
			in.close()
		}(li, rl)
	}
	wg.Wait()
}

// ---------------------------------------------------------------- C10: start-up decisions (in-process)
func modeC10Boot() {
	type bc struct {
		name                                       string
		unkFwd, unkSet, dupUp, dupSet, rejectToo bool
	}
	cases := []bc{{name: "valid"}, {name: "unkfwd", unkFwd: true}, {name: "unkfwd-reject", unkFwd: true, rejectToo: true},
		{name: "unkset", unkSet: true}, {name: "unkset-reject", unkSet: true, rejectToo: true}, {name: "dupup", dupUp: true}, {name: "dupset", dupSet: true},
		{name: "unkfwd-late", unkFwd: true}}
	for i, c := range cases {
		o := instOpts{listeners: []string{"udp"}, upstreams: map[string]string{"u1": "udp", "u2": "tcp"}, sets: stdSets(),
			rules: []ruleSpec{{Set: "s1", Forward: "u1"}, {Forward: "u2"}}}
		r := ruleSpec{Forward: "u1"}
		if c.unkFwd {
			r.Forward = "u9"
		}
		if c.unkSet {
			r.Set = "s9"
		}
		if c.rejectToo {
			r.Reject = 3
		}
		if c.name == "unkfwd-late" {
			o.rules = append(o.rules, r)
		} else {
			o.rules = append([]ruleSpec{r}, o.rules...)
		}
		in, err := newInstDup(fmt.Sprintf("c10boot-%d", i), o, c.dupUp, c.dupSet)
		started := err == nil
		e := ""
		if err != nil {
			e = err.Error()
		}
		in.tr.Emit("boot", "case", c.name, "unkfwd", c.unkFwd, "unkset", c.unkSet, "dupup", c.dupUp, "dupset", c.dupSet, "unkkey", false,
			"started", started, "how", "inprocess", "err", e)
		in.close()
	}
}

// ---------------------------------------------------------------- C07: cache keying and client groups
func modeC07(thorough bool) {
	in, err := newInst("c07", instOpts{
		listeners: []string{"udp", "tcp", "http"},
		upstreams: map[string]string{"u1": "udp"},
		rules:     []ruleSpec{{Forward: "u1"}},
		cacheMem:  8 << 20,
		xffHeader: "X-Client",
		ipMarker: []string{"127.0.1.0,127.0.1.255,office", "127.0.2.5,127.0.2.5,single", "127.0.2.6,127.0.3.0,office",
			"2001:db8::,2001:db8::ffff,v6lab", "10.0.0.0,10.0.0.255,ten", "192.0.2.1,192.0.2.1,one"},
	})
	if err != nil {
		panic(err)
	}
	defer in.close()
	rounds := 6
	if thorough {
		rounds = 40
	}
	// background churn so that pooled buffers carry other requests' bytes
	stop := make(chan struct{})
	go func() {
		for k := 0; k < 120; k++ {
			select {
			case <-stop:
				return
			default:
			}
			q := mkq(fmt.Sprintf("%s.r0t60d0.churn%d.test.", uniq(), k%7))
			q.typ = []uint16{dns.TypeA, dns.TypeTXT, 0xff01}[k%3]
			q.cls = []uint16{dns.ClassINET, dns.ClassCHAOS, 0x7f7f}[k%3]
			in.send("udp", "127.0.9.1", q, 3*time.Second, nil)
		}
	}()
	par(rounds, func(i int) {
		flags := []string{"", "fM", ""}[i%3]
		base := fmt.Sprintf("%s.r0t60d0%s.zz.test.", uniq(), flags)
		if i%4 == 3 {
			base = fmt.Sprintf("%s.r3t20d0fA.zz.test.", uniq()) // negative answers are cached too
		}
		ask := func(lst, src, name string, typ, cls uint16, xff string) {
			q := mkq(name)
			q.typ, q.cls = typ, cls
			q.id = uint16(i*100 + int(qnCtr.Load())%97)
			var hdr map[string]string
			if xff != "" {
				hdr = map[string]string{"X-Client": xff}
			}
			in.send(lst, src, q, 4*time.Second, hdr)
		}
		A, IN := dns.TypeA, uint16(dns.ClassINET)
		ask("udp", "127.0.1.1", base, A, IN, "")                       // first: miss, stored for group office
		ask("udp", "127.0.1.1", base, A, IN, "")                       // repeat: must hit
		ask("tcp", "127.0.1.77", strings.ToUpper(base), A, IN, "")     // other case, same group (other address, other listener)
		ask("udp", "127.0.2.7", base, A, IN, "")                       // other range, same label: same group
		ask("udp", "127.0.1.1", base, dns.TypeAAAA, IN, "")            // other type
		ask("udp", "127.0.1.1", base, A, dns.ClassCHAOS, "")           // other class
		ask("udp", "127.0.1.1", base, A, 254, "")                      // other class (unusual)
		ask("udp", "127.0.1.1", "x"+base, A, IN, "")                   // other name
		ask("udp", "127.0.2.5", base, A, IN, "")                       // other group (single-address range)
		ask("udp", "127.0.2.4", base, A, IN, "")                       // just below that range: no group
		ask("udp", "127.0.3.1", base, A, IN, "")                       // just above the office range: no group
		ask("udp", "127.0.9.9", base, A, IN, "")                       // no group again: must hit the no-group entry
		ask("http", "", base, A, IN, "10.0.0.7")                       // group ten via client address header
		ask("http", "", base, A, IN, "::ffff:10.0.0.200")              // IPv4-mapped form of the same range: same group
		ask("http", "", base, A, IN, "2001:db8::1")                    // v6 range
		ask("http", "", base, A, IN, "2001:db8::1:0")                  // just above the v6 range: no group
		ask("http", "", base, A, IN, "192.0.2.1, 10.9.9.9")            // first address of a list counts
		ask("udp", "127.0.1.1", base, A, IN, "")                       // and the first entry is still there
	})
	// refresh window: hits in the last quarter of an 8 s entry start background refreshes while
	// other requests are in flight (recycled request objects)
	nref := 12
	if thorough {
		nref = 60
	}
	var names []string
	for i := 0; i < nref; i++ {
		names = append(names, fmt.Sprintf("%s.r0t8d25.pf.test.", uniq()))
	}
	par(nref, func(i int) { in.send("udp", "127.0.1.1", mkq(names[i]), 3*time.Second, nil) })
	time.Sleep(6400 * time.Millisecond) // last quarter of the 8 s lifetime, more than the cache clock's 1 s granularity left
	par(nref*3, func(i int) {
		if i%3 == 0 {
			in.send("udp", "127.0.1.1", mkq(names[i/3]), 3*time.Second, nil)
		} else {
			time.Sleep(time.Duration(i%7) * time.Millisecond)
			in.send("tcp", "127.0.1.2", mkq(fmt.Sprintf("%s.r3t20d15fA.other.test.", uniq())), 3*time.Second, nil)
		}
	})
	close(stop)
	time.Sleep(200 * time.Millisecond)
}
