//go:build verif

// routerdrv runs the real router in-process with scripted upstreams and independent clients
// on every listener kind, and records client/upstream observations and hook events, one
// ndjson trace per router instance (written into -dir).
package main

import (
	"flag"
	"fmt"
	"os"
	"time"

	"github.com/IrineSistiana/mosproxy/internal/pool"
	"github.com/IrineSistiana/mosproxy/internal/zzverif/vtrace"
)

func main() {
	dir := flag.String("dir", ".", "output directory")
	mode := flag.String("mode", "c03", "")
	rules := flag.String("rules", "", "")
	thorough := flag.Bool("thorough", false, "")
	nopoison := flag.Bool("nopoison", false, "released buffers go straight back to the pool (no poison, no quarantine)")
	bypass := flag.Bool("bypass", false, "buffer pool instrumentation off altogether (no registry lock: requests run in parallel as in production)")
	rds := flag.String("redis", "", "only | both: instances with a cache get a (fake) redis server as second-level cache, alone or behind the memory cache")
	flag.Parse()
	useRedis = *rds
	pool.VerifPassThrough.Store(*nopoison)
	pool.VerifBypass.Store(*bypass)
	workdir = *dir
	os.MkdirAll(workdir, 0o755)
	seed = vtrace.Seed()
	installSink()
	// watchdog: a wedged router (spinning or deadlocked code under test) must not hang the driver
	budget := map[string]time.Duration{"c01": 90 * time.Second, "c03": 60 * time.Second, "c13": 300 * time.Second}[*mode]
	if budget == 0 {
		budget = 240 * time.Second
	}
	if *thorough {
		budget *= 4
	}
	time.AfterFunc(budget, func() {
		instMu.Lock()
		for _, in := range insts {
			in.tr.Emit("hang", "what", "driver watchdog: mode "+*mode+" did not finish")
			in.tr.Flush()
		}
		instMu.Unlock()
		fmt.Println("watchdog: giving up")
		os.Exit(3)
	})
	switch *mode {
	case "c03":
		modeC03(*thorough)
	case "c10":
		modeC10(*rules)
	case "c10pf":
		modeC10Prefetch()
	case "c10boot":
		modeC10Boot()
	case "c07":
		modeC07(*thorough)
	case "c12":
		modeC12(*thorough)
	case "c01":
		modeC01(*thorough)
	case "c17":
		modeC17(*rules)
	case "c18":
		modeC18()
	case "c04":
		modeC04(*thorough)
	case "c20redis":
		modeC20Redis()
	case "c15live":
		modeC15Live()
	case "c09":
		modeC09()
	case "c20gone":
		goneScenario()
	case "c13":
		modeC13(*rules, *thorough)
	case "connlife":
		modeConnLife(*rules)
	case "c08":
		modeC08(*thorough, "c08")
	case "c19":
		modeC08(*thorough, "c19")
	default:
		panic("unknown mode")
	}
	fmt.Println("done", *mode)
}
