//go:build verif

package main

import (
	"encoding/binary"
	"encoding/json"
	"fmt"
	"os"
	"sync"
	"time"

	"github.com/miekg/dns"
)

// mode connlife: client scripts enumerated by TLC from ConnLife.tla (when each query of a connection is sent and
// how long the upstream takes for it, in ticks of 500 ms; the listener's idle time-out is 2 ticks = 1 s) are run
// against the real stream listeners, every script on its own connection: what the client sees - responses and the
// moment the proxy closes the connection - goes to ConnLifeTrace.

type clSend struct {
	At    int `json:"at"`
	Delay int `json:"delay"`
}

type clScenario struct {
	Sends  []clSend `json:"sends"`
	Closed int      `json:"closed"`
}

const clTick = 500 * time.Millisecond

func modeConnLife(file string) {
	b, err := os.ReadFile(file)
	if err != nil {
		panic(err)
	}
	var scns []clScenario
	if err := json.Unmarshal(b, &scns); err != nil {
		panic(err)
	}
	lsts := []string{"tcp", "gnet", "tls"}
	in, err := newInst("connlife", instOpts{listeners: lsts, upstreams: map[string]string{"u1": "udp"}, rules: []ruleSpec{{Forward: "u1"}}, idleTimeout: 1})
	if err != nil {
		panic(err)
	}
	defer in.close()
	var wg sync.WaitGroup
	sem := make(chan struct{}, 240)
	for si, sc := range scns {
		for _, lst := range lsts {
			wg.Add(1)
			sem <- struct{}{}
			go func(si int, sc clScenario, lst string) {
				defer wg.Done()
				defer func() { <-sem }()
				runConnLife(in, lst, si, sc)
			}(si, sc, lst)
		}
		time.Sleep(3 * time.Millisecond)
	}
	wg.Wait()
}

func runConnLife(in *inst, lst string, si int, sc clScenario) {
	instMu.Lock()
	connCtr++
	conn := connCtr
	instMu.Unlock()
	c, err := streamConn(in, lst)
	if err != nil {
		in.tr.Emit("cl2.err", "conn", conn, "err", err.Error())
		return
	}
	defer c.Close()
	t0 := time.Now()
	ms := func() int { return int(time.Since(t0) / time.Millisecond) }
	in.tr.Emit("cl2.conn", "conn", conn, "lst", lst, "scn", si, "idlems", 1000, "nq", len(sc.Sends), "modelclose", sc.Closed*int(clTick/time.Millisecond))
	done := make(chan struct{})
	go func() { // reader: responses, then the proxy's close
		defer close(done)
		var got []byte
		buf := make([]byte, 4096)
		for {
			c.SetReadDeadline(t0.Add(time.Duration(sc.Closed)*clTick + 3*time.Second))
			n, err := c.Read(buf)
			got = append(got, buf[:n]...)
			for len(got) >= 2 {
				l := int(binary.BigEndian.Uint16(got))
				if len(got) < 2+l {
					break
				}
				m := new(dns.Msg)
				if m.Unpack(got[2:2+l]) != nil {
					in.tr.Emit("cl2.r", "conn", conn, "i", -1, "t", ms(), "rcode", -1)
				} else {
					in.tr.Emit("cl2.r", "conn", conn, "i", int(m.Id), "t", ms(), "rcode", m.Rcode)
				}
				got = got[2+l:]
			}
			if err != nil {
				if ne, ok := err.(interface{ Timeout() bool }); ok && ne.Timeout() {
					in.tr.Emit("cl2.noeof", "conn", conn, "t", ms())
				} else {
					in.tr.Emit("cl2.eof", "conn", conn, "t", ms(), "err", err.Error(), "pending", len(got))
				}
				return
			}
		}
	}()
	for i, s := range sc.Sends {
		if d := time.Until(t0.Add(time.Duration(s.At) * clTick)); d > 0 {
			time.Sleep(d)
		}
		q := mkq(fmt.Sprintf("%s.r0t60d%d.cl.test.", uniq(), s.Delay*int(clTick/time.Millisecond)+130))
		q.id = uint16(i + 1)
		w := q.wire()
		f := make([]byte, 2+len(w))
		binary.BigEndian.PutUint16(f, uint16(len(w)))
		copy(f[2:], w)
		in.tr.Emit("cl2.q", "conn", conn, "i", i+1, "t", ms(), "delayms", s.Delay*int(clTick/time.Millisecond)+130)
		if _, err := c.Write(f); err != nil {
			in.tr.Emit("cl2.werr", "conn", conn, "i", i+1, "t", ms(), "err", err.Error())
			break
		}
	}
	<-done
}
