//go:build verif

package main

import (
	"bufio"
	"bytes"
	"context"
	"crypto/tls"
	"encoding/base64"
	"encoding/binary"
	"fmt"
	"io"
	"net"
	"net/http"
	"net/netip"
	"os"
	"path/filepath"
	"strings"
	"sync"
	"sync/atomic"
	"time"

	"github.com/IrineSistiana/mosproxy/app/router"
	"github.com/IrineSistiana/mosproxy/internal/dnsmsg"
	"github.com/IrineSistiana/mosproxy/internal/verifhook"
	"github.com/IrineSistiana/mosproxy/internal/zzverif/vtrace"
	"github.com/miekg/dns"
	"github.com/quic-go/quic-go"
)

var (
	workdir string
	seed    int64
	instMu  sync.Mutex
	insts   []*inst
	qnCtr   atomic.Int32
)

type inst struct {
	name  string
	tr    *vtrace.T
	vr    *router.VerifRouter
	redis *fakeRedis
	ups   map[string]*fakeUp
	ports map[string]int
	cfg   *router.Config
	h1    *http.Client
}

var keepClients sync.Map

func freePort(udp bool) int {
	if udp {
		c, err := net.ListenUDP("udp", &net.UDPAddr{IP: net.IPv4(127, 0, 0, 1)})
		if err != nil {
			panic(err)
		}
		defer c.Close()
		return c.LocalAddr().(*net.UDPAddr).Port
	}
	l, err := net.Listen("tcp", "127.0.0.1:0")
	if err != nil {
		panic(err)
	}
	defer l.Close()
	return l.Addr().(*net.TCPAddr).Port
}

type ruleSpec struct {
	Set     string // domain set tag or ""
	Reverse bool
	Reject  int
	Forward string
}

type instOpts struct {
	listeners   []string            // udp tcp gnet tls http https fasthttp quic
	upstreams   map[string]string   // tag -> scheme ("udp", "tcp", "tcp+pipeline")
	sets        map[string][]string // tag -> lines ("domain:z1.test")
	rules       []ruleSpec
	cacheMem    int
	maxTTL      int
	ecs         bool
	ipMarker    []string // lines "start,end,label"
	clients     []string // addresses the scenario's clients use (C15 live part)
	limiter     router.LimiterConfig
	maxConc     int32
	xffHeader   string
	logQueries  bool
	idleTimeout int  // seconds, stream listeners
	metrics     bool // the prometheus endpoint is configured (its port: in.ports["metrics"])
}

// newInst builds a configuration, starts fake upstreams and the real router in-process.
func newInst(name string, o instOpts) (*inst, error) { return newInstDup(name, o, false, false) }

// newInstDup optionally repeats an upstream / domain-set tag in the configuration (start-up must reject it)
func newInstDup(name string, o instOpts, dupUp, dupSet bool) (*inst, error) {
	in := &inst{name: name, ups: map[string]*fakeUp{}, ports: map[string]int{}}
	in.tr = vtrace.Open(filepath.Join(workdir, name+".ndjson"))
	cfg := &router.Config{}
	for tag, scheme := range o.upstreams {
		u := newFakeUp(tag, func() *vtrace.T { return in.tr })
		in.ups[tag] = u
		cfg.Upstreams = append(cfg.Upstreams, router.UpstreamConfig{Tag: tag, Addr: u.url(scheme)})
	}
	setsJS := map[string][]string{}
	for tag, lines := range o.sets {
		fp := filepath.Join(workdir, fmt.Sprintf("%s-%s.txt", name, tag))
		var b bytes.Buffer
		for _, l := range lines {
			b.WriteString(l + "\n")
		}
		os.WriteFile(fp, b.Bytes(), 0o644)
		cfg.DomainSets = append(cfg.DomainSets, router.DomainSetConfig{Tag: tag, Files: []string{fp}})
		setsJS[tag] = lines
	}
	var rulesJS []map[string]any
	for _, r := range o.rules {
		cfg.Rules = append(cfg.Rules, router.RuleConfig{Reverse: r.Reverse, Domain: r.Set, Reject: uint16(r.Reject), Forward: r.Forward})
		rulesJS = append(rulesJS, map[string]any{"set": r.Set, "rev": r.Reverse, "reject": r.Reject, "fwd": r.Forward})
	}
	if rulesJS == nil {
		rulesJS = []map[string]any{}
	}
	cfg.Cache.MemSize = o.cacheMem
	if o.cacheMem > 0 && useRedis != "" { // -redis: the second-level cache, alone or behind the memory cache
		in.redis = newFakeRedis()
		cfg.Cache.Redis = in.redis.url()
		if useRedis == "only" {
			cfg.Cache.MemSize = 0
		}
	}
	cfg.Cache.MaximumTTL = o.maxTTL
	if len(o.ipMarker) > 0 {
		fp := filepath.Join(workdir, name+"-marker.txt")
		var b bytes.Buffer
		for _, l := range o.ipMarker {
			b.WriteString(l + "\n")
		}
		os.WriteFile(fp, b.Bytes(), 0o644)
		cfg.Cache.IpMarker = fp
	}
	cfg.ECS.Enabled = o.ecs
	cfg.Log.Queries = o.logQueries
	cfg.Limiter = o.limiter
	pickPorts := func() {
		cfg.Servers = nil
		if o.metrics {
			in.ports["metrics"] = freePort(false)
			cfg.Metrics.Addr = fmt.Sprintf("127.0.0.1:%d", in.ports["metrics"])
		}
		for _, k := range o.listeners {
			p := freePort(k == "udp" || k == "quic" || k == "udpmr" || k == "udpth")
			in.ports[k] = p
			sc := router.ServerConfig{Tag: k, Protocol: k, Listen: fmt.Sprintf("127.0.0.1:%d", p)}
			if k == "udpth" { // UDP listener with several reader threads (one SO_REUSEPORT socket each)
				sc.Protocol = "udp"
				sc.Udp.Threads = 3
			}
			if k == "udpmr" { // wildcard UDP listener that answers from the address the query was sent to
				sc.Protocol, sc.Listen = "udp", fmt.Sprintf("0.0.0.0:%d", p)
				sc.Udp.MultiRoutes = true
			}
			sc.IdleTimeout = o.idleTimeout
			sc.Tls.DebugUseTempCert = true
			sc.Tcp.MaxConcurrentQueries = o.maxConc
			sc.Http.ClientAddrHeader = o.xffHeader
			cfg.Servers = append(cfg.Servers, sc)
		}
	}
	pickPorts()
	if dupUp && len(cfg.Upstreams) > 0 {
		cfg.Upstreams = append(cfg.Upstreams, cfg.Upstreams[0])
	}
	if dupSet && len(cfg.DomainSets) > 0 {
		cfg.DomainSets = append(cfg.DomainSets, cfg.DomainSets[0])
	}
	in.cfg = cfg
	// the configuration as the specification sees it
	setsEv := map[string]any{}
	for tag, lines := range o.sets {
		var es []any
		for _, l := range lines {
			es = append(es, vtrace.Bytes([]byte(l)))
		}
		setsEv[tag] = es
	}
	var settags []string
	for tag := range o.sets {
		settags = append(settags, tag)
	}
	var setlines [][][]int
	for _, tag := range settags {
		var ls [][]int
		for _, l := range o.sets[tag] {
			ls = append(ls, vtrace.Bytes([]byte(l)))
		}
		setlines = append(setlines, ls)
	}
	if settags == nil {
		settags = []string{}
		setlines = [][][]int{}
	}
	markers := []any{}
	for _, l := range o.ipMarker {
		if i := strings.IndexByte(l, '#'); i >= 0 { // the file format: a '#' starts a comment, blanks around are dropped
			l = l[:i]
		}
		p := strings.SplitN(strings.TrimSpace(l), ",", 3)
		if len(p) < 3 {
			continue
		}
		a, _ := netip.ParseAddr(p[0])
		b, _ := netip.ParseAddr(p[1])
		a16, b16 := a.As16(), b.As16()
		markers = append(markers, map[string]any{"lo": vtrace.Bytes(a16[:]), "hi": vtrace.Bytes(b16[:]), "label": vtrace.Bytes([]byte(p[2]))})
	}
	clientsJS := []any{}
	for _, c := range o.clients {
		a, _ := netip.ParseAddr(c)
		clientsJS = append(clientsJS, addrJS(a))
	}
	in.tr.Emit("cfg", "clients", clientsJS, "v4mask", o.limiter.Client.V4Mask, "v6mask", o.limiter.Client.V6Mask, "markers", markers, "rules", rulesJS, "settags", settags, "setlines", setlines, "ecs", o.ecs, "cache", o.cacheMem > 0,
		"maxttl", o.maxTTL, "maxconc", int(o.maxConc), "limit", o.limiter.Client.Limit, "burst", o.limiter.Client.Burst)
	instMu.Lock()
	insts = append(insts, in)
	instMu.Unlock()
	vr, err := router.VerifRun(cfg)
	for try := 0; err != nil && strings.Contains(err.Error(), "address already in use") && try < 8; try++ {
		pickPorts() // another instance grabbed a port between probing and binding
		vr, err = router.VerifRun(cfg)
	}
	if err != nil {
		return in, err
	}
	in.vr = vr
	in.h1 = &http.Client{Timeout: 9 * time.Second}
	if in.redis != nil {
		time.Sleep(1300 * time.Millisecond) // the proxy uses the server after its first successful ping (1 s tick)
	}
	return in, nil
}

func (in *inst) close() {
	if in.vr != nil {
		in.vr.Close()
	}
	for _, u := range in.ups {
		u.close()
	}
	if in.redis != nil {
		in.tr.Emit("note", "what", "redis", "sets", in.redis.sets.Load(), "gets", in.redis.gets.Load(), "hits", in.redis.hits.Load())
		in.redis.close()
	}
	instMu.Lock()
	for i, x := range insts {
		if x == in {
			insts = append(insts[:i], insts[i+1:]...)
			break
		}
	}
	instMu.Unlock()
	in.tr.Close()
}

func owner(x any) *inst {
	instMu.Lock()
	defer instMu.Unlock()
	for _, in := range insts {
		if in.vr != nil && in.vr.Owns(x) {
			return in
		}
	}
	return nil
}

func nameJS(n []byte) [][]int {
	r := [][]int{}
	sc := dnsmsg.NewNameScanner(n)
	for sc.Scan() {
		r = append(r, vtrace.Bytes(sc.Label()))
	}
	return r
}

func addrJS(a netip.Addr) map[string]any {
	if !a.IsValid() {
		return map[string]any{"fam": 0, "o": []int{}}
	}
	if a.Is4() {
		b := a.As4()
		return map[string]any{"fam": 4, "o": vtrace.Bytes(b[:])}
	}
	b := a.As16()
	return map[string]any{"fam": 6, "o": vtrace.Bytes(b[:])}
}

func tokOfMsg(m *dnsmsg.Msg) int {
	if m == nil {
		return 0
	}
	for _, rr := range m.Answers {
		if a, ok := rr.(*dnsmsg.A); ok && a.A[0] < 200 {
			return int(binary.BigEndian.Uint32(a.A[:]))
		}
	}
	for _, rr := range m.Authorities {
		if s, ok := rr.(*dnsmsg.SOA); ok {
			return int(s.Serial)
		}
	}
	return 0
}

var own *vtrace.Own

var useRedis string // "", "only", "both"

var stormOn atomic.Bool
var stormAddr = netip.MustParseAddr("127.0.9.9")

func installSink() {
	verifhook.SetSink(func(name string, args []any) {
		if own != nil && own.Handle(name, args) {
			return
		}
		switch name {
		case "rt.req", "rt.done", "rt.rule", "rt.fwd", "cache.get", "cache.store", "cache.stored", "pf.reserve", "pf.done", "lim.cl":
		default:
			return
		}
		if stormOn.Load() { // direct bursts (modes.go, directStorm): the burst's own requests are not recorded
			switch name {
			case "rt.req", "rt.done", "rt.rule":
				if router.VerifReadRC(args[2]).Remote.Addr() == stormAddr {
					return
				}
			case "cache.get":
				if router.VerifReadRC(args[7]).Remote.Addr() == stormAddr {
					return
				}
			case "pf.reserve":
				if !args[2].(bool) {
					return
				}
			}
		}
		in := owner(args[0])
		if in == nil {
			return
		}
		tr := in.tr
		switch name {
		case "rt.req":
			q := args[1].(*dnsmsg.Question)
			rc := router.VerifReadRC(args[2])
			tr.Emit(name, "uid", int(rc.Uid), "name", nameJS(q.Name), "cls", int(q.Class), "typ", int(q.Type), "remote", addrJS(rc.Remote.Addr()))
		case "rt.rule":
			q := args[1].(*dnsmsg.Question)
			rc := router.VerifReadRC(args[2])
			tr.Emit(name, "uid", int(rc.Uid), "name", nameJS(q.Name), "idx", args[3].(int)+1)
		case "rt.fwd":
			q := args[1].(*dnsmsg.Question)
			tr.Emit(name, "name", nameJS(q.Name), "cls", int(q.Class), "typ", int(q.Type), "up", args[2].(string), "remote", addrJS(args[3].(netip.Addr)))
		case "rt.done":
			q := args[1].(*dnsmsg.Question)
			rc := router.VerifReadRC(args[2])
			tr.Emit(name, "uid", int(rc.Uid), "name", nameJS(q.Name), "cached", rc.Cached, "rcode", rc.RCode, "mark", vtrace.Bytes([]byte(rc.IpMark)), "hasmsg", rc.HasMsg)
		case "cache.get":
			q := args[5].(*dnsmsg.Question)
			rc := router.VerifReadRC(args[7])
			st := args[3].(time.Time)
			ex := args[4].(time.Time)
			sms, ems := 0, 0
			if !st.IsZero() {
				sms, ems = tr.MsOf(st), tr.MsOf(ex)
			}
			tr.Emit(name, "uid", int(rc.Uid), "key", vtrace.Bytes(args[1].([]byte)), "hit", args[2], "stored", sms, "expire", ems,
				"name", nameJS(q.Name), "cls", int(q.Class), "typ", int(q.Type), "mark", vtrace.Bytes([]byte(args[6].(string))), "remote", addrJS(rc.Remote.Addr()))
		case "cache.store":
			q := args[5].(*dnsmsg.Question)
			m := args[7].(*dnsmsg.Msg)
			tr.Emit(name, "key", vtrace.Bytes(args[1].([]byte)), "stored", tr.MsOf(args[2].(time.Time)), "expire", tr.MsOf(args[3].(time.Time)),
				"neg", args[4], "name", nameJS(q.Name), "cls", int(q.Class), "typ", int(q.Type), "mark", vtrace.Bytes([]byte(args[6].(string))),
				"tok", tokOfMsg(m), "rcode", int(m.RCode), "tc", m.Truncated)
		case "cache.stored":
			tr.Emit(name, "key", vtrace.Bytes(args[1].([]byte)), "stored", tr.MsOf(args[2].(time.Time)))
		case "pf.reserve":
			k := args[1].(uint64)
			tr.Emit(name, "key", []int{int(k >> 48), int(k >> 32 & 0xffff), int(k >> 16 & 0xffff), int(k & 0xffff)}, "ok", args[2])
		case "pf.done":
			k := args[1].(uint64)
			tr.Emit(name, "key", []int{int(k >> 48), int(k >> 32 & 0xffff), int(k >> 16 & 0xffff), int(k & 0xffff)})
		case "lim.cl":
			tr.Emit(name, "addr", addrJS(args[1].(netip.Addr)), "key", addrJS(args[2].(netip.Addr)), "n", args[4], "res", args[5], "now", tr.MsOf(args[3].(time.Time)))
		}
	})
}

// ---------------------------------------------------------------- clients

type qspec struct {
	name       string
	typ        uint16
	cls        uint16
	id         uint16
	rd         bool
	opcode     int
	qr         bool
	nq         int // number of questions (default 1); extra questions are copies with another name
	opt        bool
	optsize    uint16
	optopts    bool // option-laden OPT (cookie, ECS, padding, DO)
	nqdistinct bool // further questions (nq > 1) get unrelated names
	optzero    bool // advertise a UDP size of 0
	mayRefuse  bool // the scenario expects that this query may be refused by the rate limiter
	optmid     bool // another record follows the OPT in the additional section
	raw        []byte
}

func (q qspec) wire() []byte {
	if q.raw != nil {
		return q.raw
	}
	m := new(dns.Msg)
	m.Id = q.id
	m.RecursionDesired = q.rd
	m.Opcode = q.opcode
	m.Response = q.qr
	for i := 0; i < q.nq; i++ {
		n := q.name
		if i > 0 {
			n = fmt.Sprintf("x%d.%s", i, q.name)
			if q.nqdistinct { // names that share no suffix: name compression cannot shrink the question section
				n = fmt.Sprintf("a-rather-long-label-to-make-the-question-section-large-%d.and-another-long-label-for-the-same-purpose-%d.mq%d.", i, i, i)
			}
		}
		m.Question = append(m.Question, dns.Question{Name: n, Qtype: q.typ, Qclass: q.cls})
	}
	if q.opt {
		o := &dns.OPT{Hdr: dns.RR_Header{Name: ".", Rrtype: dns.TypeOPT}}
		sz := q.optsize
		if sz == 0 && !q.optzero {
			sz = 1232
		}
		o.SetUDPSize(sz)
		if q.optopts {
			o.SetDo()
			o.Option = append(o.Option, &dns.EDNS0_COOKIE{Code: dns.EDNS0COOKIE, Cookie: "fedcba9876543210"},
				&dns.EDNS0_SUBNET{Code: dns.EDNS0SUBNET, Family: 1, SourceNetmask: 32, Address: net.IPv4(8, 8, 4, 4)},
				&dns.EDNS0_PADDING{Padding: make([]byte, 9)})
		}
		m.Extra = append(m.Extra, o)
		if q.optmid {
			m.Extra = append(m.Extra, &dns.TXT{Hdr: dns.RR_Header{Name: "after-opt.test.", Rrtype: dns.TypeTXT, Class: dns.ClassINET, Ttl: 0}, Txt: []string{"x"}})
		}
	}
	w, err := m.Pack()
	if err != nil {
		panic(err)
	}
	return w
}

func (q qspec) effSize() uint16 {
	if !q.opt {
		return 0
	}
	if q.optsize == 0 && !q.optzero {
		return 1232
	}
	return q.optsize
}

func mkq(name string) qspec {
	return qspec{name: name, typ: dns.TypeA, cls: dns.ClassINET, rd: true, nq: 1, id: uint16(qnCtr.Load()*7 + 11)}
}

// send performs one query on the given listener kind from the given source address and logs
// cl.send / cl.recv (or cl.none when nothing usable came back before `wait`).
func (in *inst) send(lst, src string, q qspec, wait time.Duration, hdr map[string]string) (resp *dns.Msg, status int) {
	qn := int(qnCtr.Add(1))
	w := q.wire()
	srcA, _ := netip.ParseAddr(src)
	if src == "" {
		srcA = netip.MustParseAddr("127.0.0.1")
	}
	if (lst == "http" || lst == "https" || lst == "fasthttp") && hdr["X-Client"] == "" {
		for _, sc := range in.cfg.Servers {
			if sc.Tag == lst && sc.Http.ClientAddrHeader != "" {
				srcA = netip.Addr{} // the listener is told to read the client address from a header that is absent: unknown
			}
		}
	}
	if x := hdr["X-Client"]; x != "" { // the listener takes the client address from this header (first of a list)
		if k := strings.IndexByte(x, ','); k > 0 {
			x = x[:k]
		}
		srcA, _ = netip.ParseAddr(x)
	}
	in.tr.Emit("cl.send", "qn", qn, "lst", lst, "src", addrJS(srcA), "id", int(q.id), "qr", q.qr, "opcode", q.opcode, "rd", q.rd,
		"nq", q.nq, "name", labelsJS(q.name), "cls", int(q.cls), "typ", int(q.typ), "opt", q.opt, "optsize", int(q.effSize()), "optopts", q.optopts, "len", len(w), "mayrefuse", q.mayRefuse || (strings.HasPrefix(src, "127.0.1.") && in.name == "c15live"))
	raw, status, err := in.roundTrip(lst, src, w, wait, hdr)
	if err != nil || raw == nil {
		e := ""
		if err != nil {
			e = err.Error()
		}
		in.tr.Emit("cl.none", "qn", qn, "lst", lst, "http", status, "err", e)
		return nil, status
	}
	in.logRecv(qn, lst, status, raw)
	r := new(dns.Msg)
	if r.Unpack(raw) != nil {
		return nil, status
	}
	return r, status
}

// sendBatch pipelines the queries on one stream connection (tcp, gnet, tls): all frames go out in ONE write,
// so that the listener finds several complete frames in one read event. Responses are matched to queries by
// ID (the caller gives distinct IDs); a query without a response within `wait` is logged as cl.none.
func (in *inst) sendBatch(lst, src string, qs []qspec, wait time.Duration) {
	qns := make([]int, len(qs))
	var stream []byte
	byID := map[uint16]int{}
	for i, q := range qs {
		qns[i] = int(qnCtr.Add(1))
		w := q.wire()
		srcA := netip.MustParseAddr("127.0.0.1")
		if src != "" {
			srcA, _ = netip.ParseAddr(src)
		}
		in.tr.Emit("cl.send", "qn", qns[i], "lst", lst, "src", addrJS(srcA), "id", int(q.id), "qr", q.qr, "opcode", q.opcode, "rd", q.rd,
			"nq", q.nq, "name", labelsJS(q.name), "cls", int(q.cls), "typ", int(q.typ), "opt", q.opt, "optsize", int(q.effSize()), "optopts", q.optopts, "len", len(w), "mayrefuse", false)
		f := make([]byte, 2+len(w))
		binary.BigEndian.PutUint16(f, uint16(len(w)))
		copy(f[2:], w)
		stream = append(stream, f...)
		byID[q.id] = i
	}
	got := make([]bool, len(qs))
	fail := func(e string) {
		for i := range qs {
			if !got[i] {
				in.tr.Emit("cl.none", "qn", qns[i], "lst", lst, "http", 0, "err", e)
			}
		}
	}
	d := net.Dialer{LocalAddr: localTCP(src), Timeout: 3 * time.Second}
	c, err := d.Dial("tcp", fmt.Sprintf("127.0.0.1:%d", in.ports[lst]))
	if err != nil {
		fail(err.Error())
		return
	}
	defer c.Close()
	if lst == "tls" {
		tc := tls.Client(c, &tls.Config{InsecureSkipVerify: true})
		if err := tc.Handshake(); err != nil {
			fail(err.Error())
			return
		}
		c = tc
	}
	c.Write(stream)
	c.SetReadDeadline(time.Now().Add(wait))
	for n := 0; n < len(qs); n++ {
		h := make([]byte, 2)
		if _, err := io.ReadFull(c, h); err != nil {
			fail(err.Error())
			return
		}
		b := make([]byte, binary.BigEndian.Uint16(h))
		if _, err := io.ReadFull(c, b); err != nil {
			fail(err.Error())
			return
		}
		i, ok := -1, false
		if len(b) >= 2 {
			i, ok = byID[binary.BigEndian.Uint16(b)], true
			if _, known := byID[binary.BigEndian.Uint16(b)]; !known {
				ok = false
			}
		}
		if !ok || got[i] {
			// a response nobody asked for (or a second one): attributed to the first unanswered query so that
			// the specification sees it (wrong ID / wrong question / more than one response)
			for k := range qs {
				if !got[k] || k == len(qs)-1 {
					i = k
					break
				}
			}
		}
		got[i] = true
		in.logRecv(qns[i], lst, 0, b)
	}
}

// sendMay is send for a client that may legitimately be refused at connection level (limiter)
func (in *inst) sendMay(lst, src string, q qspec, wait time.Duration) {
	q.mayRefuse = true
	in.send(lst, src, q, wait, nil)
}

func ttlJS(t uint32) []int { return []int{int(t >> 16), int(t & 0xffff)} }

func (in *inst) logRecv(qn int, lst string, status int, raw []byte) {
	if own != nil && vtrace.PoisonRun(raw, 6) {
		own.T.Emit("own.poison", "where", "client response on "+lst)
	}
	r := new(dns.Msg)
	if err := r.Unpack(raw); err != nil {
		in.tr.Emit("cl.recv", "qn", qn, "lst", lst, "http", status, "ok", false, "size", len(raw), "wire", vtrace.Bytes(raw[:min(len(raw), 600)]))
		return
	}
	name, cls, typ := [][]int{}, 0, 0
	if len(r.Question) > 0 {
		name, cls, typ = labelsJS(r.Question[0].Name), int(r.Question[0].Qclass), int(r.Question[0].Qtype)
	}
	nopt, optcls, optrdlen := 0, 0, 0
	optttl := []int{0, 0}
	for _, rr := range r.Extra {
		if o, ok := rr.(*dns.OPT); ok {
			nopt++
			optcls = int(o.Hdr.Class)
			optttl = ttlJS(o.Hdr.Ttl)
			optrdlen = int(o.Hdr.Rdlength)
		}
	}
	for _, sec := range [][]dns.RR{r.Answer, r.Ns} {
		for _, rr := range sec {
			if rr.Header().Rrtype == dns.TypeOPT {
				nopt++
			}
		}
	}
	in.tr.Emit("cl.recv", "qn", qn, "lst", lst, "http", status, "ok", true, "size", len(raw), "id", int(r.Id), "qr", r.Response,
		"opcode", r.Opcode, "aa", r.Authoritative, "tc", r.Truncated, "rd", r.RecursionDesired, "ra", r.RecursionAvailable,
		"rcode", r.Rcode, "nq", len(r.Question), "name", name, "cls", cls, "typ", typ,
		"nopt", nopt, "optcls", optcls, "optttl", optttl, "optrdlen", optrdlen,
		"an", answersJS(r), "nan", len(r.Answer), "nns", len(r.Ns), "nar", len(r.Extra), "soatok", soaTok(r), "nsttl", nsTTLs(r))
}

func answersJS(r *dns.Msg) []map[string]any {
	ans := []map[string]any{}
	for _, rr := range r.Answer {
		if a, ok := rr.(*dns.A); ok {
			ip := a.A.To4()
			tok := 0
			if ip[0] < 200 {
				tok = int(binary.BigEndian.Uint32(ip))
			}
			ans = append(ans, map[string]any{"tok": tok, "ttl": ttlJS(a.Hdr.Ttl), "sub": int(ip[0])})
		}
	}
	return ans
}

func soaTok(r *dns.Msg) int {
	for _, rr := range r.Ns {
		if s, ok := rr.(*dns.SOA); ok {
			return int(s.Serial)
		}
	}
	return 0
}

func nsTTLs(r *dns.Msg) [][]int {
	t := [][]int{}
	for _, rr := range r.Ns {
		t = append(t, ttlJS(rr.Header().Ttl))
	}
	return t
}

func localTCP(src string) *net.TCPAddr {
	if src == "" {
		return nil
	}
	return &net.TCPAddr{IP: net.ParseIP(src)}
}

func (in *inst) roundTrip(lst, src string, w []byte, wait time.Duration, hdr map[string]string) ([]byte, int, error) {
	port := in.ports[lst]
	addr := fmt.Sprintf("127.0.0.1:%d", port)
	deadline := time.Now().Add(wait)
	switch lst {
	case "udp", "udpmr", "udpth":
		var la *net.UDPAddr
		if src != "" && lst == "udp" {
			la = &net.UDPAddr{IP: net.ParseIP(src)}
		}
		dst := net.IPv4(127, 0, 0, 1)
		if lst == "udpmr" && src != "" { // for the multi-route listener `src` names the local address the query is sent TO;
			dst = net.ParseIP(src) //     the connected socket only accepts a reply coming from that address
		}
		c, err := net.DialUDP("udp", la, &net.UDPAddr{IP: dst, Port: port})
		if err != nil {
			return nil, 0, err
		}
		defer c.Close()
		c.Write(w)
		c.SetReadDeadline(deadline)
		buf := make([]byte, 65535)
		n, err := c.Read(buf)
		if err != nil {
			return nil, 0, err
		}
		return buf[:n], 0, nil
	case "tcp", "gnet", "tls":
		d := net.Dialer{LocalAddr: localTCP(src), Timeout: 3 * time.Second}
		c, err := d.Dial("tcp", addr)
		if err != nil {
			return nil, 0, err
		}
		defer c.Close()
		if lst == "tls" {
			tc := tls.Client(c, &tls.Config{InsecureSkipVerify: true})
			if err := tc.Handshake(); err != nil {
				return nil, 0, err
			}
			c = tc
		}
		f := make([]byte, 2+len(w))
		binary.BigEndian.PutUint16(f, uint16(len(w)))
		copy(f[2:], w)
		c.Write(f)
		c.SetReadDeadline(deadline)
		h := make([]byte, 2)
		if _, err := io.ReadFull(c, h); err != nil {
			return nil, 0, err
		}
		b := make([]byte, binary.BigEndian.Uint16(h))
		if _, err := io.ReadFull(c, b); err != nil {
			return nil, 0, err
		}
		return b, 0, nil
	case "http", "fasthttp", "https":
		scheme := "http"
		tr := &http.Transport{DialContext: (&net.Dialer{LocalAddr: localTCP(src), Timeout: 3 * time.Second}).DialContext, DisableKeepAlives: true}
		if lst == "https" {
			scheme = "https"
			tr.TLSClientConfig = &tls.Config{InsecureSkipVerify: true}
			tr.ForceAttemptHTTP2 = true
		}
		if hc := hdr["hdrcase"]; hc != "" && lst != "https" {
			// the request written by hand: header names in lower or upper case (what h2-to-h1 gateways and some
			// clients send; header names are case-insensitive)
			nm := func(s string) string {
				switch hc {
				case "lower":
					return strings.ToLower(s)
				case "upper":
					return strings.ToUpper(s)
				}
				return s
			}
			var req string
			if hdr["method"] == "GET" {
				req = fmt.Sprintf("GET /dns-query?dns=%s HTTP/1.1\r\n%s: %s\r\n%s: application/dns-message\r\n\r\n",
					base64.RawURLEncoding.EncodeToString(w), nm("Host"), addr, nm("Accept"))
			} else if hdr["chunked"] != "" {
				// a body of unknown length: two chunks
				k := len(w) / 2
				req = fmt.Sprintf("POST /dns-query HTTP/1.1\r\n%s: %s\r\n%s: application/dns-message\r\n%s: chunked\r\n\r\n%x\r\n%s\r\n%x\r\n%s\r\n0\r\n\r\n",
					nm("Host"), addr, nm("Content-Type"), nm("Transfer-Encoding"), k, w[:k], len(w)-k, w[k:])
			} else {
				req = fmt.Sprintf("POST /dns-query HTTP/1.1\r\n%s: %s\r\n%s: application/dns-message\r\n%s: %d\r\n\r\n%s",
					nm("Host"), addr, nm("Content-Type"), nm("Content-Length"), len(w), w)
			}
			c, err := (&net.Dialer{LocalAddr: localTCP(src), Timeout: 3 * time.Second}).Dial("tcp", addr)
			if err != nil {
				return nil, 0, err
			}
			defer c.Close()
			c.SetDeadline(time.Now().Add(wait))
			if _, err := c.Write([]byte(req)); err != nil {
				return nil, 0, err
			}
			resp, err := http.ReadResponse(bufio.NewReader(c), nil)
			if err != nil {
				return nil, 0, err
			}
			defer resp.Body.Close()
			b, _ := io.ReadAll(io.LimitReader(resp.Body, 70000))
			if resp.StatusCode != 200 {
				return nil, resp.StatusCode, nil
			}
			return b, 200, nil
		}
		cl := &http.Client{Transport: tr, Timeout: wait}
		if hdr["keep"] != "" { // a reverse proxy in front of the listener: few long-lived connections
			v, _ := keepClients.LoadOrStore(in.name+"/"+lst, func() *http.Client {
				tr.DisableKeepAlives = false
				tr.MaxIdleConnsPerHost = 8
				return &http.Client{Transport: tr, Timeout: wait}
			}())
			cl = v.(*http.Client)
		}
		var req *http.Request
		if hdr["method"] == "GET" {
			req, _ = http.NewRequest("GET", fmt.Sprintf("%s://%s/dns-query?dns=%s", scheme, addr, base64.RawURLEncoding.EncodeToString(w)), nil)
			req.Header.Set("Accept", "application/dns-message")
		} else {
			req, _ = http.NewRequest("POST", fmt.Sprintf("%s://%s/dns-query", scheme, addr), bytes.NewReader(w))
			req.Header.Set("Content-Type", "application/dns-message")
		}
		for k, v := range hdr {
			if k != "method" && k != "keep" && k != "hdrcase" && k != "chunked" {
				req.Header.Set(k, v)
			}
		}
		resp, err := cl.Do(req)
		if err != nil {
			return nil, 0, err
		}
		defer resp.Body.Close()
		b, _ := io.ReadAll(io.LimitReader(resp.Body, 70000))
		if resp.StatusCode != 200 {
			return nil, resp.StatusCode, nil
		}
		return b, 200, nil
	case "quic":
		var la *net.UDPAddr
		if src != "" {
			la = &net.UDPAddr{IP: net.ParseIP(src)}
		} else {
			la = &net.UDPAddr{IP: net.IPv4(127, 0, 0, 1)}
		}
		uc, err := net.ListenUDP("udp", la)
		if err != nil {
			return nil, 0, err
		}
		defer uc.Close()
		qt := &quic.Transport{Conn: uc}
		defer qt.Close()
		ctx, cancel := context.WithDeadline(context.Background(), deadline)
		defer cancel()
		c, err := qt.Dial(ctx, &net.UDPAddr{IP: net.IPv4(127, 0, 0, 1), Port: port}, &tls.Config{InsecureSkipVerify: true, NextProtos: []string{"doq"}}, &quic.Config{KeepAlivePeriod: 300 * time.Millisecond})
		if err != nil {
			return nil, 0, err
		}
		defer c.CloseWithError(0, "")
		s, err := c.OpenStreamSync(ctx)
		if err != nil {
			return nil, 0, err
		}
		f := make([]byte, 2+len(w))
		binary.BigEndian.PutUint16(f, uint16(len(w)))
		copy(f[2:], w)
		s.Write(f)
		s.Close()
		s.SetReadDeadline(deadline)
		h := make([]byte, 2)
		if _, err := io.ReadFull(s, h); err != nil {
			return nil, 0, err
		}
		b := make([]byte, binary.BigEndian.Uint16(h))
		if _, err := io.ReadFull(s, b); err != nil {
			return nil, 0, err
		}
		return b, 0, nil
	}
	return nil, 0, fmt.Errorf("unknown listener %s", lst)
}

// sendQuicSeries sends the queries one after the other on ONE DoQ connection, each on its own stream; the FIN of
// a query's stream is sent a moment after the query octets (in a frame of its own), as a client may do. More
// queries than the listener's stream limit (100) must all be answered: finished streams give their credit back.
func (in *inst) sendQuicSeries(qs []qspec, wait time.Duration) {
	srcA := netip.MustParseAddr("127.0.0.1")
	qns := make([]int, len(qs))
	for i, q := range qs {
		qns[i] = int(qnCtr.Add(1))
		w := q.wire()
		in.tr.Emit("cl.send", "qn", qns[i], "lst", "quic", "src", addrJS(srcA), "id", int(q.id), "qr", q.qr, "opcode", q.opcode, "rd", q.rd,
			"nq", q.nq, "name", labelsJS(q.name), "cls", int(q.cls), "typ", int(q.typ), "opt", q.opt, "optsize", int(q.effSize()), "optopts", q.optopts, "len", len(w), "mayrefuse", false)
	}
	done := 0
	fail := func(e string) {
		for i := done; i < len(qs); i++ {
			in.tr.Emit("cl.none", "qn", qns[i], "lst", "quic", "http", 0, "err", e)
		}
	}
	uc, err := net.ListenUDP("udp", &net.UDPAddr{IP: net.IPv4(127, 0, 0, 1)})
	if err != nil {
		fail(err.Error())
		return
	}
	defer uc.Close()
	qt := &quic.Transport{Conn: uc}
	defer qt.Close()
	dctx, dcancel := context.WithTimeout(context.Background(), 3*time.Second)
	defer dcancel()
	c, err := qt.Dial(dctx, &net.UDPAddr{IP: net.IPv4(127, 0, 0, 1), Port: in.ports["quic"]}, &tls.Config{InsecureSkipVerify: true, NextProtos: []string{"doq"}}, &quic.Config{})
	if err != nil {
		fail(err.Error())
		return
	}
	defer c.CloseWithError(0, "")
	for i, q := range qs {
		ctx, cancel := context.WithTimeout(context.Background(), wait)
		st, err := c.OpenStreamSync(ctx)
		cancel()
		if err != nil {
			fail("open stream: " + err.Error())
			return
		}
		w := q.wire()
		f := make([]byte, 2+len(w))
		binary.BigEndian.PutUint16(f, uint16(len(w)))
		copy(f[2:], w)
		st.Write(f)
		time.Sleep(2 * time.Millisecond)
		st.Close()
		st.SetReadDeadline(time.Now().Add(wait))
		h := make([]byte, 2)
		if _, err := io.ReadFull(st, h); err != nil {
			fail("read: " + err.Error())
			return
		}
		b := make([]byte, binary.BigEndian.Uint16(h))
		if _, err := io.ReadFull(st, b); err != nil {
			fail("read: " + err.Error())
			return
		}
		in.logRecv(qns[i], "quic", 0, b)
		done = i + 1
	}
}

// sendFromPort0 delivers w to the UDP listener in a datagram whose source port is 0 (raw socket): the proxy
// cannot answer it (sendmsg fails), which must not affect the queries that follow. Returns false when the
// sandbox does not allow raw sockets.
func (in *inst) sendFromPort0(w []byte) bool {
	c, err := net.ListenPacket("ip4:udp", "127.0.0.1")
	if err != nil {
		in.tr.Emit("note", "what", "raw socket unavailable: "+err.Error())
		return false
	}
	defer c.Close()
	h := make([]byte, 8+len(w))
	binary.BigEndian.PutUint16(h[0:], 0)
	binary.BigEndian.PutUint16(h[2:], uint16(in.ports["udp"]))
	binary.BigEndian.PutUint16(h[4:], uint16(8+len(w)))
	copy(h[8:], w) // checksum 0: not computed (IPv4)
	_, err = c.WriteTo(h, &net.IPAddr{IP: net.IPv4(127, 0, 0, 1)})
	in.tr.Emit("note", "what", "query sent from source port 0", "ok", err == nil)
	return err == nil
}

func base64Raw(s string) ([]byte, error) { return base64.RawURLEncoding.DecodeString(s) }
