//go:build verif

package main

import (
	"bytes"
	"crypto/tls"
	"encoding/base64"
	"encoding/binary"
	"fmt"
	"io"
	"math/rand"
	"net"
	"net/http"
	"strings"
	"time"

	"github.com/IrineSistiana/mosproxy/internal/zzverif/vtrace"
)

// rawTrip sends arbitrary bytes to a listener and classifies what comes back:
// "resp" (a DNS message came back), "none" (nothing within the wait), "closed" (connection / stream ended),
// "http<code>".  frameLen < 0: use the true length for stream listeners.
// splitFrames: stream frames of rawTrip are written in two pieces
var splitFrames bool

func (in *inst) rawTrip(lst string, payload []byte, frameLen int, get bool) (string, []byte) {
	wait := 700 * time.Millisecond
	addr := fmt.Sprintf("127.0.0.1:%d", in.ports[lst])
	switch lst {
	case "udp":
		c, err := net.Dial("udp", addr)
		if err != nil {
			return "err", nil
		}
		defer c.Close()
		c.Write(payload)
		c.SetReadDeadline(time.Now().Add(wait))
		buf := make([]byte, 65535)
		n, err := c.Read(buf)
		if err != nil {
			return "none", nil
		}
		return "resp", buf[:n]
	case "tcp", "gnet", "tls":
		c, err := streamConn(in, lst)
		if err != nil {
			return "err", nil
		}
		defer c.Close()
		fl := len(payload)
		if frameLen >= 0 {
			fl = frameLen
		}
		f := make([]byte, 2+len(payload))
		binary.BigEndian.PutUint16(f, uint16(fl))
		copy(f[2:], payload)
		if splitFrames && len(f) > 5 { // the frame arrives in two pieces (prefix and a few octets, a pause, the rest)
			c.Write(f[:4])
			time.Sleep(30 * time.Millisecond)
			c.Write(f[4:])
		} else {
			c.Write(f)
		}
		c.SetReadDeadline(time.Now().Add(wait))
		h := make([]byte, 2)
		if _, err := io.ReadFull(c, h); err != nil {
			if ne, ok := err.(net.Error); ok && ne.Timeout() {
				return "none", nil
			}
			return "closed", nil
		}
		b := make([]byte, binary.BigEndian.Uint16(h))
		if _, err := io.ReadFull(c, b); err != nil {
			return "closed", nil
		}
		return "resp", b
	case "http", "https", "fasthttp":
		scheme := "http"
		tr := &http.Transport{DisableKeepAlives: true}
		if lst == "https" {
			scheme = "https"
			tr.TLSClientConfig = &tls.Config{InsecureSkipVerify: true}
			tr.ForceAttemptHTTP2 = true
		}
		cl := &http.Client{Transport: tr, Timeout: 3 * time.Second}
		var req *http.Request
		if get {
			req, _ = http.NewRequest("GET", fmt.Sprintf("%s://%s/dns-query?dns=%s", scheme, addr, base64.RawURLEncoding.EncodeToString(payload)), nil)
			req.Header.Set("Accept", "application/dns-message")
		} else {
			req, _ = http.NewRequest("POST", fmt.Sprintf("%s://%s/dns-query", scheme, addr), bytes.NewReader(payload))
			req.Header.Set("Content-Type", "application/dns-message")
		}
		resp, err := cl.Do(req)
		if err != nil {
			return "closed", nil
		}
		defer resp.Body.Close()
		b, _ := io.ReadAll(io.LimitReader(resp.Body, 70000))
		if resp.StatusCode != 200 {
			return fmt.Sprintf("http%d", resp.StatusCode), nil
		}
		return "resp", b
	case "quic":
		b, _, err := in.roundTrip("quic", "", payload, wait, nil)
		if err != nil || b == nil {
			return "closed", nil
		}
		return "resp", b
	}
	return "err", nil
}

// rawHTTP writes request text to a plain-HTTP DoH listener and returns the status line (or what happened)
func (in *inst) rawHTTP(lst string, req []byte) string {
	c, err := net.DialTimeout("tcp", fmt.Sprintf("127.0.0.1:%d", in.ports[lst]), 2*time.Second)
	if err != nil {
		return "err"
	}
	defer c.Close()
	c.Write(req)
	if tc, ok := c.(*net.TCPConn); ok && bytes.Contains(req, []byte("HTTP/1.0")) {
		tc.CloseWrite()
	}
	c.SetReadDeadline(time.Now().Add(700 * time.Millisecond))
	buf := make([]byte, 256)
	n, err := c.Read(buf)
	if n == 0 {
		if ne, ok := err.(net.Error); ok && ne.Timeout() {
			return "none"
		}
		return "closed"
	}
	line := string(buf[:n])
	if i := strings.Index(line, "\r\n"); i >= 0 {
		line = line[:i]
	}
	return line
}

// malformed or unusual HTTP requests for the DoH listeners (the DNS payload, where there is one, is valid)
func httpOddities(valid []byte) [][]byte {
	b64 := base64.RawURLEncoding.EncodeToString(valid)
	chunk := fmt.Sprintf("%x\r\n%s\r\n0\r\n\r\n", len(valid), valid)
	h := "Host: x\r\nContent-Type: application/dns-message\r\n"
	return [][]byte{
		[]byte("POST /dns-query HTTP/1.1\r\n" + h + "\r\n"),                                                                     // POST without body and without Content-Length
		[]byte("POST /dns-query HTTP/1.1\r\n" + h + "Content-Length: 0\r\n\r\n"),                                                // empty body
		[]byte("POST /dns-query HTTP/1.1\r\n" + h + "Transfer-Encoding: chunked\r\n\r\n" + chunk),                               // chunked body
		[]byte("POST /dns-query HTTP/1.1\r\n" + h + "Content-Length: 400\r\n\r\n" + string(valid)),                              // body shorter than announced
		[]byte("POST /dns-query HTTP/1.0\r\n" + h + "\r\n" + string(valid)),                                                     // HTTP/1.0, body until close
		[]byte("POST /dns-query HTTP/1.1\r\nHost: x\r\nContent-Length: " + fmt.Sprint(len(valid)) + "\r\n\r\n" + string(valid)), // no content type
		[]byte("GET /dns-query HTTP/1.1\r\nHost: x\r\nAccept: application/dns-message\r\n\r\n"),                                 // no dns parameter
		[]byte("GET /dns-query?dns=%%%!! HTTP/1.1\r\nHost: x\r\nAccept: application/dns-message\r\n\r\n"),
		[]byte("GET /dns-query?dns=" + b64 + "== HTTP/1.1\r\nHost: x\r\nAccept: application/dns-message\r\n\r\n"), // padded base64
		[]byte("GET /dns-query?dns=" + b64 + " HTTP/1.1\r\nHost: x\r\n\r\n"),                                      // no Accept header
		[]byte("GET /other?dns=" + b64 + " HTTP/1.1\r\nHost: x\r\nAccept: application/dns-message\r\n\r\n"),
		[]byte("PUT /dns-query HTTP/1.1\r\n" + h + "Content-Length: 0\r\n\r\n"),
		[]byte("HEAD /dns-query?dns=" + b64 + " HTTP/1.1\r\nHost: x\r\nAccept: application/dns-message\r\n\r\n"),
		[]byte("GET /dns-query?dns=" + strings.Repeat("A", 100000) + " HTTP/1.1\r\nHost: x\r\nAccept: application/dns-message\r\n\r\n"),
		[]byte("\x00\x01\x02 garbage\r\n\r\n"),
	}
}

func modeC01(thorough bool) {
	// a regular-expression rule and the query log make every question name pass through the text form
	in, err := newInst("c01", instOpts{listeners: allListeners, upstreams: map[string]string{"u1": "udp"},
		sets:  map[string][]string{"rx": {"regexp:^never\\.matches\\.[0-9]+$"}},
		rules: []ruleSpec{{Set: "rx", Reject: 5}, {Forward: "u1"}}, logQueries: true})
	if err != nil {
		panic(err)
	}
	defer in.close()
	// meanwhile, on an instance with a cache: malformed replies (undecodable, connection closed) to the
	// *background* refresh of an entry in the last quarter of its life are an exchange that fails, like any
	// other: the old answer keeps being served and the proxy goes on
	bgDone := make(chan struct{})
	go func() {
		defer close(bgDone)
		inb, err := newInst("c01-refresh", instOpts{listeners: []string{"udp", "tcp"}, upstreams: map[string]string{"u1": "udp", "u2": "tcp"},
			sets:  map[string][]string{"s2": {"domain:z2.test"}},
			rules: []ruleSpec{{Set: "s2", Forward: "u2"}, {Forward: "u1"}}, cacheMem: 1 << 20})
		if err != nil {
			panic(err)
		}
		defer inb.close()
		names := []string{}
		for i, bad := range []string{"r0t4d0fG", "r0t4d0fC", "r0t4d0fG", "r0t4d0fC"} {
			zone := []string{"z1", "z2"}[i/2]
			nm := fmt.Sprintf("%s.r0t4d0.%s.test.", uniq(), zone)
			inb.ups[[]string{"u1", "u2"}[i/2]].setSeq(nm, "r0t4d0", bad, bad)
			names = append(names, nm)
			inb.send("udp", "", mkq(nm), 3*time.Second, nil)
		}
		time.Sleep(3250 * time.Millisecond)
		for k := 0; k < 3; k++ {
			for _, nm := range names {
				inb.send([]string{"udp", "tcp"}[k%2], "", mkq(nm), 3*time.Second, nil)
			}
			time.Sleep(150 * time.Millisecond)
		}
	}()
	defer func() { <-bgDone }()
	rng := rand.New(rand.NewSource(seed))
	valid := mkq("valid.r0t60d0.z1.test.").wire()
	var payloads [][]byte
	payloads = append(payloads,
		[]byte{0xbe, 0xef, 0x01, 0x00, 0, 0, 0, 0, 0, 0, 0, 0},                           // header only: decodable, no question
		[]byte{0xbe, 0xef, 0x01, 0x00, 0, 1, 0, 0, 0, 0, 0, 0, 0xC0, 0x0C, 0, 1, 0, 1},   // name = pointer to itself
		[]byte{0xbe, 0xef, 0x01, 0x00, 0, 1, 0, 0, 0, 0, 0, 0, 0xC0, 0x0D, 0, 1, 0, 1},   // pointer to its own second octet
		[]byte{0xbe, 0xef, 0x01, 0x00, 0, 1, 0, 0, 0, 0, 0, 0, 0x40, 'a', 0, 0, 1, 0, 1}, // reserved label prefix
		[]byte{1, 2, 3},      // shorter than a header
		valid[:len(valid)-3], // truncated question
		append(append([]byte{}, valid[:5]...), append([]byte{9}, valid[6:]...)...), // QDCOUNT lies
		append(append([]byte{}, valid...), 1, 2, 3, 4, 5),                          // trailing octets after a valid query (decodable)
		bytes.Repeat([]byte{0xff}, 600),
	)
	// valid queries whose names are as long as a name can be and consist of octets that need escaping in text
	// form (\DDD: four characters per octet) or of dots and backslashes inside labels
	for _, fill := range []byte{0x01, 0xff, '.', '\\', ' '} {
		p := append([]byte{}, valid[:12]...)
		for _, ll := range []int{63, 63, 63, 59} {
			p = append(p, byte(ll))
			p = append(p, bytes.Repeat([]byte{fill}, ll)...)
		}
		p = append(p, 0, 0, 1, 0, 1)
		payloads = append(payloads, p)
	}
	big := append(append([]byte{}, valid[:6]...), 0xff, 0xff)
	big = append(big, valid[8:]...)
	payloads = append(payloads, big) // ANCOUNT 65535 with no data
	nr := 6
	if thorough {
		nr = 60
	}
	for i := 0; i < nr; i++ {
		p := append([]byte{}, valid...)
		switch rng.Intn(3) {
		case 0:
			p = p[:rng.Intn(len(p))]
		case 1:
			for k := 0; k < 3; k++ {
				p[rng.Intn(len(p))] = byte(rng.Intn(256))
			}
		default:
			p = make([]byte, 1+rng.Intn(80))
			rng.Read(p)
		}
		payloads = append(payloads, p)
	}
	for _, lst := range allListeners {
		for pi, p := range payloads {
			get := pi%2 == 1
			qn := int(qnCtr.Add(1))
			in.tr.Emit("raw.send", "qn", qn, "lst", lst, "in", vtrace.Bytes(p), "get", get, "framelen", len(p))
			out, _ := in.rawTrip(lst, p, -1, get)
			in.tr.Emit("raw.out", "qn", qn, "lst", lst, "outcome", out)
		}
		if lst == "tcp" || lst == "gnet" || lst == "tls" { // the same inputs, each frame arriving in two pieces
			splitFrames = true
			for pi, p := range payloads {
				if pi%2 == 0 || len(p) > 2000 {
					continue
				}
				qn := int(qnCtr.Add(1))
				in.tr.Emit("raw.send", "qn", qn, "lst", lst, "in", vtrace.Bytes(p), "get", false, "framelen", len(p))
				out, _ := in.rawTrip(lst, p, -1, false)
				in.tr.Emit("raw.out", "qn", qn, "lst", lst, "outcome", out)
			}
			splitFrames = false
		}
		// a connection with a history: one frame cut inside its body, the next cut between the two octets of its
		// length prefix, then one whose length prefix is cut and whose body is garbage - every piece its own segment
		if lst == "tcp" || lst == "gnet" || lst == "tls" {
			if c, err := streamConn(in, lst); err == nil {
				frame := func(w []byte) []byte {
					f := make([]byte, 2+len(w))
					binary.BigEndian.PutUint16(f, uint16(len(w)))
					copy(f[2:], w)
					return f
				}
				a, b := frame(mkq(uniq()+".r0t60d0.z1.test.").wire()), frame(mkq(uniq()+".r0t60d0.z1.test.").wire())
				g := frame(bytes.Repeat([]byte{0xff}, 40))
				for _, piece := range [][]byte{a[:9], a[9:], b[:1], b[1:7], b[7:], g[:1], g[1:]} {
					c.Write(piece)
					time.Sleep(35 * time.Millisecond)
				}
				c.SetReadDeadline(time.Now().Add(500 * time.Millisecond))
				io.Copy(io.Discard, c)
				c.Close()
			}
		}
		// length prefix lies (stream listeners): announced longer / shorter than what follows
		if lst == "tcp" || lst == "gnet" || lst == "tls" {
			for _, fl := range []int{len(valid) + 40, len(valid) - 5, 0, 65535} {
				qn := int(qnCtr.Add(1))
				in.tr.Emit("raw.send", "qn", qn, "lst", lst, "in", vtrace.Bytes(valid), "get", false, "framelen", fl)
				out, _ := in.rawTrip(lst, valid, fl, false)
				in.tr.Emit("raw.out", "qn", qn, "lst", lst, "outcome", out)
			}
		}
		if lst == "http" || lst == "fasthttp" {
			for _, req := range httpOddities(valid) {
				qn := int(qnCtr.Add(1))
				in.tr.Emit("rawhttp.send", "qn", qn, "lst", lst, "req", string(req[:min(len(req), 160)]))
				in.tr.Emit("rawhttp.out", "qn", qn, "lst", lst, "outcome", in.rawHTTP(lst, req))
			}
		}
		if lst == "udp" { // a datagram from source port 0: the response cannot be sent
			in.sendFromPort0(valid)
			time.Sleep(50 * time.Millisecond)
		}
		// the listener must still serve a valid query
		for k := 0; k < 2; k++ {
			q := mkq(uniq() + ".r0t60d0.z1.test.")
			q.id = uint16(4000 + k)
			in.send(lst, "", q, 4*time.Second, nil)
		}
	}
}
