//go:build verif

package main

import (
	"context"
	"crypto/ecdsa"
	"crypto/elliptic"
	crand "crypto/rand"
	"crypto/tls"
	"crypto/x509"
	"crypto/x509/pkix"
	"encoding/binary"
	"encoding/json"
	"encoding/pem"
	"fmt"
	"io"
	"math/big"
	"net"
	"net/http"
	"net/netip"
	"os"
	"path/filepath"
	"sort"
	"strings"
	"sync"
	"syscall"
	"time"

	"github.com/IrineSistiana/mosproxy/app/router"
	"github.com/IrineSistiana/mosproxy/internal/dnsmsg"
	"github.com/IrineSistiana/mosproxy/internal/upstream"
	"github.com/IrineSistiana/mosproxy/internal/zzverif/vtrace"
	"github.com/miekg/dns"
	"github.com/quic-go/quic-go"
)

type peerRow struct {
	S string `json:"s"`
	H string `json:"h"`
	P int    `json:"p"`
	D string `json:"d"`
}

var urlHost = map[string]string{"v4": "127.0.0.2", "v6": "[2001:db8::5]", "v6long": "[2001:DB8:0:0:0:0:0:5]", "dom": "localhost"}
var dialAddr = map[string]string{"none": "", "v4": "127.0.0.3", "v4port": "127.0.0.3:5454", "v6": "2001:db8::9", "v6port": "[2001:db8::9]:5454",
	"dom": "vm", "domport": "vm:5454", "unix": "@verifsock"}

func rowURL(r peerRow) string {
	u := urlHost[r.H]
	if r.P != 0 {
		u += fmt.Sprintf(":%d", r.P)
	}
	if r.S != "" {
		u = r.S + "://" + u
	}
	if r.S == "https" || r.S == "http" || r.S == "h3" {
		u += "/dns-query"
	}
	return u
}

func exchangeOnce(u upstream.Upstream, d time.Duration) error {
	q := new(dns.Msg)
	q.SetQuestion("peer.test.", dns.TypeA)
	w, _ := q.Pack()
	ctx, cancel := context.WithTimeout(context.Background(), d)
	defer cancel()
	r, err := u.ExchangeContext(ctx, w)
	if r != nil {
		dnsmsg.ReleaseMsg(r)
	}
	return err
}

// address table: where does the socket layer connect to?
func peerDial(tr *vtrace.T, rows []peerRow) {
	// observation sockets for QUIC / HTTP3 (no Control hook on the remote address): every candidate (ip, port)
	type obs struct {
		c  *net.UDPConn
		ip string
		p  int
	}
	var obsMu sync.Mutex
	seenUDP := map[string]int{}
	var socks []obs
	for _, ip := range []string{"127.0.0.1", "127.0.0.2", "127.0.0.3"} {
		for _, p := range []int{853, 443, 5353, 5454, 53, 80} {
			c, err := net.ListenUDP("udp", &net.UDPAddr{IP: net.ParseIP(ip), Port: p})
			if err != nil {
				continue
			}
			o := obs{c, ip, p}
			socks = append(socks, o)
			go func() {
				buf := make([]byte, 2048)
				for {
					n, _, err := o.c.ReadFromUDP(buf)
					if err != nil {
						return
					}
					// only the first flight of a QUIC handshake counts (long header, padded to 1200 octets): the
					// sandbox's resolver address is 127.0.0.1:53, any process looking a name up writes there
					if n < 1000 || buf[0]&0x80 == 0 {
						continue
					}
					obsMu.Lock()
					seenUDP[fmt.Sprintf("%s|%d", o.ip, o.p)]++
					obsMu.Unlock()
				}
			}()
		}
	}
	defer func() {
		for _, o := range socks {
			o.c.Close()
		}
	}()
	for _, r := range rows {
		var mu sync.Mutex
		seen := map[string][]any{}
		control := func(network, address string, c syscall.RawConn) error {
			netw := network
			if strings.HasPrefix(netw, "tcp") {
				netw = "tcp"
			} else if strings.HasPrefix(netw, "udp") {
				netw = "udp"
			}
			host, port := address, 0
			if ap, err := netip.ParseAddrPort(address); err == nil {
				host, port = ap.Addr().Unmap().String(), int(ap.Port())
			}
			if port == 0 && netw == "udp" && (host == "0.0.0.0" || host == "::" || strings.HasPrefix(address, ":") || strings.HasPrefix(address, "[::]")) {
				return nil // the local listen socket of a QUIC transport, not a dial
			}
			mu.Lock()
			seen[fmt.Sprintf("%s|%s|%d", netw, host, port)] = []any{netw, host, port}
			mu.Unlock()
			if netw == "unix" {
				return nil
			}
			return fmt.Errorf("verif: dial observed") // no need to really connect
		}
		quicLike := r.S == "quic" || r.S == "h3"
		if quicLike && (r.H == "v6" || r.H == "v6long" || r.D == "v6" || r.D == "v6port") {
			continue // QUIC targets are observed by local UDP sockets: unreachable IPv6 literals cannot be observed
		}
		obsMu.Lock()
		for k := range seenUDP {
			delete(seenUDP, k)
		}
		obsMu.Unlock()
		u, err := upstream.NewUpstream(rowURL(r), upstream.Opt{DialAddr: dialAddr[r.D], Control: control,
			TLSConfig: &tls.Config{InsecureSkipVerify: true}, DialTimeout: 400 * time.Millisecond})
		if err != nil {
			tr.Emit("dial", "s", r.S, "h", r.H, "p", r.P, "d", r.D, "seen", []any{}, "err", err.Error())
			continue
		}
		exchangeOnce(u, 250*time.Millisecond)
		if leg := upstream.VerifTCPLeg(u); leg != nil {
			// a plain (UDP) upstream has a second leg, the TCP fall-back for truncated replies: it is configured
			// from the same address form, so its dial goes to the same place
			q := new(dns.Msg)
			q.SetQuestion("peer.test.", dns.TypeA)
			w, _ := q.Pack()
			ctx, cancel := context.WithTimeout(context.Background(), 250*time.Millisecond)
			if r, _ := leg.ExchangeContext(ctx, w); r != nil {
				dnsmsg.ReleaseMsg(r)
			}
			cancel()
		}
		if quicLike {
			time.Sleep(30 * time.Millisecond)
		}
		func() {
			defer func() { recover() }() // closing an upstream may itself be broken (C18); irrelevant here
			done := make(chan struct{})
			go func() { defer func() { recover(); close(done) }(); u.Close() }()
			select {
			case <-done:
			case <-time.After(time.Second):
			}
		}()
		var list []any
		mu.Lock()
		keys := []string{}
		for k := range seen {
			keys = append(keys, k)
		}
		sort.Strings(keys)
		for _, k := range keys {
			list = append(list, seen[k])
		}
		mu.Unlock()
		if quicLike {
			obsMu.Lock()
			for k := range seenUDP {
				p := strings.Split(k, "|")
				var port int
				fmt.Sscan(p[1], &port)
				list = append(list, []any{"udp", p[0], port})
			}
			obsMu.Unlock()
		}
		if list == nil {
			list = []any{}
		}
		tr.Emit("dial", "s", r.S, "h", r.H, "p", r.P, "d", r.D, "seen", list, "err", "")
	}
}

// ---------------------------------------------------------------- certificates

type ca struct {
	cert *x509.Certificate
	key  *ecdsa.PrivateKey
	pem  []byte
}

func newCA(cn string) *ca {
	key, _ := ecdsa.GenerateKey(elliptic.P256(), crand.Reader)
	t := &x509.Certificate{SerialNumber: big.NewInt(time.Now().UnixNano()), Subject: pkix.Name{CommonName: cn}, NotBefore: time.Now().Add(-time.Hour),
		NotAfter: time.Now().Add(24 * time.Hour), IsCA: true, KeyUsage: x509.KeyUsageCertSign | x509.KeyUsageDigitalSignature, BasicConstraintsValid: true}
	der, err := x509.CreateCertificate(crand.Reader, t, t, &key.PublicKey, key)
	if err != nil {
		panic(err)
	}
	c, _ := x509.ParseCertificate(der)
	return &ca{c, key, pem.EncodeToMemory(&pem.Block{Type: "CERTIFICATE", Bytes: der})}
}

// leaf returns (certPEM, keyPEM); signer nil = self-signed
func leaf(name string, signer *ca, expired, client bool) ([]byte, []byte) {
	key, _ := ecdsa.GenerateKey(elliptic.P256(), crand.Reader)
	t := &x509.Certificate{SerialNumber: big.NewInt(time.Now().UnixNano()), Subject: pkix.Name{CommonName: name}, DNSNames: []string{name},
		NotBefore: time.Now().Add(-time.Hour), NotAfter: time.Now().Add(24 * time.Hour), KeyUsage: x509.KeyUsageDigitalSignature,
		ExtKeyUsage: []x509.ExtKeyUsage{x509.ExtKeyUsageServerAuth}, BasicConstraintsValid: true}
	if client {
		t.ExtKeyUsage = []x509.ExtKeyUsage{x509.ExtKeyUsageClientAuth}
	}
	if expired {
		t.NotBefore, t.NotAfter = time.Now().Add(-48*time.Hour), time.Now().Add(-24*time.Hour)
	}
	parent, pkey := t, key
	if signer != nil {
		parent, pkey = signer.cert, signer.key
	}
	der, err := x509.CreateCertificate(crand.Reader, t, parent, &key.PublicKey, pkey)
	if err != nil {
		panic(err)
	}
	kb, _ := x509.MarshalPKCS8PrivateKey(key)
	return pem.EncodeToMemory(&pem.Block{Type: "CERTIFICATE", Bytes: der}), pem.EncodeToMemory(&pem.Block{Type: "PRIVATE KEY", Bytes: kb})
}

func mustPair(c, k []byte) tls.Certificate {
	p, err := tls.X509KeyPair(c, k)
	if err != nil {
		panic(err)
	}
	return p
}

func answerFor(w []byte) []byte {
	q := new(dns.Msg)
	if q.Unpack(w) != nil {
		return nil
	}
	r := new(dns.Msg)
	r.SetReply(q)
	r.Answer = append(r.Answer, &dns.A{Hdr: dns.RR_Header{Name: q.Question[0].Name, Rrtype: dns.TypeA, Class: 1, Ttl: 5}, A: net.IPv4(10, 9, 8, 7)})
	o, _ := r.Pack()
	return o
}

// fake TLS-based servers (DoT, DoH over h2, DoQ) with a given certificate; they record SNI and Host.
type tlsSrv struct {
	dotAddr, dohAddr, doqAddr string
	mu                        sync.Mutex
	sni                       []string
	hosts                     []string
	closers                   []func()
}

func (s *tlsSrv) note(sni string) { s.mu.Lock(); s.sni = append(s.sni, sni); s.mu.Unlock() }

func newTLSSrv(cert tls.Certificate) *tlsSrv {
	s := &tlsSrv{}
	mk := func(protos ...string) *tls.Config {
		return &tls.Config{Certificates: []tls.Certificate{cert}, NextProtos: protos,
			GetConfigForClient: func(h *tls.ClientHelloInfo) (*tls.Config, error) { s.note(h.ServerName); return nil, nil }}
	}
	// DoT
	l, err := tls.Listen("tcp", "127.0.0.1:0", mk())
	if err != nil {
		panic(err)
	}
	s.dotAddr = l.Addr().String()
	s.closers = append(s.closers, func() { l.Close() })
	go func() {
		for {
			c, err := l.Accept()
			if err != nil {
				return
			}
			go func() {
				defer c.Close()
				h := make([]byte, 2)
				for {
					if _, err := io.ReadFull(c, h); err != nil {
						return
					}
					b := make([]byte, binary.BigEndian.Uint16(h))
					if _, err := io.ReadFull(c, b); err != nil {
						return
					}
					a := answerFor(b)
					f := make([]byte, 2+len(a))
					binary.BigEndian.PutUint16(f, uint16(len(a)))
					copy(f[2:], a)
					c.Write(f)
				}
			}()
		}
	}()
	// DoH (h2 / http1.1 over TLS)
	hl, err := net.Listen("tcp", "127.0.0.1:0")
	if err != nil {
		panic(err)
	}
	s.dohAddr = hl.Addr().String()
	hs := &http.Server{TLSConfig: mk("h2", "http/1.1"), Handler: http.HandlerFunc(func(w http.ResponseWriter, r *http.Request) {
		s.mu.Lock()
		s.hosts = append(s.hosts, r.Host)
		s.mu.Unlock()
		b, _ := decodeDohGet(r.URL.RawQuery)
		w.Header().Set("Content-Type", "application/dns-message")
		w.Write(answerFor(b))
	})}
	go hs.ServeTLS(hl, "", "")
	s.closers = append(s.closers, func() { hs.Close() })
	// DoQ
	uc, err := net.ListenUDP("udp", &net.UDPAddr{IP: net.IPv4(127, 0, 0, 1)})
	if err != nil {
		panic(err)
	}
	s.doqAddr = uc.LocalAddr().String()
	qt := &quic.Transport{Conn: uc}
	ql, err := qt.Listen(mk("doq"), &quic.Config{MaxIdleTimeout: 5 * time.Second})
	if err != nil {
		panic(err)
	}
	s.closers = append(s.closers, func() { ql.Close(); qt.Close(); uc.Close() })
	go func() {
		for {
			c, err := ql.Accept(context.Background())
			if err != nil {
				return
			}
			go func() {
				for {
					st, err := c.AcceptStream(context.Background())
					if err != nil {
						return
					}
					go func() {
						h := make([]byte, 2)
						if _, err := io.ReadFull(st, h); err != nil {
							return
						}
						b := make([]byte, binary.BigEndian.Uint16(h))
						if _, err := io.ReadFull(st, b); err != nil {
							return
						}
						a := answerFor(b)
						f := make([]byte, 2+len(a))
						binary.BigEndian.PutUint16(f, uint16(len(a)))
						copy(f[2:], a)
						st.Write(f)
						st.Close()
					}()
				}
			}()
		}
	}()
	return s
}

func (s *tlsSrv) close() {
	for _, f := range s.closers {
		f()
	}
}

func decodeDohGet(raw string) ([]byte, error) {
	for _, kv := range strings.Split(raw, "&") {
		if strings.HasPrefix(kv, "dns=") {
			return base64Raw(kv[4:])
		}
	}
	return nil, fmt.Errorf("no dns param")
}

func peerTLS(tr *vtrace.T, dir string) {
	ca1, ca2 := newCA("verif ca one"), newCA("verif ca two")
	// a root of "the platform's trust store": Go reads the store once per process, at the first verification that
	// needs it - nothing has been verified yet
	caS := newCA("verif system root")
	sysFile := filepath.Join(dir, "system-roots.pem")
	os.WriteFile(sysFile, caS.pem, 0o644)
	os.MkdirAll(filepath.Join(dir, "no-certs"), 0o755)
	os.Setenv("SSL_CERT_FILE", sysFile)
	os.Setenv("SSL_CERT_DIR", filepath.Join(dir, "no-certs"))
	caFile := filepath.Join(dir, "ca1.pem")
	os.WriteFile(caFile, ca1.pem, 0o644)
	const name = "dns.peer.test"
	certs := map[string]tls.Certificate{}
	c, k := leaf(name, ca1, false, false)
	certs["valid"] = mustPair(c, k)
	c, k = leaf("other.peer.test", ca1, false, false)
	certs["wrongname"] = mustPair(c, k)
	c, k = leaf(name, ca2, false, false)
	certs["otherca"] = mustPair(c, k)
	c, k = leaf(name, ca1, true, false)
	certs["expired"] = mustPair(c, k)
	c, k = leaf(name, nil, false, false)
	certs["selfsigned"] = mustPair(c, k)
	c, k = leaf(name, caS, false, false)
	certs["sysca"] = mustPair(c, k)
	for _, kind := range []string{"valid", "wrongname", "otherca", "expired", "selfsigned", "sysca"} {
		srv := newTLSSrv(certs[kind])
		for _, scheme := range []string{"tls", "tls+pipeline", "https", "quic"} {
			for _, caSet := range []bool{true, false} {
				for _, skip := range []bool{false, true} {
					tc := router.TlsConfig{InsecureSkipVerify: skip}
					if caSet {
						tc.CA = caFile
					}
					conf, err := router.VerifMakeTlsConfig(&tc, false)
					if err != nil {
						panic(err)
					}
					addr, dial := "", ""
					switch scheme {
					case "tls", "tls+pipeline":
						addr, dial = scheme+"://"+name, srv.dotAddr
					case "https":
						addr, dial = "https://"+name+"/dns-query", srv.dohAddr
					case "quic":
						addr, dial = "quic://"+name, srv.doqAddr
					}
					u, err := upstream.NewUpstream(addr, upstream.Opt{DialAddr: dial, TLSConfig: conf, DialTimeout: time.Second})
					if err != nil {
						panic(err)
					}
					e := exchangeOnce(u, 1500*time.Millisecond)
					es := ""
					if e != nil {
						es = e.Error()
					}
					tr.Emit("tls", "s", scheme, "cert", kind, "ca", caSet, "skip", skip, "ok", e == nil, "err", es)
					func() {
						done := make(chan struct{})
						go func() { defer func() { recover(); close(done) }(); u.Close() }()
						select {
						case <-done:
						case <-time.After(time.Second):
						}
					}()
				}
			}
		}
		// what the servers saw: SNI and Host must be the URL host although the dial address is an IP
		srv.mu.Lock()
		okSni := len(srv.sni) > 0
		for _, x := range srv.sni {
			if x != name {
				okSni = false
			}
		}
		hostOk := len(srv.hosts) > 0 || kind != "valid"
		for _, x := range srv.hosts {
			if x != name {
				hostOk = false
			}
		}
		srv.mu.Unlock()
		tr.Emit("note", "what", "sni-host", "cert", kind, "sniok", okSni, "hostok", hostOk)
		srv.close()
	}

	// SNI / Host with a domain URL host and an IP dial override, per TLS scheme (rows of the address table)
	c, k = leaf("localhost", ca1, false, false)
	srv := newTLSSrv(mustPair(c, k))
	pool := x509.NewCertPool()
	pool.AppendCertsFromPEM(ca1.pem)
	for _, scheme := range []string{"tls", "tls+pipeline", "https", "quic"} {
		for _, p := range []int{0, 5353} {
			host := "localhost"
			if p != 0 {
				host = fmt.Sprintf("localhost:%d", p)
			}
			addr, dial := scheme+"://"+host, srv.dotAddr
			if scheme == "https" {
				addr, dial = "https://"+host+"/dns-query", srv.dohAddr
			} else if scheme == "quic" {
				dial = srv.doqAddr
			}
			srv.mu.Lock()
			srv.sni, srv.hosts = nil, nil
			srv.mu.Unlock()
			u, err := upstream.NewUpstream(addr, upstream.Opt{DialAddr: dial, TLSConfig: &tls.Config{RootCAs: pool}, DialTimeout: time.Second})
			if err != nil {
				panic(err)
			}
			exchangeOnce(u, 1500*time.Millisecond)
			srv.mu.Lock()
			sni, hh := "", ""
			if len(srv.sni) > 0 {
				sni = srv.sni[0]
			}
			hp := 0
			if len(srv.hosts) > 0 {
				hh = srv.hosts[0]
				if h, ps, err := net.SplitHostPort(hh); err == nil {
					hh = h
					fmt.Sscan(ps, &hp)
				}
			}
			srv.mu.Unlock()
			tr.Emit("hello", "s", scheme, "h", "dom", "p", p, "d", "v4port", "sni", sni, "host", hh, "hostport", hp)
			func() {
				done := make(chan struct{})
				go func() { defer func() { recover(); close(done) }(); u.Close() }()
				select {
				case <-done:
				case <-time.After(time.Second):
				}
			}()
		}
	}
	srv.close()

	// listeners configured to verify client certificates
	sc, sk := leaf("test.test", ca1, false, false)
	os.WriteFile(filepath.Join(dir, "srv.pem"), sc, 0o644)
	os.WriteFile(filepath.Join(dir, "srv.key"), sk, 0o600)
	cc1, ck1 := leaf("client", ca1, false, true)
	cc2, ck2 := leaf("client", ca2, false, true)
	cc3, ck3 := leaf("client", caS, false, true)
	clientCerts := map[string][]tls.Certificate{"none": nil, "fromca": {mustPair(cc1, ck1)}, "otherca": {mustPair(cc2, ck2)}, "sysca": {mustPair(cc3, ck3)}}
	for _, verify := range []bool{true, false} {
		in := &inst{name: fmt.Sprintf("c17-l%v", verify), ups: map[string]*fakeUp{}, ports: map[string]int{}, tr: tr}
		cfg := &router.Config{}
		u := newFakeUp("u1", func() *vtrace.T { return vtrace.OpenNull() })
		cfg.Upstreams = []router.UpstreamConfig{{Tag: "u1", Addr: "udp://" + u.addr}}
		cfg.Rules = []router.RuleConfig{{Forward: "u1"}}
		for _, kk := range []string{"tls", "https", "quic"} {
			p := freePort(kk == "quic")
			in.ports[kk] = p
			sc := router.ServerConfig{Tag: kk, Protocol: kk, Listen: fmt.Sprintf("127.0.0.1:%d", p)}
			sc.Tls = router.TlsConfig{Cert: filepath.Join(dir, "srv.pem"), Key: filepath.Join(dir, "srv.key"), CA: caFile, VerifyClientCert: verify}
			cfg.Servers = append(cfg.Servers, sc)
		}
		vr, err := router.VerifRun(cfg)
		if err != nil {
			panic(err)
		}
		for _, lst := range []string{"tls", "https", "quic"} {
			for _, ck := range []string{"none", "fromca", "otherca", "sysca"} {
				conf := &tls.Config{InsecureSkipVerify: true, Certificates: clientCerts[ck]}
				served := peerClient(in, lst, conf)
				tr.Emit("serve", "lst", lst, "ccert", ck, "verify", verify, "served", served)
			}
		}
		vr.Close()
		u.close()
	}
	_ = json.Marshal
}

// peerClient sends one query over the TLS-based listener with the given client TLS configuration.
func peerClient(in *inst, lst string, conf *tls.Config) bool {
	w := mkq(uniq() + ".r0t60d0.z1.test.").wire()
	addr := fmt.Sprintf("127.0.0.1:%d", in.ports[lst])
	frame := func() []byte {
		f := make([]byte, 2+len(w))
		binary.BigEndian.PutUint16(f, uint16(len(w)))
		copy(f[2:], w)
		return f
	}
	switch lst {
	case "tls":
		c, err := tls.DialWithDialer(&net.Dialer{Timeout: time.Second}, "tcp", addr, conf)
		if err != nil {
			return false
		}
		defer c.Close()
		c.Write(frame())
		c.SetReadDeadline(time.Now().Add(1500 * time.Millisecond))
		h := make([]byte, 2)
		if _, err := io.ReadFull(c, h); err != nil {
			return false
		}
		b := make([]byte, binary.BigEndian.Uint16(h))
		_, err = io.ReadFull(c, b)
		return err == nil
	case "https":
		c2 := conf.Clone()
		c2.NextProtos = []string{"h2", "http/1.1"}
		cl := &http.Client{Transport: &http.Transport{TLSClientConfig: c2, ForceAttemptHTTP2: true, DisableKeepAlives: true}, Timeout: 2 * time.Second}
		req, _ := http.NewRequest("POST", "https://"+addr+"/dns-query", strings.NewReader(string(w)))
		req.Header.Set("Content-Type", "application/dns-message")
		resp, err := cl.Do(req)
		if err != nil {
			return false
		}
		defer resp.Body.Close()
		return resp.StatusCode == 200
	case "quic":
		c2 := conf.Clone()
		c2.NextProtos = []string{"doq"}
		ctx, cancel := context.WithTimeout(context.Background(), 2*time.Second)
		defer cancel()
		c, err := quic.DialAddr(ctx, addr, c2, &quic.Config{})
		if err != nil {
			return false
		}
		defer c.CloseWithError(0, "")
		st, err := c.OpenStreamSync(ctx)
		if err != nil {
			return false
		}
		st.Write(frame())
		st.Close()
		st.SetReadDeadline(time.Now().Add(1500 * time.Millisecond))
		h := make([]byte, 2)
		if _, err := io.ReadFull(st, h); err != nil {
			return false
		}
		return true
	}
	return false
}

func modeC17(rowsFile string) {
	tr := vtrace.Open(filepath.Join(workdir, "c17.ndjson"))
	defer tr.Close()
	var rows []peerRow
	raw, _ := os.ReadFile(rowsFile)
	if err := json.Unmarshal(raw, &rows); err != nil {
		panic(err)
	}
	peerDial(tr, rows)
	peerTLS(tr, workdir)
}
