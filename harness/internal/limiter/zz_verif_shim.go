//go:build verif

package limiter

// VerifGC runs one garbage collection of idle buckets (overlay file of the verification harness).
func VerifGC(cl *ClientLimiter) { cl.gc() }
