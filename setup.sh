#!/bin/sh
# Run once after a fresh restore (offline). Warms the Go build cache for the drivers and checks the tools.
set -e
cd "$(dirname "$0")"
export GOPROXY=off GOSUMDB=off GOTOOLCHAIN=local
unset GOFLAGS
mkdir -p .work evidence
command -v tlc >/dev/null
python3 - <<'PY'
import sys, os
sys.path.insert(0, "lib")
import vf
for d in sorted(os.listdir(os.path.join(vf.HARNESS, "internal", "zzverif"))):
    p = os.path.join(vf.HARNESS, "internal", "zzverif", d, "main.go")
    if os.path.exists(p):
        print("building", d, flush=True)
        vf.build_driver(d)
PY
echo setup ok
