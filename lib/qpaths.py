"""Behaviours of QuicXport for replay: run TLC on QuicXportReplay (prints every edge of the state graph),
build the labelled graph and cover its edges with paths from the initial state."""
import json, random, collections, sys, os
sys.path.insert(0, os.path.dirname(os.path.abspath(__file__)))
import vf


def parse_edges(out):
    init, edges = None, []
    for line in out.splitlines():
        if line.startswith('<<"EDGE", '):
            a = json.loads("[" + line[2:-2] + "]")
            edges.append((a[1], json.loads(a[2]), a[3]))
        elif line.startswith('<<"INIT", '):
            init = json.loads("[" + line[2:-2] + "]")[1]
    return init, edges


def replayable(s, act):
    """Edges whose outcome the real scheduler cannot decide are not walked (both branches of a select ready)."""
    st = json.loads(s)
    if act["a"] == "WaitDone":
        e = act["e"] - 1
        k = st["ccall"][e]
        if st["ctxdone"][e] and k and st["cst"][k - 1] == "done":
            return False
    if act["a"] == "Try" and act["ok"] and json.loads(s)["ctxdone"][act["e"] - 1]:
        return False
    return True


def build(cfg="QuicXportReplay", timeout=1800):
    r = vf.tlc("QuicXportReplay", cfg=cfg, timeout=timeout, workers=1)
    if not r.ok:
        raise vf.MachineryError("QuicXportReplay is not clean: %s\n%s" % (r.violated, r.out[-2000:]))
    _, edges = parse_edges(r.out)
    ids, states = {}, []

    def sid(s):
        if s not in ids:
            ids[s] = len(states)
            states.append(s)
        return ids[s]
    adj = collections.defaultdict(list)
    skipped = 0
    for s, a, t in edges:
        if not replayable(s, a):
            skipped += 1
            continue
        adj[sid(s)].append((a, sid(t)))
    # the initial state: the only state without the "pc" of a started exchange
    init = [i for i, s in enumerate(states) if all(p == "idle" for p in json.loads(s)["pc"]) and not json.loads(s)["closed"]]
    if len(init) != 1:
        raise vf.MachineryError("initial state not identified (%d candidates)" % len(init))
    return r, states, adj, init[0], skipped


def cover(states, adj, init, seed=1, maxlen=60):
    rng = random.Random(seed)
    # BFS tree from init
    parent = {init: None}
    q = collections.deque([init])
    while q:
        s = q.popleft()
        for i, (a, t) in enumerate(adj[s]):
            if t not in parent:
                parent[t] = (s, i)
                q.append(t)
    unc = {(s, i) for s in adj for i in range(len(adj[s])) if s in parent}
    order = sorted(unc)
    rng.shuffle(order)
    paths = []
    for (s, i) in order:
        if (s, i) not in unc:
            continue
        pre = []
        x = s
        while parent[x] is not None:
            ps, pi = parent[x]
            pre.append((ps, pi))
            x = ps
        pre.reverse()
        path = pre + [(s, i)]
        cur = adj[s][i][1]
        while len(path) < maxlen:
            cand = [j for j in range(len(adj[cur])) if (cur, j) in unc and (cur, j) not in path]
            if not cand:
                break
            j = rng.choice(cand)
            path.append((cur, j))
            cur = adj[cur][j][1]
        for e in path:
            unc.discard(e)
        paths.append([{"act": adj[a][b][0], "s": adj[a][b][1]} for a, b in path])
    return paths


def write(path, states, init, paths):
    json.dump({"states": [json.loads(s) for s in states], "init": init, "paths": paths}, open(path, "w"))


if __name__ == "__main__":
    r, states, adj, init, skipped = build()
    paths = cover(states, adj, init)
    n = sum(len(p) for p in paths)
    print("states", len(states), "edges", sum(len(v) for v in adj.values()), "skipped", skipped, "paths", len(paths), "steps", n)
    write(sys.argv[1], states, init, paths)
