#!/usr/bin/env python3
"""Confirm sub-agent changes against the current /repo HEAD, run the property's check on each, keep them.

  keepseeds.py new <round> <id>...      /tmp/seed<round>-Cxx/<x>  ->  /verif/seeded/<id>/   (e.g. new 5 C01g C01h)
  keepseeds.py recheck <id>...          re-run kept seeds (seeded/<id>) against the current HEAD, update meta.json

Per seed, in its own scratch worktree of /repo (never /repo itself):
  - the patch is applied (git apply, else patch -F3: hook lines were added near some hunks since the seed was
    made) and re-diffed against HEAD, so that the kept patch.diff applies cleanly;
  - the demonstration test passes on the clean tree, fails with the patch; the repository's own suite passes with
    the patch (baseline-flaky Test_ReuseConnTransport ignored);
  - ./check <property> --tier quick runs against the patched worktree (VERIF_REPO) with its own work directory.
"""
import os, subprocess, sys, shutil, json, re, time, concurrent.futures
ENV = dict(os.environ, GOPROXY="off", GOSUMDB="off", GOTOOLCHAIN="local")
ENV.pop("GOFLAGS", None)
SEEDED = "/verif/seeded"


def sh(cmd, cwd=None, timeout=3600, env=None):
    p = subprocess.run(cmd, cwd=cwd, env=env or ENV, shell=isinstance(cmd, str), stdout=subprocess.PIPE,
                       stderr=subprocess.STDOUT, text=True, timeout=timeout)
    return p.returncode, p.stdout


def head():
    return sh(["git", "-C", "/repo", "rev-parse", "--short", "HEAD"])[1].strip()


def demo_of(d):
    demo = [f for f in os.listdir(d) if f.endswith("_test.go")][0]
    readme = open(os.path.join(d, "README.md")).read() if os.path.exists(os.path.join(d, "README.md")) else ""
    meta = {}
    if os.path.exists(os.path.join(d, "meta.json")):
        try:
            meta = json.load(open(os.path.join(d, "meta.json")))
        except Exception:
            meta = {}
    if isinstance(meta, dict) and isinstance(meta.get("demo"), dict) and meta["demo"].get("command") and meta["demo"].get("copy_to"):
        cmd = meta["demo"]["command"]
        dst = meta["demo"]["copy_to"]
    else:
        cmd = re.findall(r"go test[^`\n]*", readme)[0]
        dst = None
    toks = cmd.replace("'", "").replace("\\", "").split()
    pkg = [t for t in toks if t.startswith("./")][0]
    args = [t for t in toks[2:] if t not in ("-vet=off", "-count=1", "-v")]
    if dst is None:
        dst = os.path.join(pkg[2:].rstrip("/"), demo)
    return demo, dst, args


def process(sid, src, recheck):
    prop = sid[:3]
    tag = "%s-%d" % (sid, os.getpid())
    wt, wk = "/tmp/ks-wt-" + tag, "/tmp/ks-wk-" + tag
    res = {"id": sid, "head": head()}
    sh(["git", "-C", "/repo", "worktree", "add", "-q", "--detach", wt, "HEAD"])
    try:
        demo, dst, args = demo_of(src)
        patch = os.path.join(src, "patch.diff")
        # demonstration on the clean tree
        shutil.copy(os.path.join(src, demo), os.path.join(wt, dst))
        rc, out = sh(["go", "test", "-vet=off", "-count=1"] + args, cwd=wt, timeout=900)
        res["demo_clean"] = rc
        if rc:
            res["demo_clean_tail"] = out[-600:]
        os.remove(os.path.join(wt, dst))
        # apply (+ rebase)
        rc, out = sh(["git", "apply", patch], cwd=wt)
        res["applies_cleanly"] = rc == 0
        if rc:
            rc, out2 = sh("patch -p1 -F3 -s < %s" % patch, cwd=wt)
            sh("find . -name '*.orig' -delete; find . -name '*.rej' -delete", cwd=wt)
            if rc:
                res["apply"] = "does not apply to %s: %s" % (res["head"], (out + out2)[-400:])
                return res
        res["apply"] = "ok"
        rebased = sh(["git", "diff"], cwd=wt)[1]
        res["rebased_patch"] = rebased
        rc, out = sh(["go", "build", "./..."], cwd=wt)
        res["build"] = rc
        if rc:
            res["build_out"] = out[-600:]
            return res
        shutil.copy(os.path.join(src, demo), os.path.join(wt, dst))
        rc, out = sh(["go", "test", "-vet=off", "-count=1"] + args, cwd=wt, timeout=900)
        res["demo_patched"] = rc
        res["demo_patched_tail"] = out[-400:]
        os.remove(os.path.join(wt, dst))
        if not recheck:
            suite = []
            for i in range(2):
                rc, out = sh(["go", "test", "-vet=off", "-count=1", "./..."], cwd=wt, timeout=1500)
                fails = set(re.findall(r"^--- FAIL: (\S+)", out, re.M))
                fails.discard("Test_ReuseConnTransport")
                if rc and not fails and "FAIL" in out and "build failed" not in out and "panic:" not in out:
                    rc = 0
                suite.append(rc)
                if rc:
                    res["suite_out"] = out[-800:]
            res["suite_patched"] = suite
        # the property's check against the patched worktree
        t0 = time.time()
        p = subprocess.run(["./check", prop, "--tier", "quick"], cwd="/verif", env=dict(ENV, VERIF_REPO=wt, VERIF_WORK=wk),
                           stdout=subprocess.PIPE, stderr=subprocess.STDOUT, text=True, timeout=3600)
        res["check_exit"] = p.returncode
        res["check_wall"] = round(time.time() - t0)
        lines = [l for l in p.stdout.splitlines() if l.startswith(("VIOLATION", "OK ", "KNOWN", "MACHINERY", "  key="))]
        res["check_lines"] = lines[:6]
        if p.returncode not in (0, 1):
            res["check_tail"] = p.stdout[-800:]
    except Exception as ex:
        res["error"] = repr(ex)
    finally:
        sh(["git", "-C", "/repo", "worktree", "remove", "--force", wt])
        shutil.rmtree(wt, ignore_errors=True)
        shutil.rmtree(wk, ignore_errors=True)
    return res


def keep(sid, src, res, recheck):
    dst = os.path.join(SEEDED, sid)
    confirmed = (res.get("demo_clean") == 0 and res.get("apply") == "ok" and res.get("build") == 0 and res.get("demo_patched", 0) != 0
                 and (recheck or all(x == 0 for x in res.get("suite_patched", [1]))))
    detected = res.get("check_exit") == 1
    key = next((l.strip() for l in res.get("check_lines", []) if l.startswith("  key=")), "")
    if not recheck:
        if not confirmed:
            return confirmed, detected, key
        os.makedirs(dst, exist_ok=True)
        demo, ddst, args = demo_of(src)
        shutil.copy(os.path.join(src, demo), os.path.join(dst, demo))
        if os.path.exists(os.path.join(src, "README.md")):
            shutil.copy(os.path.join(src, "README.md"), os.path.join(dst, "README.md"))
        open(os.path.join(dst, "patch.diff"), "w").write(res["rebased_patch"])
        readme = open(os.path.join(dst, "README.md")).read() if os.path.exists(os.path.join(dst, "README.md")) else ""
        title = next((l.lstrip("# ").strip() for l in readme.splitlines() if l.startswith("#")), "")
        meta = {"id": sid, "breaks_property": sid[:3], "title": title,
                "demo": {"file": demo, "copy_to": ddst, "command": "go test -vet=off -count=1 " + " ".join(args)},
                "confirmed": "lib/keepseeds.py: demo passes on clean HEAD %s, patch applies%s and builds, demo fails with patch, existing suite passes with patch (baseline-flaky Test_ReuseConnTransport ignored)"
                             % (res["head"], "" if res.get("applies_cleanly") else " (re-diffed: hook lines were added near a hunk since the seed was made)"),
                "checked_with": "lib/keepseeds.py (scratch worktree, VERIF_REPO): ./check %s --tier quick" % sid[:3],
                "source": "independent sub-agent given only the property text and a scratch worktree"}
    else:
        meta = json.load(open(os.path.join(dst, "meta.json")))
        # a patch that needed fuzz is only taken over when the demonstration still fails with it: `patch -F3` may put
        # a hunk of pure additions in the wrong place (it did, once: C18a)
        if res.get("apply") == "ok" and not res.get("applies_cleanly") and res.get("demo_patched", 0) != 0:
            open(os.path.join(dst, "patch.diff"), "w").write(res["rebased_patch"])
    meta["rechecked"] = {"head": res["head"], "patch_applies": res.get("apply"), "demo_fails_with_patch": res.get("demo_patched", 0) != 0,
                         "demo_passes_on_clean_tree": res.get("demo_clean") == 0,
                         "check_exit": res.get("check_exit"), "check_wall_s": res.get("check_wall")}
    if detected:
        meta["detected_by"] = "%s quick: VIOLATION %s" % (sid[:3], key[:400])
    elif res.get("check_exit") == 0:
        meta["detected_by"] = "NOT DETECTED by %s quick on %s" % (sid[:3], res["head"])
    json.dump(meta, open(os.path.join(dst, "meta.json"), "w"), indent=1)
    return confirmed, detected, key


def main():
    mode = sys.argv[1]
    if mode == "new":
        rnd, ids = sys.argv[2], sys.argv[3:]
        jobs = [(sid, "/tmp/seed%s-%s/%s" % (rnd, sid[:3], sid[3]), False) for sid in ids]
    else:
        ids = sys.argv[2:] or sorted(os.listdir(SEEDED))
        jobs = [(sid, os.path.join(SEEDED, sid), True) for sid in ids]
    with concurrent.futures.ThreadPoolExecutor(int(os.environ.get("KS_PAR", "3"))) as ex:
        futs = {ex.submit(process, *j): j for j in jobs}
        for f in concurrent.futures.as_completed(futs):
            sid, src, recheck = futs[f]
            res = f.result()
            try:
                confirmed, detected, key = keep(sid, src, res, recheck)
            except Exception as e:
                confirmed, detected, key = False, False, "keep failed: %r" % e
            print("== %s %s %s | exit=%s %ss | %s" % (sid, "CONFIRMED" if confirmed else "NOT-CONFIRMED", "DETECTED" if detected else "MISSED",
                                                     res.get("check_exit"), res.get("check_wall"), key[:160]), flush=True)
            if not confirmed or res.get("check_exit") not in (0, 1):
                slim = {k: v for k, v in res.items() if k != "rebased_patch"}
                print(json.dumps(slim, indent=1)[:1800], flush=True)


if __name__ == "__main__":
    main()
