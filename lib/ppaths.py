"""Behaviours of PipeStep for replay: TLC simulates PipeStepReplay, which prints every edge it evaluates; a
behaviour is recovered as the chain of source states (src of edge block i+1 = dst of the edge taken in block i).
Every step carries `alts`: the other successors of its state under the same action (the pool's map iteration
order decides which idle connection is taken or trimmed): when the code ends up in one of them the behaviour ends
there without a verdict.  Steps the code takes without passing a gate (Wake, WaitCtx) are merged into the step that
caused them."""
import json, sys, os
sys.path.insert(0, os.path.dirname(os.path.abspath(__file__)))
import vf

URGENT = ("Wake", "WaitCtx")


def replayable(st, act):
    """Steps whose outcome the scheduler cannot decide end a path: a select with more than one ready branch."""
    if act["a"] == "Ret":
        e = act["e"] - 1
        c = st["c"][e]
        ready = int(st["chfull"][e]) + int(st["ctxdone"][e]) + int(c > 0 and st["cst"][c - 1] == "closed")
        if ready > 1:
            return False
    return True


def simulate(num, depth, seed, timeout=1200, cfg="PipeStepReplay"):
    r = vf.tlc("PipeStepReplay", cfg=cfg, timeout=timeout, workers=1,
               extra=["-simulate", "num=%d" % num, "-depth", str(depth), "-seed", str(seed)])
    if getattr(r, "fatal", None):
        raise vf.MachineryError("PipeStepReplay simulation failed\n" + r.out[-2000:])
    edges = []
    for line in r.out.splitlines():
        if line.startswith('<<"E", '):
            a = json.loads("[" + line[2:-2] + "]")
            edges.append((a[1], json.loads(a[2]), a[3]))
    return r, edges


def simulate_many(num, depth, seed, cfg="PipeStepReplay", procs=6, timeout=1200):
    """Several simulators side by side (one worker each: a simulator's output must stay in order)."""
    import concurrent.futures
    per = max(1, num // procs)

    def one(i):
        r = vf.tlc("PipeStepReplay", cfg=cfg, timeout=timeout, workers=1, tag="PipeStepReplay-%s-%d" % (cfg, i),
                   extra=["-simulate", "num=%d" % per, "-depth", str(depth), "-seed", str(seed * 1000 + i)])
        if getattr(r, "fatal", None):
            raise vf.MachineryError("PipeStepReplay simulation failed\n" + r.out[-2000:])
        edges = []
        for line in r.out.splitlines():
            if line.startswith('<<"E", '):
                a = json.loads("[" + line[2:-2] + "]")
                edges.append((a[1], json.loads(a[2]), a[3]))
        return edges
    with concurrent.futures.ThreadPoolExecutor(procs) as ex:
        return list(ex.map(one, range(procs)))


def merge(parts):
    """paths_of per simulator, then one state table."""
    states, ids, paths = [], {}, []
    init = 0
    for edges in parts:
        st, ini, ps = paths_of(edges)
        remap = {}
        for i, x in enumerate(st):
            k = json.dumps(x, sort_keys=True)
            if k not in ids:
                ids[k] = len(states)
                states.append(x)
            remap[i] = ids[k]
        init = remap.get(ini, init)
        for p in ps:
            for step in p:
                step["s"] = remap[step["s"]]
                step["alts"] = [remap[a] for a in step["alts"]]
            paths.append(p)
    return states, init, paths


def paths_of(edges):
    states, ids = [], {}

    def sid(s):
        if s not in ids:
            ids[s] = len(states)
            states.append(json.loads(s))
        return ids[s]
    blocks = []
    for s, a, t in edges:
        if blocks and blocks[-1][0] == s:
            blocks[-1][1].append((a, t))
        else:
            blocks.append((s, [(a, t)]))
    init = blocks[0][0] if blocks else None
    paths, cur, dead = [], [], False

    def flush():
        nonlocal cur, dead
        while cur and cur[-1].get("pending"):     # a caused step whose urgent followers were cut off
            cur.pop()
        if cur:
            paths.append(cur)
        cur, dead = [], False
    for i, (s, outs) in enumerate(blocks):
        if s == init and (cur or dead):
            flush()
        if dead:
            continue
        nxt = blocks[i + 1][0] if i + 1 < len(blocks) else None
        step = None
        for a, t in outs:
            if t == nxt:
                step = (a, t)
                break
        if step is None or nxt == init:
            # end of this behaviour (TLC starts the next one at the initial state)
            if nxt == init and step is not None and s != init:
                pass
            flush()
            continue
        a, t = step
        if not replayable(json.loads(s), a):
            flush()
            dead = True
            continue
        alts = sorted({sid(t2) for a2, t2 in outs if a2 == a and t2 != t})
        if a["a"] in URGENT and cur:
            # merged into the step that caused it: that step now ends in this state; same-label alternatives multiply
            cur[-1]["s"] = sid(t)
            cur[-1]["alts"] = sorted(set(cur[-1]["alts"]) | set(alts))
            cur[-1].setdefault("merged", []).append(a)
            nb = blocks[i + 1][1] if i + 1 < len(blocks) else []
            cur[-1]["pending"] = any(x[0]["a"] in URGENT for x in nb)
        else:
            nb = blocks[i + 1][1] if i + 1 < len(blocks) else []
            cur.append({"act": a, "s": sid(t), "alts": alts, "pending": any(x[0]["a"] in URGENT for x in nb)})
    flush()
    for p in paths:
        for st in p:
            st.pop("pending", None)
    return states, sid(init) if init else 0, [p for p in paths if p]


if __name__ == "__main__":
    r, edges = simulate(int(sys.argv[2]), 70, 7)
    states, init, paths = paths_of(edges)
    print("edges", len(edges), "states", len(states), "paths", len(paths), "steps", sum(len(p) for p in paths))
    json.dump({"states": states, "init": init, "paths": paths}, open(sys.argv[1], "w"))
