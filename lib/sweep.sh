#!/bin/bash
# sweep.sh <tier> <seeds...> : run every check with several seeds on the current tree; print one line per run
tier=$1; shift
for s in "$@"; do
  for p in C01 C02 C03 C04 C05 C06 C07 C08 C09 C10 C11 C12 C13 C14 C15 C16 C17 C18 C19 C20; do
    t0=$(date +%s)
    out=$(VERIF_SEED=$s ./check $p --tier $tier 2>&1); rc=$?
    echo "seed=$s $p rc=$rc $(( $(date +%s) - t0 ))s $(echo "$out" | grep -E '^(VIOLATION|KNOWN|MACHINERY|  key=)' | head -3 | tr '\n' ' ' | cut -c1-300)"
  done
done
