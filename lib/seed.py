#!/usr/bin/env python3
"""Seeded-change tooling.
  seed.py verify <seeddir> <demo_file> <demo_dst_rel> <go test args...>   confirm a sub-agent's change in a scratch worktree
  seed.py run <seeddir-or-patch> <check-id> [tier]                        apply to /repo, run the check, revert
"""
import os, subprocess, sys, shutil, json, time, re
ENV = dict(os.environ, GOPROXY="off", GOSUMDB="off", GOTOOLCHAIN="local")
ENV.pop("GOFLAGS", None)

def sh(cmd, cwd=None, timeout=1200):
    p = subprocess.run(cmd, cwd=cwd, env=ENV, shell=isinstance(cmd, str), stdout=subprocess.PIPE, stderr=subprocess.STDOUT, text=True, timeout=timeout)
    return p.returncode, p.stdout

def verify(seeddir, demo_file, demo_dst, testargs):
    wt = "/tmp/sv-%d" % os.getpid()
    sh(["git", "-C", "/repo", "worktree", "add", "-q", "--detach", wt, "HEAD"])
    res = {}
    try:
        shutil.copy(os.path.join(seeddir, demo_file), os.path.join(wt, demo_dst))
        rc, out = sh(["go", "test", "-vet=off", "-count=1"] + testargs, cwd=wt)
        res["demo_clean"] = rc; res["demo_clean_tail"] = out[-300:]
        rc, out = sh(["git", "apply", os.path.join(seeddir, "patch.diff")], cwd=wt)
        res["apply"] = rc
        if rc != 0:
            res["apply_out"] = out[-500:]
            return res
        rc, out = sh(["go", "build", "./..."], cwd=wt); res["build"] = rc
        rc, out = sh(["go", "test", "-vet=off", "-count=1"] + testargs, cwd=wt)
        res["demo_patched"] = rc; res["demo_patched_tail"] = out[-600:]
        os.remove(os.path.join(wt, demo_dst))
        suite = []
        for i in range(2):
            rc, out = sh(["go", "test", "-vet=off", "-count=1", "./..."], cwd=wt)
            fails = set(re.findall(r"^--- FAIL: (\S+)", out, re.M))
            fails.discard("Test_ReuseConnTransport")   # listed as flaky in BASELINE.json
            if rc and not fails and "FAIL" in out and "build failed" not in out and "panic:" not in out:
                rc = 0
            suite.append(rc)
            if rc: res["suite_out"] = out[-1500:]
        res["suite_patched"] = suite
    finally:
        sh(["git", "-C", "/repo", "worktree", "remove", "--force", wt])
        shutil.rmtree(wt, ignore_errors=True)
    res["confirmed"] = (res.get("demo_clean") == 0 and res.get("apply") == 0 and res.get("build") == 0
                        and res.get("demo_patched") != 0 and all(x == 0 for x in res.get("suite_patched", [1])))
    return res

def run(seed, check, tier="quick"):
    patch = seed if seed.endswith(".diff") else os.path.join(seed, "patch.diff")
    rc, out = sh(["git", "-C", "/repo", "status", "--porcelain"])
    if out.strip():
        print("refusing: /repo is dirty\n" + out); return 3
    rc, out = sh(["git", "-C", "/repo", "apply", patch])
    if rc:
        rc, out2 = sh("patch -p1 -F3 -s < %s" % os.path.abspath(patch), cwd="/repo")
        out += out2
        sh("find /repo -name '*.orig' -newer %s -delete; find /repo -name '*.rej' -delete" % os.path.abspath(patch))
    if rc:
        sh(["git", "-C", "/repo", "checkout", "--", "."])
        print("patch does not apply:", out); return 3
    t0 = time.time()
    try:
        rc, out = sh(["./check", check, "--tier", tier], cwd="/verif", timeout=3600)
    finally:
        sh(["git", "-C", "/repo", "checkout", "--", "."])
        sh(["git", "-C", "/repo", "clean", "-fdq"])
    lines = [l for l in out.splitlines() if l.startswith(("VIOLATION", "OK ", "KNOWN", "MACHINERY", "  key="))]
    print("check %s on %s: exit %d (%.0fs)" % (check, patch, rc, time.time() - t0))
    print("\n".join(lines[:12]))
    if rc not in (0, 1): print(out[-2500:])
    return rc

def prun(seed, check, tier="quick"):
    """Like run, but in a scratch worktree and a scratch work directory: /repo is not touched, runs can be parallel."""
    patch = seed if seed.endswith(".diff") else os.path.join(seed, "patch.diff")
    wt, wk = "/tmp/sr-%d" % os.getpid(), "/tmp/sw-%d" % os.getpid()
    sh(["git", "-C", "/repo", "worktree", "add", "-q", "--detach", wt, "HEAD"])
    try:
        rc, out = sh(["git", "-C", wt, "apply", os.path.abspath(patch)])
        if rc:  # hook lines added near the hunk since the seed was made: apply with fuzz
            rc, out2 = sh("patch -p1 -F3 -s < %s" % os.path.abspath(patch), cwd=wt)
            out += out2
        if rc:
            print("patch does not apply:", out); return 3
        t0 = time.time()
        p = subprocess.run(["./check", check, "--tier", tier], cwd="/verif", env=dict(ENV, VERIF_REPO=wt, VERIF_WORK=wk),
                           stdout=subprocess.PIPE, stderr=subprocess.STDOUT, text=True, timeout=3600)
        rc, out = p.returncode, p.stdout
    finally:
        sh(["git", "-C", "/repo", "worktree", "remove", "--force", wt])
        shutil.rmtree(wt, ignore_errors=True)
        shutil.rmtree(wk, ignore_errors=True)
    lines = [l for l in out.splitlines() if l.startswith(("VIOLATION", "OK ", "KNOWN", "MACHINERY", "  key="))]
    print("check %s on %s: exit %d (%.0fs)" % (check, patch, rc, time.time() - t0))
    print("\n".join(lines[:12]))
    if rc not in (0, 1): print(out[-2500:])
    return rc

if __name__ == "__main__":
    if sys.argv[1] == "verify":
        r = verify(sys.argv[2], sys.argv[3], sys.argv[4], sys.argv[5:])
        print(json.dumps(r, indent=1)); sys.exit(0 if r["confirmed"] else 1)
    elif sys.argv[1] == "run":
        sys.exit(run(*sys.argv[2:]))
    elif sys.argv[1] == "prun":
        sys.exit(prun(*sys.argv[2:]))
