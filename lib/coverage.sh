#!/bin/bash
# Blind-spot analysis: which blocks of the code under test do the quick checks' drivers never execute?
# Builds coverage-instrumented drivers from a scratch copy of /repo (+ harness files), runs every quick check
# with them and prints per-function coverage of the property-relevant packages.  Not part of any verdict.
set -e
C=${1:-/tmp/cov}; rm -rf $C; mkdir -p $C/bin $C/data
git -C /repo worktree add -q --detach $C/repo HEAD
cp -r /verif/harness/* $C/repo/
( cd $C/repo && for d in routerdrv xportdrv wiredrv limdrv domdrv cachedrv; do
    GOPROXY=off GOSUMDB=off GOTOOLCHAIN=local go build -tags verif -cover \
      -coverpkg=github.com/IrineSistiana/mosproxy/app/...,github.com/IrineSistiana/mosproxy/internal/... \
      -o $C/bin/$d ./internal/zzverif/$d 2>/dev/null; done )
cd /verif
for p in C01 C02 C03 C04 C05 C06 C07 C08 C09 C10 C11 C12 C13 C14 C15 C16 C17 C18 C19 C20; do
  VERIF_WORK=$C/work VERIF_COVER_BIN=$C/bin GOCOVERDIR=$C/data ./check $p --tier quick 2>&1 | tail -1
done
( cd $C/repo && go tool covdata textfmt -i=$C/data -o $C/cover.txt && go tool cover -func=$C/cover.txt > $C/func.txt )
git -C /repo worktree remove --force $C/repo
echo "per-function coverage: $C/func.txt ; profile: $C/cover.txt"
