"""Shared machinery for the mosproxy TLA+ verification checks.

Exit-code discipline (see DESIGN.md section 8):
  0  property held on everything explored (KNOWN-FINDING lines may be printed)
  1  VIOLATION property=<id> replay=<path>
  2  machinery error (build failure, TLC timeout/OOM, dead driver, vacuity) - never a verdict
"""
import json, os, re, shutil, subprocess, sys, time, hashlib, glob

VERIF = os.path.dirname(os.path.dirname(os.path.abspath(__file__)))
REPO = os.environ.get("VERIF_REPO", "/repo")
WORK = os.environ.get("VERIF_WORK") or os.path.join(VERIF, ".work")
SPEC = os.path.join(VERIF, "spec")
HARNESS = os.path.join(VERIF, "harness")
# evidence of a run against anything but /repo itself (seeded worktrees, coverage copies) stays in the work directory
EVID = os.path.join(VERIF, "evidence") if REPO == "/repo" else os.path.join(WORK, "evidence")
KNOWN = os.path.join(VERIF, "known_findings.json")
NCPU = os.cpu_count() or 4


class MachineryError(Exception):
    pass


def log(*a):
    print("[verif]", *a, file=sys.stderr, flush=True)


def goenv():
    e = dict(os.environ)
    e.update(GOPROXY="off", GOSUMDB="off", GOTOOLCHAIN="local", GOFLAGS="")
    e.pop("GOFLAGS", None)
    return e


def sh(cmd, cwd=None, env=None, timeout=None, check=True, capture=True):
    t0 = time.time()
    try:
        p = subprocess.run(cmd, cwd=cwd, env=env, timeout=timeout, shell=isinstance(cmd, str),
                           stdout=subprocess.PIPE if capture else None,
                           stderr=subprocess.STDOUT if capture else None, text=True, errors="replace")
    except subprocess.TimeoutExpired as ex:
        out = ex.stdout if isinstance(ex.stdout, str) else (ex.stdout or b"").decode("utf8", "replace")
        raise MachineryError("timeout after %ss: %s\n%s" % (timeout, cmd, (out or "")[-2000:]))
    if check and p.returncode != 0:
        raise MachineryError("command failed (%d): %s\n%s" % (p.returncode, cmd, (p.stdout or "")[-4000:]))
    return p.returncode, p.stdout or "", time.time() - t0


# --------------------------------------------------------------------------- build

def make_overlay():
    """Map every file below /verif/harness/<relpath> to /repo/<relpath> (add-only overlay)."""
    os.makedirs(WORK, exist_ok=True)
    repl = {}
    for root, _, files in os.walk(HARNESS):
        for f in files:
            if not f.endswith(".go"):
                continue
            src = os.path.join(root, f)
            rel = os.path.relpath(src, HARNESS)
            dst = os.path.join(REPO, rel)
            if os.path.exists(dst):
                raise MachineryError("overlay would replace repository file %s" % dst)
            repl[dst] = src
    path = os.path.join(WORK, "overlay.json")
    with open(path, "w") as fh:
        json.dump({"Replace": repl}, fh, indent=1)
    return path


def build_driver(name, race=False):
    if os.environ.get("VERIF_COVER_BIN") and not race:
        # blind-spot analysis only (lib/coverage.sh): pre-built coverage-instrumented drivers, GOCOVERDIR is inherited
        return os.path.join(os.environ["VERIF_COVER_BIN"], name)
    ov = make_overlay()
    out = os.path.join(WORK, "bin", name + ("-race" if race else ""))
    os.makedirs(os.path.dirname(out), exist_ok=True)
    cmd = ["go", "build", "-tags", "verif", "-overlay", ov, "-o", out]
    if race:
        cmd.append("-race")
    cmd.append("./internal/zzverif/" + name)
    try:
        sh(cmd, cwd=REPO, env=goenv(), timeout=900)
    except MachineryError as ex:
        raise MachineryError("driver build failed (%s): %s" % (name, ex))
    return out


def build_mosproxy():
    out = os.path.join(WORK, "bin", "mosproxy")
    os.makedirs(os.path.dirname(out), exist_ok=True)
    sh(["go", "build", "-o", out, "."], cwd=REPO, env=goenv(), timeout=900)
    return out


# --------------------------------------------------------------------------- TLC

class TlcResult:
    def __init__(self):
        self.out = ""
        self.generated = 0
        self.distinct = 0
        self.depth = 0
        self.wall = 0.0
        self.ok = False            # "No error has been found"
        self.violated = None       # name of violated invariant/property
        self.errtext = ""
        self.cmd = ""
        self.prints = []           # PrintT tuples rendered as text lines
        self.coverage = {}


def scratch(tag):
    d = os.path.join(WORK, "tlc", "%s-%d-%d" % (tag, os.getpid(), int(time.time() * 1000) % 100000000))
    os.makedirs(d, exist_ok=True)
    for f in glob.glob(os.path.join(SPEC, "*.tla")) + glob.glob(os.path.join(SPEC, "*.cfg")):
        shutil.copy(f, d)
    return d


def tlc(module, cfg=None, workers=None, timeout=900, extra=(), files=None, tag=None, xss=True,
        defines=None, keep=False, heap=None):
    """Run TLC on spec/<module>.tla with spec/<cfg>.cfg in a scratch copy of the spec dir.
    files: {name: path-or-bytes} copied into the scratch dir (trace inputs).
    defines: {NAME: tla-expression} written into a generated wrapper module that EXTENDS module
             and a cfg that substitutes constants (CONSTANT NAME <- vf_NAME)."""
    d = scratch(tag or module)
    if files:
        for n, src in files.items():
            dst = os.path.join(d, n)
            if isinstance(src, (bytes, bytearray)):
                open(dst, "wb").write(src)
            elif isinstance(src, str) and os.path.exists(src):
                shutil.copy(src, dst)
            else:
                open(dst, "w").write(src)
    cfgname = (cfg or module) + ".cfg"
    if defines:
        base = open(os.path.join(d, cfgname)).read()
        wrap = "VF_" + module
        body = ["---- MODULE %s ----" % wrap, "EXTENDS %s" % module]
        lines = []
        for k, v in defines.items():
            body.append("vf_%s == %s" % (k, v))
            lines.append("%s <- vf_%s" % (k, k))
        body.append("====")
        open(os.path.join(d, wrap + ".tla"), "w").write("\n".join(body) + "\n")
        open(os.path.join(d, wrap + ".cfg"), "w").write(base + "\nCONSTANTS\n" + "\n".join(lines) + "\n")
        module, cfgname = wrap, wrap + ".cfg"
    env = dict(os.environ)
    jopts = []
    if xss:
        jopts.append("-Xss512m")
    if heap:
        jopts.append("-Xmx%s" % heap)
    if jopts:
        env["JAVA_TOOL_OPTIONS"] = " ".join(jopts + [env.get("JAVA_TOOL_OPTIONS", "")]).strip()
    cmd = ["tlc", "-workers", str(workers or NCPU), "-metadir", os.path.join(d, "md"),
           "-config", cfgname] + list(extra) + [module + ".tla"]
    r = TlcResult()
    r.cmd = " ".join(cmd)
    t0 = time.time()
    try:
        p = subprocess.run(cmd, cwd=d, env=env, timeout=timeout, stdout=subprocess.PIPE,
                           stderr=subprocess.STDOUT, text=True, errors="replace")
    except subprocess.TimeoutExpired:
        subprocess.run("pkill -f 'tlc2.TL[C]' || true", shell=True)
        raise MachineryError("TLC timeout after %ss: %s" % (timeout, r.cmd))
    r.wall = time.time() - t0
    r.out = p.stdout or ""
    r.dir = d
    parse_tlc(r)
    if not keep and r.ok:
        shutil.rmtree(d, ignore_errors=True)
    else:
        shutil.rmtree(os.path.join(d, "md"), ignore_errors=True)
    return r


def parse_tlc(r):
    out = r.out
    m = None
    for m in re.finditer(r"(\d+) states generated, (\d+) distinct states found", out):
        pass
    if m:
        r.generated, r.distinct = int(m.group(1)), int(m.group(2))
    m = re.search(r"depth of the complete state graph search is (\d+)", out)
    if m:
        r.depth = int(m.group(1))
    r.ok = "Model checking completed. No error has been found." in out or \
           ("Finished in" in out and "Error:" not in out and "-simulate" in r.cmd)
    m = re.search(r"Invariant (\S+) is violated", out)
    if m:
        r.violated = m.group(1)
    m2 = re.search(r"(Action property|Temporal properties|Temporal property|property) (\S+)? ?(is|were|was) violated", out)
    if m2 and not r.violated:
        r.violated = m2.group(2) or "temporal"
    if "Error:" in out:
        i = out.index("Error:")
        r.errtext = out[i:i + 3000]
    for fatal in ("StackOverflowError", "OutOfMemoryError", "java.lang."):
        if fatal in out and not r.violated:
            r.fatal = fatal
    # coverage lines:  <Action line ..., col ... of module M>: distinct:generated
    for m in re.finditer(r"^<(\w+) line \d+, col \d+ to line \d+, col \d+ of module (\w+)>: (\d+):(\d+)", out, re.M):
        r.coverage[m.group(2) + "." + m.group(1)] = (int(m.group(3)), int(m.group(4)))
    return r


def tlc_values(out, tag):
    """Extract PrintT(<<"tag", ...>>) outputs. TLC pretty-prints tuples possibly over several lines;
    we ask specs to print JSON strings: PrintT(<<"TAG", ToJson(x)>>) -> <<"TAG", "json...">>."""
    res = []
    # join continuation lines
    txt = out
    for m in re.finditer(r'<<\s*"%s",\s*"((?:[^"\\]|\\.)*)"\s*>>' % re.escape(tag), txt, re.S):
        s = m.group(1)
        try:
            s2 = bytes(s, "utf8").decode("unicode_escape")
            res.append(json.loads(s2))
        except Exception:
            res.append(s)
    return res


def tlc_tuples(out, tag):
    """Extract simple one-line or multi-line tuples <<"tag", a, b, ...>> whose elements are ints/strings."""
    res = []
    for m in re.finditer(r'<<\s*"%s"\s*,(.*?)>>' % re.escape(tag), out, re.S):
        parts = [x.strip() for x in m.group(1).split(",")]
        row = []
        for x in parts:
            if re.fullmatch(r"-?\d+", x):
                row.append(int(x))
            else:
                row.append(x.strip('"'))
        res.append(tuple(row))
    return res


# --------------------------------------------------------------------------- trace validation

class Validation:
    def __init__(self):
        self.events = 0
        self.consumed = 0
        self.bad = []        # list of (line_index_1based, inv_name)
        self.tlc = None


def validate_trace(trace_module, trace_path, cfg=None, timeout=900, extra_files=None, defines=None, tag=None):
    """Run the trace spec over an ndjson trace. Convention for trace specs:
       * reads "trace.ndjson" from the working directory,
       * prints <<"BAD", l, "InvName">> for every event whose property guard fails,
       * prints <<"CONSUMED", n>> from its POSTCONDITION (number of consumed lines)."""
    n = sum(1 for _ in open(trace_path))
    files = {"trace.ndjson": trace_path}
    if extra_files:
        files.update(extra_files)
    r = tlc(trace_module, cfg=cfg, workers=1, timeout=timeout, files=files, defines=defines,
            tag=tag or trace_module)
    v = Validation()
    v.tlc = r
    v.events = n
    if getattr(r, "fatal", None):
        ex = MachineryError("TLC crashed (%s) validating %s\n%s" % (r.fatal, trace_path, r.out[-3000:]))
        # rejections printed before the crash are real observations: the caller records them before giving up
        ex.partial_bad = sorted(set((t[0], t[1]) + tuple(t[2:]) for t in tlc_tuples(r.out, "BAD") if len(t) >= 2))
        raise ex
    h = tlc_tuples(r.out, "HARNESS")
    if h:
        raise MachineryError("harness inconsistency reported by %s: %s" % (trace_module, h[:3]))
    for t in tlc_tuples(r.out, "BAD"):
        if len(t) >= 2:
            v.bad.append((t[0], t[1]) + tuple(t[2:]))
    v.bad = sorted(set(v.bad))
    c = tlc_tuples(r.out, "CONSUMED")
    v.consumed = c[-1][0] if c else 0
    if not c:
        raise MachineryError("trace spec %s did not report CONSUMED\n%s" % (trace_module, r.out[-3000:]))
    if r.errtext and "CONSUMED" not in r.errtext and not r.violated and "Postcondition" not in r.errtext \
            and "postcondition" not in r.errtext.lower():
        raise MachineryError("TLC error validating %s: %s" % (trace_path, r.errtext[:2000]))
    return v


def tlapm(module, deps=(), timeout=900):
    """Check a TLAPS proof module in a scratch copy (no fingerprint cache). Returns the number of obligations;
    raises MachineryError unless every obligation is proved."""
    d = os.path.join(WORK, "tlaps", "%s-%d" % (module, os.getpid()))
    shutil.rmtree(d, ignore_errors=True)
    os.makedirs(d)
    for f in (module,) + tuple(deps):
        shutil.copy(os.path.join(SPEC, f + ".tla"), d)
    t0 = time.time()
    try:
        p = subprocess.run(["tlapm", "--threads", str(min(NCPU, 16)), module + ".tla"], cwd=d, timeout=timeout,
                           stdout=subprocess.PIPE, stderr=subprocess.STDOUT, text=True, errors="replace")
    except subprocess.TimeoutExpired:
        raise MachineryError("tlapm timeout on %s" % module)
    finally:
        pass
    m = re.search(r"All (\d+) obligations proved", p.stdout)
    shutil.rmtree(d, ignore_errors=True)
    if not m:
        raise MachineryError("tlapm did not prove %s:\n%s" % (module, p.stdout[-3000:]))
    log("tlapm %s: %s obligations proved, %.1fs" % (module, m.group(1), time.time() - t0))
    return int(m.group(1))


# --------------------------------------------------------------------------- known findings

def load_known():
    if not os.path.exists(KNOWN):
        return []
    return json.load(open(KNOWN)).get("findings", [])


def match_known(prop, key):
    for f in load_known():
        if f.get("property") == prop and f.get("status") == "known" and re.fullmatch(f["key"], key):
            return f
    return None


def crash_info(out):
    """Parse a Go panic / fatal error report. Returns what/where and whether the first module frame is harness code."""
    m = re.search(r"^(panic: .*|fatal error: .*)$", out, re.M)
    if not m:
        return None
    tail = out[m.start():]
    frames = re.findall(r"^\s+(/\S+\.go):(\d+)", tail, re.M)
    where = "unknown"
    harness = True
    for f, ln in frames:
        if "/go/src/" in f or "/golang.org/" in f or "/pkg/mod/" in f or "/usr/local/go/" in f or "/usr/lib/go" in f:
            continue
        where = "%s:%s" % (f.replace(REPO + "/", ""), ln)
        harness = "/zzverif/" in f or "zz_verif" in f
        break
    return {"what": m.group(1), "where": where, "harness": harness}


# --------------------------------------------------------------------------- check context

class Ctx:
    def __init__(self, prop, tier, seed):
        self.prop, self.tier, self.seed = prop, tier, seed
        self.t0 = time.time()
        self.states = 0
        self.transitions = 0
        self.traces = 0
        self.events = 0
        self.samples = []
        self.cmds = []
        self.assumptions = []
        self.extra = {}
        self.violations = []   # (key, what, replay)
        self.known = []
        self.crashes = []
        self.dup_counts = {}
        self.exhaustive_runs = []
        self.workdir = os.path.join(WORK, "run", "%s-%s-%d" % (prop, tier, os.getpid()))
        shutil.rmtree(self.workdir, ignore_errors=True)
        os.makedirs(self.workdir, exist_ok=True)

    @property
    def quick(self):
        return self.tier == "quick"

    def path(self, *p):
        f = os.path.join(self.workdir, *p)
        os.makedirs(os.path.dirname(f), exist_ok=True)
        return f

    # -- model
    def exhaustive(self, module, cfg=None, timeout=1800, workers=None, coverage=False, expect_ok=True,
                   defines=None, extra=()):
        ex = list(extra)
        if coverage:
            ex += ["-coverage", "1"]
        r = tlc(module, cfg=cfg, workers=workers, timeout=timeout, extra=ex, defines=defines,
                tag="%s-%s" % (self.prop, cfg or module))
        self.cmds.append(r.cmd)
        if getattr(r, "fatal", None) and not r.violated:
            raise MachineryError("TLC crashed (%s) on %s\n%s" % (r.fatal, module, r.out[-3000:]))
        if expect_ok and not r.ok:
            raise MachineryError("design model %s/%s is not clean (spec bug or un-replayed counterexample): %s\n%s"
                                 % (module, cfg, r.violated, r.out[-6000:]))
        self.states += r.distinct
        self.transitions += r.generated
        self.exhaustive_runs.append({"module": module, "cfg": cfg or module, "distinct": r.distinct,
                                     "generated": r.generated, "depth": r.depth, "wall_s": round(r.wall, 1),
                                     "ok": r.ok})
        if coverage:
            zero = [k for k, (d, g) in r.coverage.items() if g == 0]
            if zero:
                raise MachineryError("vacuous actions in %s/%s: %s" % (module, cfg, zero))
            self.extra.setdefault("action_coverage", {}).update({k: g for k, (d, g) in r.coverage.items()})
        log("exhaustive %s/%s: %d distinct, %d generated, depth %d, %.1fs" %
            (module, cfg or module, r.distinct, r.generated, r.depth, r.wall))
        return r

    # -- driver
    def driver(self, binpath, args, timeout=900, env=None, ok_codes=(0,)):
        e = dict(os.environ)
        e["VERIF_SEED"] = str(self.seed)
        if env:
            e.update(env)
        cmd = [binpath] + [str(a) for a in args]
        self.cmds.append(" ".join(cmd))
        t0 = time.time()
        try:
            p = subprocess.run(cmd, cwd=self.workdir, env=e, timeout=timeout, stdout=subprocess.PIPE,
                               stderr=subprocess.STDOUT, text=True, errors="replace")
        except subprocess.TimeoutExpired as ex:
            raise MachineryError("driver timeout: %s" % " ".join(cmd))
        if p.returncode not in ok_codes:
            cr = crash_info(p.stdout)
            if cr and not cr["harness"]:
                # the code under test crashed the process: a verdict-bearing observation, not a machinery error
                self.crashes.append(cr)
                self.violation("crash:process:%s" % cr["where"],
                               "the process crashed while being driven: %s at %s" % (cr["what"][:200], cr["where"]),
                               artefact={"cmd": " ".join(cmd), "output_tail": p.stdout[-3000:]})
                log("driver %s crashed in code under test: %s" % (os.path.basename(binpath), cr["where"]))
                return p.stdout
            raise MachineryError("driver failed (%d): %s\n%s" % (p.returncode, " ".join(cmd), p.stdout[-4000:]))
        log("driver %s: %.1fs" % (os.path.basename(binpath), time.time() - t0))
        return p.stdout

    # -- validation
    def validate(self, trace_module, trace_path, keyfn, cfg=None, timeout=900, extra_files=None,
                 defines=None, describe=None, require_events=1, only=None):
        """keyfn(event_dict, inv_name) -> stable known-findings key for the rejecting event."""
        lines = open(trace_path).read().splitlines()
        if self.crashes or any(('"ev":"hang"' in x or '"ev":"crash"' in x) for x in lines[-50:]):
            require_events = 0      # the trace of a crashed / wedged run is legitimately short
        if len(lines) < require_events:
            raise MachineryError("trace %s has %d events (< %d): dead driver" % (trace_path, len(lines), require_events))
        try:
            v = validate_trace(trace_module, trace_path, cfg=cfg, timeout=timeout, extra_files=extra_files,
                               defines=defines, tag="%s-%s" % (self.prop, trace_module))
        except MachineryError as ex:
            for b in getattr(ex, "partial_bad", []):
                l, inv = b[0], b[1]
                if only and not any(inv.startswith(p) for p in only):
                    continue
                ev = json.loads(lines[l - 1]) if 1 <= l <= len(lines) else {}
                self._report(keyfn(ev, inv), (describe(ev, inv) if describe else "%s fails at line %d" % (inv, l)), trace_path, l, ev, inv)
            raise
        self.cmds.append(v.tlc.cmd)
        self.traces += 1
        self.events += v.events
        log("validate %s on %s: %d events, consumed %d, %d rejected, %.1fs" %
            (trace_module, os.path.basename(trace_path), v.events, v.consumed, len(v.bad), v.tlc.wall))
        if v.consumed < v.events:
            # structural rejection: the line after the longest matched prefix
            ev = json.loads(lines[v.consumed]) if v.consumed < len(lines) else {}
            key = keyfn(ev, "Unconsumable")
            self._report(key, "trace not a behaviour of %s at line %d: %s" %
                         (trace_module, v.consumed + 1, json.dumps(ev)[:400]), trace_path, v.consumed + 1, ev)
        for b in v.bad:
            l, inv = b[0], b[1]
            if only and not any(inv.startswith(p) for p in only):
                self.extra.setdefault("other_property_rejections_ignored", {})
                self.extra["other_property_rejections_ignored"][inv] = self.extra["other_property_rejections_ignored"].get(inv, 0) + 1
                continue
            ev = json.loads(lines[l - 1]) if 1 <= l <= len(lines) else {}
            key = keyfn(ev, inv)
            what = (describe(ev, inv) if describe else "%s fails at line %d: %s" % (inv, l, json.dumps(ev)[:400]))
            self._report(key, what, trace_path, l, ev, inv)
        return v

    def _report(self, key, what, trace_path, line, ev, inv=None):
        k = match_known(self.prop, key)
        if k:
            if key not in [x[0] for x in self.known]:
                self.known.append((key, k.get("what", what)))
            return
        for v in self.violations:
            if v[0] == key:
                self.dup_counts[key] = self.dup_counts.get(key, 1) + 1
                return
        rp = self.save_replay(trace_path, line, ev, inv, key)
        self.violations.append((key, what, rp))

    def save_replay(self, trace_path, line, ev, inv, key):
        d = os.path.join(VERIF, "replays", "%s-%s" % (self.prop, hashlib.sha1(key.encode()).hexdigest()[:10]))
        os.makedirs(d, exist_ok=True)
        try:
            shutil.copy(trace_path, os.path.join(d, "trace.ndjson"))
        except Exception:
            pass
        json.dump({"property": self.prop, "key": key, "invariant": inv, "line": line, "event": ev,
                   "seed": self.seed, "tier": self.tier, "cmds": self.cmds[-6:]},
                  open(os.path.join(d, "replay.json"), "w"), indent=1)
        return d

    def violation(self, key, what, artefact=None):
        """Direct report (e.g. crash/hang event observed by the supervisor)."""
        k = match_known(self.prop, key)
        if k:
            if key not in [x[0] for x in self.known]:
                self.known.append((key, k.get("what", what)))
            return
        for v in self.violations:
            if v[0] == key:
                self.dup_counts[key] = self.dup_counts.get(key, 1) + 1
                return
        d = os.path.join(VERIF, "replays", "%s-%s" % (self.prop, hashlib.sha1(key.encode()).hexdigest()[:10]))
        os.makedirs(d, exist_ok=True)
        json.dump({"property": self.prop, "key": key, "what": what, "seed": self.seed, "tier": self.tier,
                   "artefact": artefact}, open(os.path.join(d, "replay.json"), "w"), indent=1)
        self.violations.append((key, what, d))

    def sample(self, x):
        if len(self.samples) < 8:
            self.samples.append(x)

    # -- finish
    def finish(self, level="model_checking", rule=None, extra_cov=None):
        os.makedirs(EVID, exist_ok=True)
        cov = {
            "states": max(self.states, 0), "transitions": max(self.transitions, 0),
            "traces_validated_against_impl": self.traces,
            "samples": self.samples or ["(none)"],
            "events_validated": self.events,
            "exhaustive_runs": self.exhaustive_runs,
            "checker_cmd": "; ".join(self.cmds[-4:])[:4000],
            "known_findings_hit": [k for k, _ in self.known],
        }
        if rule:
            cov["rule"] = rule
        cov.update(self.extra)
        if extra_cov:
            cov.update(extra_cov)
        ev = {"property_id": self.prop, "tier": self.tier, "seed": self.seed, "level": level,
              "coverage": cov, "assumptions": self.assumptions, "wall_s": round(time.time() - self.t0, 1),
              "violations": len(self.violations)}
        json.dump(ev, open(os.path.join(EVID, self.prop + ".json"), "w"), indent=1)
        for key, what in self.known:
            print("KNOWN-FINDING: property=%s %s [%s]" % (self.prop, what, key))
        if self.violations:
            for key, what, rp in self.violations[:20]:
                print("VIOLATION property=%s replay=%s" % (self.prop, rp))
                print("  key=%s  (%d rejecting events)  %s" % (key, self.dup_counts.get(key, 1), what[:600]))
            return 1
        if not self.known:
            shutil.rmtree(self.workdir, ignore_errors=True)
        print("OK property=%s tier=%s states=%d traces=%d events=%d wall=%.1fs" %
              (self.prop, self.tier, self.states, self.traces, self.events, time.time() - self.t0))
        return 0
