#!/usr/bin/env python3
"""seedkeep.py <src-dir> <seed-id> <property> <demo_dst_rel> <demo_cmd> <needs> <detected_by> """
import sys, os, shutil, json, subprocess
src, sid, prop, dst, cmd, needs, det = sys.argv[1:8]
d = os.path.join("/verif/seeded", sid)
os.makedirs(d, exist_ok=True)
for f in os.listdir(src):
    shutil.copy(os.path.join(src, f), d)
head = subprocess.run(["git", "-C", "/repo", "rev-parse", "--short", "HEAD"], capture_output=True, text=True).stdout.strip()
json.dump({"id": sid, "breaks_property": prop, "needs_to_manifest": needs,
           "demo": {"copy_to": dst, "command": cmd},
           "confirmed": "lib/seed.py verify: demo passes on clean HEAD %s, patch applies and builds, demo fails with patch, existing suite passes with patch (baseline-flaky Test_ReuseConnTransport ignored)" % head,
           "checked_with": "lib/seed.py run <dir> %s  (git -C /repo apply; ./check %s --tier quick; git checkout)" % (prop, prop),
           "detected_by": det, "source": "independent sub-agent given only the property text and a scratch worktree"},
          open(os.path.join(d, "meta.json"), "w"), indent=1)
print("kept", d)
