#!/usr/bin/env python3
"""Regenerates MANIFEST.json from the table below (kept in one place so it is always valid)."""
import json, os, subprocess
V = os.path.dirname(os.path.dirname(os.path.abspath(__file__)))

CHECKS = {
 "C11": dict(technique="TLA+ model of the label trie vs declarative suffix semantics (TLC exhaustive) + TLC-generated insertion histories replayed into the real loader/matcher + trace validation of recorded probes by TLC",
             text="Exhaustive TLC check that the trie algorithm equals the declarative suffix semantics and is monotone for every insertion sequence within the bounded universe; every distinct model state's insertion history is replayed through the real file loader and matcher, and all recorded probe results (also for seeded random lists with arbitrary octets, 1..63-octet labels) are checked by TLC against the specification's Matches/Readable.",
             note="Bounded label universe for the exhaustive part; random lists are sampling; regexp entries limited to anchored literals; Go regexp engine trusted.",
             ref="DESIGN.md section 4 C11"),
 "C15": dict(technique="TLA+ token-bucket model per masked subnet (TLC exhaustive: budget bound, isolation) + TLC-generated arrival histories replayed into the real ClientLimiter with virtual time + TLC trace validation of every decision",
             text="Exhaustive TLC check of the budget bound and isolation on the bucket model (5 addresses in 3 subnets incl. IPv4-mapped, all arrival interleavings within bounds, with and without the global bucket); one arrival history per distinct model state plus seeded random histories are replayed into the real limiter.ClientLimiter under 8 configuration shapes (explicit, omitted and out-of-range masks, omitted burst) and TLC checks each recorded decision for equality with the model, the window budget on the admitted costs and that only the caller's subnet is charged.",
             note="Virtual-time replay (AllowN takes now as an argument); float arithmetic of x/time/rate kept exact by construction of the stimuli; live-listener clauses are checked on router traces.",
             ref="DESIGN.md section 4 C15"),
 "C05": dict(technique="TLA+ model of one multiplexed connection (TLC exhaustive over all interleavings of exchanges, adversarial server sends, duplication, drops, cancellation, close) + trace validation of hook events from pipeline_conn.go and scripted-server events by TLC",
             text="TLC exhausts every interleaving of 3 (thorough: 4) exchanges on a connection with 2 (3) wire IDs against a server that may reply to any ID at any time, with duplication, loss, cancellation and close at every point, checking match/no-share/ID-distinctness/monotone counter; the real PipelineTransport (UDP and TCP) is then driven by 32 concurrent callers against a seeded adversarial server (out-of-order, late-after-cancel, duplicate, unsolicited-future-ID, dropped replies, oversized writes) and one connection object is driven through more than 65536 exchanges; TLC validates the recorded hook/server/caller events against the trace specification and evaluates every C05 invariant at every event.",
             note="Real-code schedules are sampled; hook events are emitted under the connection's lock; server sends are logged before the bytes are written.",
             ref="DESIGN.md section 4 C05"),
 "C06": dict(technique="TLA+ model of the one-at-a-time connection pool (TLC exhaustive: worker outliving caller, two-step release, idle timer, server abort, retry, close) + TLC trace validation of reuse_transport.go hook events and scripted-server/caller events",
             text="TLC exhausts all interleavings of 3 exchanges over 2 connections with cancellation, idle-timer expiry, server abort and transport close at every point (one-outstanding, clean-idle, exclusive use, own-reply); the real ReuseConnTransport is driven by 12 concurrent callers whose deadlines fall around the reply time against a seeded server that delays, splits, half-sends, drops, aborts (FIN/RST) and closes connections while idle, with 25 ms idle and 150 ms response time-outs; TLC validates the hook/server/caller trace and evaluates the C06 invariants at every event.",
             note="Real-code schedules are sampled; rc.* hooks are emitted under the connection's lock or by the single worker owning it; the server answers at most once per query.",
             ref="DESIGN.md section 4 C06"),
 "C16": dict(technique="TLA+ specification of the UDP->TC->TCP fallback (TLC exhaustive over all leg outcomes) + TLC trace validation of scripted two-protocol server events and caller outcomes from the real udp:// upstream",
             text="The fallback function is specified and exhausted over every combination of UDP outcome (reply, TC reply, loss) and TCP outcome (reply, abort, silence); the real upstream built by NewUpstream(\"udp://...\") is driven by concurrent callers against a server owning both protocols of one port whose per-question script fixes both legs; TLC checks on the recorded trace that no truncated UDP message is ever returned, that TCP is attempted only after a TC reply, and that each caller's outcome class equals the specification's Result(udp, tcp).",
             note="Outcome classes are timing-free by construction of the scenario (ample caller deadline).",
             ref="DESIGN.md section 4 C16"),
 "C03": dict(technique="TLA+ router model (TLC exhaustive incl. liveness 'every request is answered' under fairness, deadline urgency) + TLC trace validation of independent-client / scripted-upstream observations on all 8 listener kinds of the real in-process router",
             text="TLC exhausts the router model (requests x rule lists x upstream outcomes incl. silence, with the deadline as the only rescue) for the rcode mapping, header echo and at-most-one response, and checks liveness under fairness of the router's own steps; the real router is started in-process with every listener kind (udp, tcp, gnet, tls, http, https, fasthttp, quic) and queried by independent clients while scripted upstreams answer, return error rcodes, send garbage, drop the connection or stay silent for the whole 6 s; TLC validates the recorded trace: exactly one response per query, ID/opcode/QR/RA/RD/question echo, NOTIMP/REFUSED/SERVFAIL mapping computed from the configuration by the specification, deadline + slack.",
             note="Responses are parsed by miekg/dns in the harness; a decodable upstream reply with a foreign question is outside the fault model.",
             ref="DESIGN.md section 4 C03"),
 "C07": dict(technique="TLA+ router/cache model (TLC exhaustive with eviction and clock) + TLC trace validation of cache hook events (key bytes, group label, hit's store) and client/upstream observations over query variants differing in one key component",
             text="TLC exhausts the cache model for key equality of hits under stores/lookups/evictions; on the real router with an ip_marker file, query families differing in exactly one of name case, name, type, class, client address (across/within/adjacent to ranges, v6, IPv4-mapped, client-address header) are run with background churn and a refresh-window phase; TLC checks that the key bytes equal the specification's KeyBytes, that the group label equals Group(ranges, addr), that every hit names a store with equal key, that stores file answers under their own question, that cached responses equal the first relayed response, and the must-hit clause.",
             note="Memory cache only (no redis server offline); must-hit only outside the refresh window with > 1 s left.",
             ref="DESIGN.md section 4 C07"),
 "C10": dict(technique="TLA+ router model exhaustively checked over all rule lists of length <= 2 over 10 rule shapes (TLC) + the same TLC-generated rule lists started as real routers + TLC trace validation (first-match index from the hook, upstream view) + start-up decision table on in-process and real-binary boots",
             text="TLC enumerates 111 rule lists (unconditional / set / reversed set x forward u1|u2 / reject / no action, shared sets) and checks first-match, only-selected-upstream and REFUSED fall-through on the model; the harness starts a real router per generated list with one scripted upstream per tag and queries names inside/outside/at the apex of each set (incl. mixed case, cache on/off, repeats); TLC recomputes FirstMatch/Decide from the logged configuration (domain files parsed by the specification) and checks the hook's rule index, that only the decided upstream receives exactly the lower-cased question with RD=1, and rcodes; invalid configurations (unknown upstream/set tag, repeated tag, unknown key at 5 nesting levels) must fail to start in-process and as the real binary.",
             note="Rule lists of length 3 are explored only in the thorough tier sample; YAML strictness is checked on the real binary.",
             ref="DESIGN.md section 4 C10"),
 "C08": dict(technique="TLA+ router/cache model with clock (TLC exhaustive: ageing, expiry, TC never stored, negative set-if-absent never displaces a live positive entry) + TLC trace validation of timed scenarios on real router instances (client/upstream observations + cache.store/cache.get hooks)",
             text="TLC exhausts the timed cache model (TTL vectors, rcodes, TC, eviction, scaled lifetime caps) for the ageing bound, expiry, no-TC-store and no-displacement; 13 (thorough: 16 incl. the 30 s caps) timed scenarios run in parallel on separate real router instances: TTL 0/1/4/6 answers re-queried at sub-second to multi-second offsets, SERVFAIL (1 s), REFUSED (5 s), NXDOMAIN with short SOA, NODATA, maximum_ttl, truncated and garbage replies, a refresh answered by SERVFAIL/REFUSED; TLC checks every served TTL against the upstream TTL minus whole seconds since the proxy's own stored instant, that nothing is served later than lifetime + 2 s, the stored lifetime, and that truncated/failed exchanges are never served from cache.",
             note="One-sided timing bounds with the granularity the property grants; TTL 2^32-1 not generated; memory cache only.",
             ref="DESIGN.md section 4 C08"),
 "C12": dict(technique="TLA+ response/forward construction rules (RouterOps: ProxyUdpSize, EcsOption) + TLC trace validation of raw upstream query images and parsed client responses over client address kinds and option-laden OPTs",
             text="On real routers with ECS on and off, clients on udp/tcp/quic (loopback aliases) and DoH listeners (arbitrary IPv4, IPv6, IPv4-mapped and absent addresses through the client address header) send queries with no OPT, a plain OPT and an option-laden OPT (cookie, ECS, padding, DO) while upstream replies carry option-laden OPTs, on uncached and cached paths; TLC checks that a response has exactly one empty OPT advertising the proxy's size iff the supported query had one and none otherwise, that each upstream query has exactly one OPT whose only possible option is ECS, and that the ECS bytes equal the specification's EcsOption(client address) (/24, /56, scope 0, no host bits) and are absent when ECS is off or the address unknown.",
             note="Upstream-side OPT scanned from the raw wire by the harness; at most one OPT per generated message.",
             ref="DESIGN.md section 4 C12"),
 "C19": dict(technique="TLA+ router model with prefetch set (TLC exhaustive: at most one refresh per key, hit never waits) + TLC trace validation of pf.reserve/pf.done hooks (under the controller's mutex), upstream view and hit latencies in refresh-window scenarios",
             text="TLC exhausts the prefetch part of the router model; on real routers 8 s entries are hit by bursts of 24-40 concurrent clients at the start of the last quarter while the scripted upstream stalls, fails (garbage, silence, SERVFAIL reply) or completes the refresh; TLC checks single-flight on the hook events and on the upstream's view (no two overlapping exchanges for a key that has a live entry), that window hits are answered within the slack while the refresh is stalled, that hits after a successful refresh carry the renewed entry, and that a failed refresh leaves the old entry served.",
             note="Schedules are sampled (27 keys x bursts per run); latency bound one-sided.",
             ref="DESIGN.md section 4 C19"),
 "C01": dict(technique="TLA+ step machine of the name decoder (TLC exhaustive over all inputs of a critical-octet alphabet: in-bounds invariant, termination as a liveness property) + the same TLC-enumerated inputs and seeded mutations replayed into the real decoder under a crash/hang supervisor + TLC trace validation of every verdict against the specification's decoder",
             text="TLC explores the decoder machine on every octet string over {end, tiny labels, maximal label, reserved prefix, pointer high/low octets, data} up to 5 (thorough: 7) octets: no access outside the input, name length bound, and termination (a pointer loop would be a lasso; the variant without hop limit is rejected); each enumerated input (as a question name, bare and followed by type/class) and thousands of structure-aware mutations (truncation, lying counts and RDLENGTH, pointers to self/forward/header/chains of 9-12, reserved prefixes, 250-257 octet names) are executed by the real dnsmsg.UnpackMsg under a supervisor; TLC checks that the recorded verdict equals the specification decoder's and, when accepted, the parsed content too; a panic or a 3 s stall is an event the specification has no action for.",
             note="Memory safety of Go code is observable only as a panic; the listener-level clause (reject and keep serving) is covered by the router driver's malformed-input mode.",
             ref="DESIGN.md section 4 C01"),
 "C02": dict(technique="TLA+ codec specification (independent RFC 1035 decoder, uncompressed and compressing encoder as the code builds its table, advertised length) exhaustively round-tripped over a universe of boundary-imitating labels (TLC) + TLC-generated messages packed by the real Msg.Pack + seeded wire images decoded and re-encoded by the real code + TLC trace validation",
             text="TLC round-trips every message of a bounded universe whose label octets imitate label boundaries (22 k messages; 690 k thorough) through the specification's own encoders and decoder and rejects the pre-repair compression key; every TLC-generated message is built as a real dnsmsg.Msg and packed with and without compression, and seeded wire images with pointers anywhere legal (also inside RDATA), all typed records, binary labels, empty RDATA and TTL extremes are decoded and re-encoded by the real code; TLC decodes each recorded wire image with the specification decoder and requires equality with the abstract message (octet-exact names, RDATA names after decompression), full consumption, and the exact advertised length for uncompressed output.",
             note="The reserved Z header bit is not treated as a header field; cross-decoding by other DNS libraries is not part of the verdict (the specification decoder is the independent implementation).",
             ref="DESIGN.md section 4 C02"),
 "C09": dict(technique="TLA+ properties of a size-limited encoding evaluated by TLC on the decoded result of the real Msg.Pack for seeded record mixes, limits and OPT positions (trace validation)",
             text="Thousands of responses (0-90 records of 1-400 octets, OPT absent / at a random position / with options, question absent) are packed by the real Msg.Pack under limits {0 < size < 512, 512, 1232, 4096, 65535, exact length, length +-1, half, random}, with and without compression; TLC decodes each result with the specification decoder and checks the limit max(512, size), clean decoding with counts equal to records present, TC iff something was omitted, nothing omitted when the uncompressed encoding fits, question and OPT kept, and that kept answers/authorities are an unmodified subsequence.",
             note="Checked at Msg.Pack; listener-level size selection is exercised by the router driver.",
             ref="DESIGN.md section 4 C09"),
 "C13": dict(technique="TLA+ model of the gnet reassembler over all-or-nothing Conn.Next, in-flight limit and atomic response frames (TLC exhaustive over every segmentation and handler completion order of 3 frames) + TLC-enumerated cut-point sets driven through the real tcp/gnet/tls listeners + TLC trace validation that parses the raw return stream with the Wire specification",
             text="TLC exhausts the reassembler state machine (buffer/readN/readingHdr) for every delivery segmentation of three frames and every handler completion order with limits 1 and 2 (decoded exactly once in order, one response per query, over-limit queries refused not dropped) and rejects a sticky-header variant; all 4096 sets of cut-point classes (inside the prefix, between prefix and body, inside the body, at the frame end; quick: a seeded 1/27 sample) plus byte-at-a-time, single-write and random cuts of 2-8 (thorough: 50) pipelined queries are written to the real tcp, gnet and tls listeners while the scripted upstream finishes handlers out of order; TLC splits each recorded return stream into frames, decodes every body with Wire.tla and checks exact framing, exactly one response per query ID, the echoed question per ID (no interleaving) and REFUSED only beyond max_concurrent_queries.",
             note="Kernel coalescing of segments costs coverage only.",
             ref="DESIGN.md section 4 C13"),
 "C17": dict(technique="TLA+ decision tables (dial target / TLS server name / HTTP Host; certificate acceptance; client-certificate verification) enumerated by TLC (608 address rows, sanity theorems) + every row instantiated with concrete strings on the real upstream.NewUpstream with the socket layer's Control hook recording the connect target + fake DoT/DoH/DoQ servers and real TLS listeners for the certificate matrices + TLC trace validation",
             text="TLC enumerates scheme (10, incl. omitted and helper schemes) x URL host form (IPv4, bracketed IPv6 compressed and expanded, domain) x port presence x dial_addr form (none, v4, v4:port, v6, [v6]:port, domain, domain:port, @unix) and checks that the port is explicit or the scheme default and that SNI/Host never depend on dial_addr; each row is passed to the real NewUpstream and one exchange is attempted while the Control hook (UDP observation sockets for QUIC/HTTP3) records where the socket layer connects; 5 certificate kinds x CA set/unset x skip-verify x {tls, tls+pipeline, https, quic} run against fake servers (recording SNI and Host) through the router's own makeTlsConfig, and tls/https/quic listeners with verify_client_cert on/off are queried with no / right-CA / other-CA client certificates; TLC checks every observation against Target, Sni, TlsAccept and Serve.",
             note="Decision-table conformance; X.509 path validation is Go's crypto/tls; unreachable IPv6 literals cannot be observed for quic/h3.",
             ref="DESIGN.md section 4 C17"),
 "C14": dict(technique="TLA+ model of an exchange's wait states with the exits each transport's select really has and clock urgency (TLC exhaustive per transport kind; the blocking write without deadline is rejected) + fault-scripted servers on real sockets for every transport built by the real NewUpstream + TLC trace validation of deadlines, stale-connection recovery, prompt wake-up and retry bounds",
             text="TLC checks per transport kind (pipelined, one-at-a-time, stream/DoQ/DoH) that no reachable wait state lacks a ctx exit (deadline invariant under urgency), the retry bound and that a stale pooled connection is never fatal, and rejects the pre-repair blocking write; on real loopback sockets udp, tcp, tcp+pipeline, tls, tls+pipeline, https and quic upstreams are driven against servers that refuse, accept and stay silent, never reply, send half a frame or garbage, FIN/RST after the query, stall the TLS handshake, close the idle connection between exchanges, kill the connection under five waiters, or stop reading with 4 KB socket buffers and 60 KB queries; TLC checks every exchange end against its deadline + 1 s, that exchanges after the fault on a healthy server succeed, that waiters of a killed connection end within 1 s of the kill, and the dial count bound.",
             note="Scenario classes, not every byte position; h3 upstreams not exercised.",
             ref="DESIGN.md section 4 C14"),
 "C18": dict(technique="TLA+ models of the close protocol (closed flag, tracked set, late dial) and of start-up with a failing listener (TLC exhaustive; the late dial that ignores the closed flag is rejected) + close scenarios on every upstream kind built by the real NewUpstream and on the in-process router, with a process-wide socket census and the scripted server's view + TLC trace validation",
             text="TLC exhausts Close racing two dials and two exchanges per transport and start-up with the failing listener at every position; for udp, tcp, tcp+pipeline, tls, tls+pipeline, https and quic upstreams the driver closes the upstream with idle pooled connections, with exchanges in flight against a silent server, while a (delayed) dial is still in progress, and after a timed-out exchange on a healthy connection, closes twice and exchanges afterwards; the real router is started with a failing listener (port in use, unknown protocol, unreadable certificate) at positions 1-3 and, with all 8 listener kinds, closed after traffic; TLC checks that Close returns within 2 s without panic both times, in-flight exchanges end within 1 s of Close, later ones fail fast, the process's socket count returns to the baseline and the server sees no connection left, start-up failure is an error (never a panic) with earlier ports bindable again, and every listener port is bindable after router close.",
             note="Sequential scenarios (process-wide census); QUIC dials cannot be delayed through the Control hook; h3 not exercised.",
             ref="DESIGN.md section 4 C18"),
}

PENDING_REASON = "check under construction in this round (see DESIGN.md section 4); not claimed until its machinery is committed and passes on the unchanged tree"

def main():
    props = [json.loads(l)["id"] for l in open(os.path.join(V, "properties.jsonl"))]
    hooks_commits = subprocess.run(["git", "-C", "/repo", "log", "--format=%h %s"], capture_output=True, text=True).stdout.splitlines()
    hook_shas = [l.split()[0] for l in hooks_commits if "verif hooks:" in l]
    checks = []
    for pid in props:
        if pid not in CHECKS:
            continue
        c = CHECKS[pid]
        checks.append({
            "property_id": pid,
            "quick_cmd": "./check %s --tier quick" % pid,
            "thorough_cmd": "./check %s --tier thorough" % pid,
            "evidence_file": "evidence/%s.json" % pid,
            "replay_cmd_template": "./check %s --replay {path}" % pid,
            "engine": "tlc",
            "level_claimed": {"category": "model_checking", "text": c["text"], "design_ref": c["ref"]},
            "level_note": c["note"],
            "technique": c["technique"],
        })
    na = [{"property_id": p, "reason": PENDING_REASON} for p in props if p not in CHECKS]
    m = {
        "version": 1,
        "setup_cmd": "./setup.sh",
        "hooks": {
            "guard": "verif",
            "enable": "go build -tags verif -overlay /verif/.work/overlay.json (harness files under /verif/harness are overlaid into the module; nothing is written to /repo)",
            "baseline_off_cmd": "cd /repo && GOPROXY=off GOSUMDB=off GOTOOLCHAIN=local go test -json -vet=off -count=1 -timeout 25m ./...",
            "source_commits": hook_shas,
            "add_only": True,
        },
        "engines": [
            {"name": "tlc", "path": "/usr/local/bin/tlc", "serves_properties": [c["property_id"] for c in checks],
             "kind_free_text": "TLC 1.8.0 explicit-state model checker: exhaustive design models, stimulus generation, trace validation (specs under /verif/spec)"},
        ],
        "checks": checks,
        "not_applicable": na,
        "notes": "Single CLI ./check <ID> --tier quick|thorough. Exit 0 ok / 1 VIOLATION / 2 machinery error. Known findings in known_findings.json.",
    }
    json.dump(m, open(os.path.join(V, "MANIFEST.json"), "w"), indent=1)
    print("MANIFEST.json: %d checks, %d not_applicable" % (len(checks), len(na)))

if __name__ == "__main__":
    main()
