"""Behaviours of ReuseStep for replay: TLC simulates ReuseStepReplay, which prints every edge it evaluates;
a behaviour is recovered as the chain of source states (src of edge block i+1 = dst of the edge taken in block i)."""
import json, sys, os
sys.path.insert(0, os.path.dirname(os.path.abspath(__file__)))
import vf


def replayable(st, act):
    """Steps whose outcome the scheduler cannot decide (two branches of a select are ready) end a path."""
    a = act["a"]
    if a in ("Take", "GiveUp"):
        e = act["e"] - 1
        if st["boxfull"][e] and st["ctxdone"][e]:
            return False
    if a == "Deliver":
        c = act["c"] - 1
        # the caller of this dial: still in its select with a cancelled context -> both of its branches are ready
        for e, pc in enumerate(st["pc"]):
            if pc == "dialwait" and st["ctxdone"][e] and st["dialst"][c] == "deliver":
                return False
    if a == "DialCtx":
        e = act["e"] - 1
        if any(x == "deliver" for x in st["dialst"]):
            return False
    if a == "GetIdle":
        # more than one idle connection: Go's map order decides which one is taken
        if sum(1 for x in st["inidle"] if x) > 1:
            return False
    return True


def simulate(num, depth, seed, timeout=1200):
    r = vf.tlc("ReuseStepReplay", cfg="ReuseStepReplay", timeout=timeout, workers=1,
               extra=["-simulate", "num=%d" % num, "-depth", str(depth), "-seed", str(seed)])
    if getattr(r, "fatal", None):
        raise vf.MachineryError("ReuseStepReplay simulation failed\n" + r.out[-2000:])
    edges = []
    for line in r.out.splitlines():
        if line.startswith('<<"E", '):
            a = json.loads("[" + line[2:-2] + "]")
            edges.append((a[1], json.loads(a[2]), a[3]))
    return r, edges


def paths_of(edges):
    """Chain the printed edges into behaviours. TLC prints the edges of a state in one block (same source)."""
    states, ids = [], {}

    def sid(s):
        if s not in ids:
            ids[s] = len(states)
            states.append(json.loads(s))
        return ids[s]
    blocks = []
    for s, a, t in edges:
        if blocks and blocks[-1][0] == s:
            blocks[-1][1].append((a, t))
        else:
            blocks.append((s, [(a, t)]))
    init = blocks[0][0] if blocks else None
    paths, cur = [], []
    for i, (s, outs) in enumerate(blocks):
        if s == init and cur:
            paths.append(cur)
            cur = []
        nxt = blocks[i + 1][0] if i + 1 < len(blocks) else None
        step = None
        for a, t in outs:
            if t == nxt:
                step = (a, t)
                break
        if step is None or nxt == init:
            if cur:
                paths.append(cur)
            cur = []
            continue
        if not replayable(json.loads(s), step[0]):
            if cur:
                paths.append(cur)
            cur = [None]     # poison: skip the rest of this behaviour
            continue
        if cur and cur[0] is None:
            continue
        cur.append({"act": step[0], "s": sid(step[1])})
    if cur and cur[0] is not None:
        paths.append(cur)
    paths = [p for p in paths if p and p[0] is not None]
    return states, sid(init) if init else 0, paths


if __name__ == "__main__":
    r, edges = simulate(int(sys.argv[2]), 45, 7)
    states, init, paths = paths_of(edges)
    print("edges", len(edges), "states", len(states), "paths", len(paths), "steps", sum(len(p) for p in paths))
    json.dump({"states": states, "init": init, "paths": paths}, open(sys.argv[1], "w"))
