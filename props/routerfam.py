"""Shared pieces of the router-family checks (C03, C04, C07, C08, C10, C12, C19)."""
import glob, json, os
import vf


def keyfn(ev, inv):
    lst = ev.get("lst") or ev.get("up") or ""
    return "%s:%s:%s" % (inv, ev.get("ev", "?"), lst)


def describe(ev, inv):
    e = dict(ev)
    for k in ("wire",):
        e.pop(k, None)
    return "%s at %s" % (inv, json.dumps(e)[:500])


def run_mode(ctx, drv, mode, args=(), timeout=1200, env=None):
    d = ctx.path(mode, "x")
    d = os.path.dirname(d)
    ctx.driver(drv, ["-mode", mode.split("-")[0], "-dir", d] + list(args), timeout=timeout, env=env, ok_codes=(0, 3))
    files = sorted(glob.glob(os.path.join(d, "*.ndjson")))
    if not files:
        raise vf.MachineryError("router driver produced no trace in mode " + mode)
    out = os.path.join(d, "all.trace")
    with open(out, "w") as o:
        for f in files:
            o.write(open(f).read())
    return out, files


def validate(ctx, trace, only, require_events=50, timeout=1800):
    lines = open(trace).read().splitlines()
    for x in lines:
        if '"cl.recv"' in x:
            ctx.sample({"event": json.loads(x)})
            break
    return ctx.validate("RouterTrace", trace, keyfn, describe=describe, timeout=timeout,
                        require_events=require_events, only=only)


def partition_by_name(trace, out):
    """Project a router trace onto independent sub-traces, one per (lower-cased) question name; each starts
    with the cfg event (which resets the trace specification's state). Sound for per-question invariants
    (provenance, header, cache key) because every event of a question carries its name or its query number."""
    cfg = None
    groups = {}
    order = []
    qname = {}

    def key_of(labels):
        return tuple(bytes(x).lower() for x in labels)

    for line in open(trace):
        e = json.loads(line)
        ev = e.get("ev")
        if ev == "cfg":
            cfg = line
            continue
        if ev in ("pf.reserve", "pf.done", "lim.cl", "note"):
            continue
        k = None
        if "name" in e and isinstance(e["name"], list):
            k = key_of(e["name"])
            if ev == "cl.send":
                qname[e["qn"]] = k
        if ev in ("cl.recv", "cl.none"):
            k = qname.get(e.get("qn"))
        if k is None:
            continue
        if k not in groups:
            groups[k] = []
            order.append(k)
        groups[k].append(line)
    with open(out, "w") as o:
        for k in order:
            o.write(cfg)
            for line in groups[k]:
                o.write(line)
    return len(order)
