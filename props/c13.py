"""C13 - Stream listeners frame correctly under any segmentation and pipelining (DESIGN.md section 4, C13)."""
import json, glob, os
import vf, routerfam


def keyfn(ev, inv):
    return "%s:%s" % (inv, ev.get("ev", "?"))


def describe(ev, inv):
    e = dict(ev)
    if "bytes" in e:
        e["bytes"] = "(%d octets)" % len(e["bytes"])
    return "%s at %s" % (inv, json.dumps(e)[:400])


def run(ctx):
    drv = vf.build_driver("routerdrv")
    r = ctx.exhaustive("Framing_MC", "Framing_MC", timeout=900)
    ctx.exhaustive("Framing_MC", "Framing_MC_l1", timeout=900)
    b = vf.tlc("Framing_MC", cfg="Framing_MC_bug", timeout=300)
    if b.ok or b.violated != "Inv_C13_AllAnswered":
        raise vf.MachineryError("sensitivity run did not reject the sticky-header reassembler")
    cuts = vf.tlc_values(r.out, "CUTSETS")[0]
    if len(cuts) != 4096:
        raise vf.MachineryError("cut sets missing")
    if ctx.quick:
        step = 4096 // 150
        cuts = cuts[ctx.seed % step::step]
    cf = ctx.path("cuts.json")
    json.dump(cuts, open(cf, "w"))
    ctx.sample({"tlc_cut_set": cuts[len(cuts) // 2]})
    args = ["-rules", cf] + (["-thorough"] if not ctx.quick else [])
    d = os.path.dirname(ctx.path("c13", "x"))
    ctx.driver(drv, ["-mode", "c13", "-dir", d] + args, timeout=2400)
    n = 0
    for f in sorted(glob.glob(os.path.join(d, "*.ndjson"))):
        # keep only the framing events (the router-level events of the same run are not needed here)
        out = f + ".c13"
        with open(out, "w") as o:
            for line in open(f):
                if '"ev":"c13.' in line:
                    o.write(line)
                    n += 1
        ctx.validate("FramingTrace", out, keyfn, describe=describe, timeout=3000, require_events=6 if ("huge" in f or "slow" in f) else 10)
    ctx.extra["connections"] = n // 2
    ctx.assumptions += [
        "the kernel may coalesce segments written 2 ms apart: this costs coverage, never soundness (the property is for all segmentations)",
        "cut sets are classes of cut points (inside the prefix, between prefix and body, inside the body, at the frame end) for 3 pipelined frames, enumerated by TLC (4096 sets); byte-at-a-time and single-write extremes and random cuts for up to 8 (thorough: 50) frames are added",
        "the return stream is parsed into frames and messages by the specification (Wire.tla)",
    ]
    return ctx.finish()
