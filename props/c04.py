"""C04 - Answers are never mixed up between concurrent queries (DESIGN.md section 4, C04)."""
import os
import vf, routerfam


def run(ctx):
    drv = vf.build_driver("routerdrv")
    ctx.exhaustive("Router_MC", "Router_MC_rules", timeout=1200)
    ctx.exhaustive("Pipeline_MC", "Pipeline_MC", timeout=900)
    if not ctx.quick:
        ctx.exhaustive("Router_MC", "Router_MC_time", timeout=1800)
        ctx.exhaustive("Reuse_MC", "Reuse_MC", timeout=900)
    # twice: with released buffers poisoned and quarantined (left-over data shows as garbage), and with the pool's
    # instrumentation off altogether: released buffers go straight back to the pool as in production (left-over
    # data shows as another query's answer) and the requests are not serialised on the registry lock
    for tag, extra in (("c04", []), ("c04np", ["-bypass"])):
        d = os.path.dirname(ctx.path(tag, "x"))
        ctx.driver(drv, ["-mode", "c04", "-dir", d] + extra + (["-thorough"] if not ctx.quick else []), timeout=1800, ok_codes=(0, 3))
        raw = os.path.join(d, "c04.ndjson")
        part = os.path.join(d, "c04.part")
        n = routerfam.partition_by_name(raw, part)
        ctx.extra["question_partitions"] = n
        routerfam.validate(ctx, part, only=["Inv_C04_", "Inv_C03_Header", "Inv_C03_Decodable", "Inv_C03_Answered", "Inv_C03_AtMostOne", "Inv_C07_StoreOwnKey", "Inv_C07_KeyEq", "Inv_C10_ExactQuestion", "Unconsumable"],
                           require_events=3000, timeout=3000)
    # the lower layer the guarantee is assembled from: on multiplexed upstream connections (udp, tcp+pipeline) a
    # reply reaches the exchange that owns its wire ID, and IDs are not handed out twice - a mix-up at that level
    # needs a 1-in-65536 coincidence to show in the answers above, but not in the connection's own trace
    import json
    xdrv = vf.build_driver("xportdrv")
    t = ctx.path("pipe.ndjson")
    # (-long: one connection is driven through more than 65536 exchanges with a query outstanding all along)
    ctx.driver(xdrv, ["-mode", "pipe", "-n", 600 if ctx.quick else 6000, "-long", "-out", t], timeout=1200)
    ctx.validate("PipelineTrace", t, lambda ev, inv: "%s:%s" % (inv, ev.get("ev", "?")),
                 describe=lambda ev, inv: "%s at %s" % (inv, json.dumps(ev)[:300]), timeout=1800, require_events=3000, only=["Inv_C05_", "Unconsumable"])
    ctx.assumptions += [
        "schedules of the real code are sampled (48-96 concurrent clients over all 8 listener kinds, 4 upstream transports (udp, tcp, tcp+pipeline, DoH over http), eviction pressure, refresh windows, a reply arriving after the 6 s response timeout); interleavings are enumerated only in the component models (Pipeline, Reuse, Router)",
        "the trace is projected per question name before validation (per-question invariants; keeps TLC's state small): an answer that belongs to another question shows up as a token unknown in this question's partition",
        "every upstream answer carries a unique token (A RDATA / SOA serial) that names the upstream, the question it was produced for and its serial",
    ]
    ctx.assumptions.append("released buffers are poisoned under the verif tag: data left over from another query reaches the client as an undecodable or foreign response, so Inv_C03_Decodable is part of this verdict")
    return ctx.finish()
