"""Shared pieces of the transport checks: the QUIC transport model (QuicXport) and its trace validation."""
import json, random
import vf, qpaths, rpaths

QUIC_BUGS = {
    # cfg -> (what TLC must report, which property the sensitivity run belongs to)
    "QuicXport_bug_nosignal": ("C18_FailFast", "C18"),
    "QuicXport_bug_lateleak": ("Inv_C18_NoLeak", "C18"),
    "QuicXport_bug_retryfresh": ("Inv_C14_FreshReported", "C14"),
}


def keyfn(ev, inv):
    return "%s:%s:%s" % (inv, ev.get("sc", "?"), ev.get("ev", "?"))


def describe(ev, inv):
    return "%s at %s" % (inv, json.dumps(ev)[:400])


def quic_part(ctx, drv, prop):
    """QuicXport: exhaustive design check, sensitivity to the seeded design bugs of this property,
    then the real transport's hook trace validated against the same actions."""
    ctx.exhaustive("QuicXport_MC", "QuicXport_MC", timeout=600)
    ctx.exhaustive("QuicXport_MC", "QuicXport_healthy", timeout=300, workers=4)
    ctx.exhaustive("QuicXport_MC", "QuicXport_live", timeout=600, workers=4)
    if not ctx.quick:
        ctx.exhaustive("QuicXport_MC", "QuicXport_thorough", timeout=3000)
    # unbounded: the safety core (only the shared connection is live, single flight, nothing open after Close
    # incl. late dials) is proved with TLAPS for any number of exchanges and connections
    n = vf.tlapm("QuicXportProof", deps=("QuicXport",))
    ctx.extra["tlaps_obligations_proved"] = n
    for cfg, (want, p) in QUIC_BUGS.items():
        if p != prop:
            continue
        b = vf.tlc("QuicXport_MC", cfg=cfg, timeout=300, workers=4)
        if b.ok or b.violated != want:
            raise vf.MachineryError("sensitivity run %s did not report %s (got %s)" % (cfg, want, b.violated))
    runs = 1 if ctx.quick else 4
    for i in range(runs):
        t = ctx.path("quic%d.ndjson" % i)
        ctx.driver(drv, ["-mode", "quic", "-n", 3 if ctx.quick else 25, "-out", t],
                   env={"VERIF_SEED": str(ctx.seed + 101 * i)}, timeout=900)
        lines = open(t).read().splitlines()
        ctx.sample({"quic_trace_excerpt": [json.loads(x) for x in lines[3:9]]})
        ctx.validate("QuicXportTrace", t, keyfn, describe=describe, timeout=900, require_events=400,
                     only=["Inv_" + prop])
    quic_replay(ctx, drv, prop)


def replay_class(ev):
    """Which property a divergence of the real transport from QuicXport belongs to."""
    fields = " ".join(ev.get("diff", []))
    if ev.get("ev") == "rp.stuck":
        return "C14"
    if ev.get("closed") or ev.get("act") == "Close" or "closed:" in fields or "conn:" in fields:
        return "C18"
    return "C14"


def quic_replay(ctx, drv, prop):
    """Spec -> code: paths covering every (replayable) edge of QuicXport's state graph are stepped through
    the real QuicTransport under the gate scheduler; the projected state is compared after every step."""
    r, states, adj, init, skipped = qpaths.build()
    ctx.states += r.distinct
    ctx.transitions += r.generated
    ctx.exhaustive_runs.append({"module": "QuicXportReplay", "cfg": "QuicXportReplay", "distinct": r.distinct,
                                "generated": r.generated, "depth": r.depth, "wall_s": round(r.wall, 1), "ok": r.ok})
    paths = qpaths.cover(states, adj, init, seed=ctx.seed)
    total = len(paths)
    if ctx.quick:
        random.Random(ctx.seed).shuffle(paths)
        paths = paths[:1500]
    f = ctx.path("qpaths.json")
    qpaths.write(f, states, init, paths)
    t = ctx.path("qreplay.ndjson")
    ctx.driver(drv, ["-mode", "qreplay", "-n", 3000, "-in", f, "-out", t], timeout=3000)
    evs = [json.loads(x) for x in open(t).read().splitlines()]
    done = [e for e in evs if e["ev"] == "rp.done"]
    if not done:
        raise vf.MachineryError("replay driver did not finish")
    steps = done[0]["steps"]
    if steps < 10 * len(paths) / 2 and not done[0]["diverged"]:
        raise vf.MachineryError("replay executed too few steps (%d)" % steps)
    ctx.traces += len(paths)
    ctx.events += steps
    ctx.extra["replay"] = {"graph_states": len(states), "graph_edges": sum(len(v) for v in adj.values()),
                           "edges_not_replayable": skipped, "covering_paths": total, "paths_replayed": len(paths),
                           "steps_replayed": steps, "diverged": done[0]["diverged"]}
    vf.log("replay QuicXport -> QuicTransport: %d paths, %d steps, %d diverged" % (len(paths), steps, done[0]["diverged"]))
    for e in evs:
        if e["ev"] not in ("rp.diverge", "rp.stuck"):
            continue
        if replay_class(e) != prop:
            ctx.extra.setdefault("other_property_rejections_ignored", {})
            k = "replay:" + replay_class(e)
            ctx.extra["other_property_rejections_ignored"][k] = ctx.extra["other_property_rejections_ignored"].get(k, 0) + 1
            continue
        fields = ",".join(sorted({x.split(":")[0].split("[")[0] for x in e.get("diff", [])})) or "stuck"
        key = "replay:%s:%s%s" % (e.get("act", "cleanup"), fields, ":closed" if e.get("closed") else "")
        ctx.violation(key, "the real QuicTransport leaves the behaviours of QuicXport at step %s of a replayed path: %s (prefix %s)"
                      % (e.get("step"), "; ".join(e.get("diff", ["exchanges did not end after cancel + Close"])),
                         json.dumps(e.get("prefix", []))[:1500]),
                      artefact={"event": e, "paths_file": f})


def reuse_replay(ctx, drv, prop):
    """Spec -> code for the one-at-a-time transport: random behaviours of ReuseStep (TLC's simulator) are stepped
    through the real ReuseConnTransport under the gate scheduler; the projected state is compared after every step.
    Divergences belong to C06 (connection reuse, replies), C18 (after Close) or C20 (a released buffer is used)."""
    n = 1500 if ctx.quick else 25000
    r, edges = rpaths.simulate(n, 60, ctx.seed)
    states, init, paths = rpaths.paths_of(edges)
    if len(paths) < n // 2:
        raise vf.MachineryError("too few behaviours from the simulator: %d" % len(paths))
    f = ctx.path("rpaths.json")
    json.dump({"states": states, "init": init, "paths": paths}, open(f, "w"))
    t = ctx.path("rreplay.ndjson")
    ctx.driver(drv, ["-mode", "rreplay", "-n", 3000, "-in", f, "-out", t], timeout=3000)
    evs = [json.loads(x) for x in open(t).read().splitlines()]
    done = [e for e in evs if e["ev"] == "rp.done"]
    if not done:
        raise vf.MachineryError("replay driver did not finish")
    steps = done[0]["steps"]
    ctx.traces += len(paths)
    ctx.events += steps
    ctx.extra["reuse_replay"] = {"behaviours": len(paths), "steps_replayed": steps, "model_states_visited": len(states),
                                 "diverged": done[0]["diverged"]}
    vf.log("replay ReuseStep -> ReuseConnTransport: %d behaviours, %d steps, %d diverged" % (len(paths), steps, done[0]["diverged"]))
    for e in evs:
        if e["ev"] == "rp.poison":
            if prop == "C20":
                ctx.violation("Inv_C20_NoReadAfterRelease:replay:" + e.get("where", ""),
                              "a released (poisoned) buffer was read: %s" % e.get("where"), artefact={"event": e, "paths_file": f})
            continue
        if e["ev"] == "rp.changed":
            if prop in ("C20", "C16", "C06"):
                ctx.violation("Inv_C20_NoWriteAfterHandout:replay:" + e.get("where", ""),
                              "a reply was changed (released and reset) while its caller still owned it: %s" % json.dumps(e)[:300],
                              artefact={"event": e, "paths_file": f})
            continue
        if e["ev"] == "rp.stray":
            if prop == ("C18" if e.get("closed") else "C06"):
                ctx.violation("Inv_C06_NoStray:replay" + (":closed" if e.get("closed") else ""),
                              "after every caller had returned and the transport's goroutines had run down, connection(s) %s were open but not in the idle set, or in the idle set without being one of the transport's connections: %s"
                              % (e.get("conns"), json.dumps(e)[:400]), artefact={"event": e, "paths_file": f})
            continue
        if e["ev"] not in ("rp.diverge", "rp.stuck"):
            continue
        fields = ",".join(sorted({x.split(":")[0].split("[")[0] for x in e.get("diff", [])})) or "stuck"
        cls = "C18" if e.get("closed") else "C06"
        if prop == "C16" and "res" in fields:
            cls = "C16"     # what the caller of the TCP leg got is not the outcome of its exchange
        if e["ev"] == "rp.stuck":
            cls = "C14"
        if cls != prop and not (prop == "C20" and False):
            ctx.extra.setdefault("other_property_rejections_ignored", {})
            k = "replay:" + cls
            ctx.extra["other_property_rejections_ignored"][k] = ctx.extra["other_property_rejections_ignored"].get(k, 0) + 1
            continue
        key = "replay:%s:%s%s" % (e.get("act", "cleanup"), fields, ":closed" if e.get("closed") else "")
        ctx.violation(key, "the real ReuseConnTransport leaves the behaviours of ReuseStep at step %s of a replayed behaviour: %s (prefix %s)"
                      % (e.get("step"), "; ".join(e.get("diff", ["exchanges did not end after cancel + Close"])),
                         json.dumps(e.get("prefix", []))[:1500]),
                      artefact={"event": e, "paths_file": f})


PIPE_BUGS = {
    # cfg -> (what TLC must report, which property the sensitivity run belongs to)
    "PipeStep_bug_retryfresh": ("C14_FreshReported", "C14"),
    "PipeStep_bug_noretire": ("Inv_C14_Retired", "C14"),
    "PipeStep_bug_lateleak": ("Inv_C18_NoLeak", "C18"),
}


def pipe_class(e):
    """Which properties a divergence of the real pipelined transport from PipeStep belongs to."""
    if e["ev"] == "rp.leak":
        return {"C18"}
    if e["ev"] == "rp.stuck":
        return {"C14"}
    if e["ev"] == "rp.note":
        return {"C05"}
    fields = {x.split(":")[0].split("[")[0] for x in e.get("diff", [])}
    cls = set()
    if e.get("closed") or e.get("act") == "Close" or "tclosed" in fields:
        cls.add("C18")
    if fields & {"got", "qid", "nextqid", "nqueue", "rl"} or any("reply" in x for x in e.get("diff", [])):
        cls.add("C05")
    # which connections the pool knows, and in what state: what Close can reach (C18) and what an exchange is
    # given (C14)
    if fields & {"pool", "streams", "cst", "dqsum"}:
        cls |= {"C14", "C18"}
    return cls or {"C14"}


def pipe_part(ctx, drv, prop):
    """PipeStep (pipelined transport = connection pool + multiplexed connections, one action per critical section):
    exhaustive design check, the sensitivity variants of this property, then behaviours of the model replayed
    into the real PipelineTransport under the gate scheduler."""
    # quick: 2 exchanges, 2 connections, IDs 0..1, 2 streams per connection, 1 retry; server sends: 2 for C05 (1.9 M
    # states), 1 elsewhere (0.3 M); thorough adds 3 exchanges (61 M states, 8 min)
    ctx.exhaustive("PipeStep", "PipeStep_MC" if (prop == "C05" or not ctx.quick) else "PipeStep_MC_quick", timeout=900)
    if not ctx.quick:
        ctx.exhaustive("PipeStep", "PipeStep_thorough", timeout=3000)
    if prop == "C14":
        ctx.exhaustive("PipeStep", "PipeStep_live", timeout=900, workers=4)
    for cfg, (want, p) in PIPE_BUGS.items():
        if p != prop:
            continue
        b = vf.tlc("PipeStep", cfg=cfg, timeout=300, workers=4)
        if b.ok or b.violated != want:
            raise vf.MachineryError("sensitivity run %s did not report %s (got %s)" % (cfg, want, b.violated))
    import ppaths
    n = (2000 if prop == "C05" else 900) if ctx.quick else 12000
    total_steps = 0
    for cfg, maxid, maxstream in (("PipeStepReplay", 2, 2), ("PipeStepReplay_s1", 1, 1)):
        states, init, paths = ppaths.merge(ppaths.simulate_many(n if maxstream > 1 else n // 3, 80, ctx.seed, cfg=cfg, timeout=3000))
        if len(paths) < (n if maxstream > 1 else n // 3) // 2:
            raise vf.MachineryError("too few behaviours from the simulator: %d" % len(paths))
        f = ctx.path("ppaths_%s.json" % cfg)
        # every other behaviour runs with datagram framing (a UDP upstream's socket), the rest with TCP framing
        json.dump({"states": states, "init": init, "paths": paths, "maxid": maxid, "maxstream": maxstream, "mixed": True}, open(f, "w"))
        t = ctx.path("preplay_%s.ndjson" % cfg)
        ctx.driver(drv, ["-mode", "preplay", "-n", 3000, "-in", f, "-out", t], timeout=3000)
        evs = [json.loads(x) for x in open(t).read().splitlines()]
        done = [e for e in evs if e["ev"] == "rp.done"]
        if not done:
            raise vf.MachineryError("replay driver did not finish")
        steps = done[0]["steps"]
        total_steps += steps
        ctx.traces += len(paths)
        ctx.events += steps
        ctx.extra.setdefault("pipe_replay", []).append(
            {"cfg": cfg, "behaviours": len(paths), "steps_replayed": steps, "model_states_visited": len(states),
             "ended_at_a_map_order_choice": done[0]["alts"], "diverged": done[0]["diverged"]})
        vf.log("replay PipeStep -> PipelineTransport (%s): %d behaviours, %d steps, %d diverged" % (cfg, len(paths), steps, done[0]["diverged"]))
        if paths:
            ctx.sample({"pipe_replay_behaviour": [s["act"] for s in paths[len(paths) // 2]]})
        for e in evs:
            if e["ev"] not in ("rp.diverge", "rp.stuck", "rp.leak", "rp.note"):
                continue
            cls = pipe_class(e)
            if prop not in cls:
                ctx.extra.setdefault("other_property_rejections_ignored", {})
                k = "pipe-replay:" + "+".join(sorted(cls))
                ctx.extra["other_property_rejections_ignored"][k] = ctx.extra["other_property_rejections_ignored"].get(k, 0) + 1
                continue
            if e["ev"] == "rp.leak":
                ctx.violation("Inv_C18_NoLeak:pipe-replay", "after Close and after every caller had returned, connection(s) %s of the pipelined transport were still open" % e.get("conns"),
                              artefact={"event": e, "paths_file": f})
                continue
            if e["ev"] == "rp.note":
                ctx.violation("Inv_C05_Match:pipe-replay:write", "the pipelined transport wrote a frame that does not belong to the exchange owning its wire ID: %s" % "; ".join(e.get("notes", []))[:600],
                              artefact={"event": e, "paths_file": f})
                continue
            fields = ",".join(sorted({x.split(":")[0].split("[")[0] for x in e.get("diff", [])})) or "stuck"
            key = "pipe-replay:%s:%s%s" % (e.get("act", "cleanup"), fields, ":closed" if e.get("closed") else "")
            ctx.violation(key, "the real PipelineTransport leaves the behaviours of PipeStep at step %s of a replayed behaviour: %s (prefix %s)"
                          % (e.get("step"), "; ".join(e.get("diff", ["exchanges did not end after cancel + Close"])),
                             json.dumps(e.get("prefix", []))[:1500]),
                          artefact={"event": e, "paths_file": f})
    if total_steps < 1500:
        raise vf.MachineryError("pipe replay executed too few steps (%d)" % total_steps)
