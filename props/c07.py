"""C07 - Cached answers go only to the same question and client group, unchanged (DESIGN.md section 4, C07)."""
import vf, routerfam


def run(ctx):
    drv = vf.build_driver("routerdrv")
    ctx.exhaustive("Router_MC", "Router_MC_time", timeout=1800)
    if not ctx.quick:
        ctx.exhaustive("Router_MC", "Router_MC_rules", timeout=1200)
    args = ["-thorough"] if not ctx.quick else []
    trace, _ = routerfam.run_mode(ctx, drv, "c07", args)
    routerfam.validate(ctx, trace, only=["Inv_C07_", "Unconsumable"], require_events=600)
    ctx.assumptions += [
        "memory cache only: the redis second-level cache needs a server and is not exercised",
        "must-hit clause is checked only outside the refresh window and with >1 s (+50 ms margin) of lifetime left, on an 8 MB cache (ample capacity)",
        "the key bytes seen by the hook are compared with the specification's KeyBytes(name, class, type, group)",
    ]
    return ctx.finish()
