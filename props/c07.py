"""C07 - Cached answers go only to the same question and client group, unchanged (DESIGN.md section 4, C07)."""
import json
import vf, routerfam


def run(ctx):
    drv = vf.build_driver("routerdrv")
    ctx.exhaustive("Router_MC", "Router_MC_time", timeout=1800)
    if not ctx.quick:
        ctx.exhaustive("Router_MC", "Router_MC_rules", timeout=1200)
    # the memory cache at the grain of its critical sections (entry objects and value buffers are recycled, the
    # table reports removals late): exhaustive, with three code variants that must be rejected
    ctx.exhaustive("MemCache_MC", "MemCache_MC", timeout=900)
    ctx.exhaustive("MemCache_MC", "MemCache_live", timeout=900)
    if not ctx.quick:
        ctx.exhaustive("MemCache_MC", "MemCache_thorough", timeout=3000)
    # ... and for any number of callers, entries, buffers and versions: TLAPS proof of the inductive invariant
    ctx.extra["tlaps_obligations_MemCacheProof"] = vf.tlapm("MemCacheProof", deps=("MemCache",))
    for cfg in ("MemCache_bug_latecopy", "MemCache_bug_nokey", "MemCache_bug_nolock"):
        r = vf.tlc("MemCache_MC", cfg=cfg, timeout=600)
        if r.ok or r.violated != "Inv_C07_HitOwnValue":
            raise vf.MachineryError("sensitivity run %s was not rejected" % cfg)
    # ... and the real cache.MemoryCache under eviction pressure: what the lookups returned
    cdrv = vf.build_driver("cachedrv")
    for tag, extra in (("mc", []), ("mcnp", ["-nopoison"])):
        t = ctx.path(tag + ".ndjson")
        ctx.driver(cdrv, ["-out", t, "-ms", 4000 if ctx.quick else 40000] + extra, timeout=900)
        ctx.validate("MemCacheTrace", t, lambda ev, inv: "%s:memcache" % inv,
                     describe=lambda ev, inv: "%s: lookup of key %s returned key %s version %s (stored so far: %s), intact=%s" % (
                         inv, ev.get("k"), ev.get("rk"), ev.get("rn"), ev.get("maxv"), ev.get("intact")),
                     only=["Inv_C07_", "Unconsumable"], require_events=50)
    # the client-group table (internal/netlist behind the ip-marker file): coded table = declarative table for every
    # list of up to 3 ranges; TLC-enumerated and random lists built and probed through the real code
    ctx.exhaustive("NetList_MC", "NetList_MC", timeout=600)
    nb = vf.tlc("NetList_MC", cfg="NetList_MC_bug", timeout=300)
    if nb.ok or nb.violated != "Inv_TouchingAccepted":
        raise vf.MachineryError("sensitivity run NetList_MC_bug was not rejected")
    g = vf.tlc("NetList_MC", cfg="NetList_Gen", workers=1, timeout=600, defines=None)
    lists = vf.tlc_values(g.out, "STIM")
    if len(lists) < 3000:
        raise vf.MachineryError("too few range lists from TLC: %d" % len(lists))
    nf = ctx.path("netlists.json")
    json.dump(lists, open(nf, "w"))
    nt = ctx.path("netlist.ndjson")
    ctx.driver(cdrv, ["-out", nt, "-netlist", nf, "-nlrandom", 300 if ctx.quick else 5000], timeout=900)
    ctx.validate("NetListTrace", nt, lambda ev, inv: "%s:%s" % (inv, ev.get("via", "lookup")),
                 only=["Inv_C07_", "Unconsumable"], require_events=20000, timeout=1800)
    ctx.extra["tlc_range_lists_replayed"] = len(lists)
    ht = ctx.path("hot.ndjson")
    ctx.driver(cdrv, ["-out", ht, "-pairs", 2000], timeout=600)
    ctx.validate("MemCacheTrace", ht, lambda ev, inv: "%s:memcache" % inv, only=["Inv_C07_", "Unconsumable"], require_events=100)
    args = ["-thorough"] if not ctx.quick else []
    trace, _ = routerfam.run_mode(ctx, drv, "c07", args)
    routerfam.validate(ctx, trace, only=["Inv_C07_", "Unconsumable"], require_events=600)
    # the same scenarios served by the second-level cache alone (a minimal RESP3 server stands in for redis)
    trace, _ = routerfam.run_mode(ctx, drv, "c07-redis", args + ["-redis", "only"])
    routerfam.validate(ctx, trace, only=["Inv_C07_", "Unconsumable"], require_events=600)
    ctx.assumptions += [
        "memory cache component: interleavings are enumerated in MemCache.tla (2-3 callers, 3 entry objects, 3 buffers, 2-3 versions per key); the real cache is sampled (32 goroutines, 600 keys on a 24 KB cache, 1-2.5 s expiries), with poisoned and with pass-through buffer pools",
        "the redis second-level cache talks to a minimal RESP3 server of the harness (HELLO, CLIENT, PING, GET, SET NX PX), not to a real redis; there it is the only cache (no lookup hook on that path: only the black-box clauses apply)",
        "must-hit clause is checked only outside the refresh window and with >1 s (+50 ms margin) of lifetime left, on an 8 MB cache (ample capacity)",
        "the key bytes seen by the hook are compared with the specification's KeyBytes(name, class, type, group)",
    ]
    return ctx.finish()
