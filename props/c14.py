"""C14 - Upstream exchanges end by their deadline and survive stale connections (DESIGN.md section 4, C14)."""
import json
import vf, xportfam


def keyfn(ev, inv):
    return "%s:%s" % (inv, ev.get("sc", ev.get("ev", "?")))


def describe(ev, inv):
    return "%s at %s" % (inv, json.dumps(ev)[:400])


def run(ctx):
    drv = vf.build_driver("xportdrv")
    for cfg in ("Exchange_pipeline", "Exchange_reuse", "Exchange_stream", "Exchange_pipeline_full"):
        ctx.exhaustive("Exchange", cfg, timeout=300, workers=4)
    r = vf.tlc("Exchange", cfg="Exchange_pipeline_nodl", timeout=300, workers=4)
    if r.ok or r.violated != "Inv_C14_Deadline":
        raise vf.MachineryError("sensitivity run did not reject the blocking write without a deadline")
    runs = 1 if ctx.quick else 3
    for i in range(runs):
        t = ctx.path("fault%d.ndjson" % i)
        ctx.driver(drv, ["-mode", "fault", "-out", t], env={"VERIF_SEED": str(ctx.seed + i)}, timeout=600)
        lines = open(t).read().splitlines()
        ctx.sample({"trace_excerpt": [json.loads(x) for x in lines[3:8]]})
        ctx.validate("FaultTrace", t, keyfn, describe=describe, timeout=600, require_events=300)
    xportfam.quic_part(ctx, drv, "C14")
    xportfam.pipe_part(ctx, drv, "C14")
    ctx.assumptions += [
        "fault placements are scenario classes per transport (refuse, accept-silent, no reply, half frame, garbage, FIN, RST, TLS-handshake stall, server closed the idle connection, connection killed with 5 waiters, peer stops reading with small socket buffers, and for DoQ / DoH3 a server that dies silently and comes back on the same address: stateless resets) on real loopback sockets, not every byte position",
        "deadline bound is one-sided with 1 s slack; deadlines are 300-600 ms against faults that would otherwise last 3-10 s",
    ]
    return ctx.finish()
