"""C01 - Malformed input never crashes, hangs or wedges the proxy (DESIGN.md section 4, C01)."""
import json
import vf, wirefam, routerfam


def run(ctx):
    drv = vf.build_driver("wiredrv")
    ctx.exhaustive("NameDec", "NameDec" if ctx.quick else "NameDec_thorough", timeout=3000)
    r = vf.tlc("NameDec", cfg="NameDec_nolimit", timeout=300)
    if r.ok or "C01_Terminates" not in (r.violated or "") + r.out[-3000:]:
        raise vf.MachineryError("sensitivity run did not reject the decoder without a pointer-hop limit")
    g = vf.tlc("NameDec", cfg="NameDec_Gen", workers=1, timeout=900)
    ins = vf.tlc_values(g.out, "IN")
    if len(ins) < 4000:
        raise vf.MachineryError("too few enumerated decoder inputs: %d" % len(ins))
    # present each enumerated body as the first question's name (QDCOUNT=1), bare and followed by type/class
    cases = []
    for b in ins:
        c = list(b)
        c[5] = 1
        cases.append(c)
        cases.append(c + [0, 1, 0, 1])
    if ctx.quick:
        step = max(1, len(cases) // 6000)
        cases = cases[ctx.seed % step::step]
    ip = ctx.path("names.json")
    json.dump(cases, open(ip, "w"))
    ctx.sample({"tlc_decoder_input": cases[len(cases) // 2]})
    t1 = ctx.path("names.ndjson")
    ctx.driver(drv, ["-out", t1, "-names", ip])
    ctx.validate("WireTrace", t1, wirefam.keyfn, describe=wirefam.describe, only=["Inv_C01_", "Unconsumable"],
                 timeout=3000, require_events=len(cases))
    if ctx.violations:      # a hang or crash of the decoder: later stages would only wait on spinning goroutines
        return ctx.finish()
    t2 = ctx.path("mal.ndjson")
    o2 = ctx.path("mal-own.ndjson")
    ctx.driver(drv, ["-out", t2, "-mal", 6000 if ctx.quick else 80000, "-own", o2])
    ctx.validate("WireTrace", t2, wirefam.keyfn, describe=wirefam.describe, only=["Inv_C01_", "Unconsumable"],
                 timeout=3000, require_events=5000)
    wirefam.check_pool(ctx, o2, "mutated wire images")
    if ctx.violations:
        return ctx.finish()
    # listener level: malformed input is rejected in the listener's way and the listener keeps serving
    rdrv = vf.build_driver("routerdrv")
    trace, _ = routerfam.run_mode(ctx, rdrv, "c01", ["-thorough"] if not ctx.quick else [])
    routerfam.validate(ctx, trace, only=["Inv_C01_", "Inv_C03_Answered", "Inv_C03_AtMostOne", "Unconsumable"], require_events=300)
    # upstream side: replies that are malformed at the framing level (half frame, length field that lies,
    # well-framed garbage) on every transport make the exchange fail by its deadline, and the transport goes on
    # serving - a wedged multiplexed connection is ended by its idle time-out even under steady load
    xdrv = vf.build_driver("xportdrv")
    t3 = ctx.path("malreply.ndjson")
    ctx.driver(xdrv, ["-mode", "fault", "-out", t3], env={"VERIF_FAULTS": "half,garbage,garbage2nd,halfsteady,halfmany", "VERIF_SEED": str(ctx.seed)}, timeout=600)
    ctx.validate("FaultTrace", t3, lambda ev, inv: "%s:%s" % (inv, ev.get("sc", ev.get("ev", "?"))),
                 describe=lambda ev, inv: "%s at %s" % (inv, json.dumps(ev)[:400]), timeout=600, require_events=60)
    ctx.extra["enumerated_inputs_replayed"] = len(cases)
    ctx.assumptions += [
        "no read out of bounds is observable in Go only as a panic: the specification proves in-bounds and termination for the modelled decoder and predicts the verdict; the real decoder is executed on every enumerated and generated input under a supervisor (panic -> crash event, 3 s stall -> hang event, neither has a specification action)",
        "2^(8*65535) inputs are sampled, not exhausted",
    ]
    return ctx.finish()
