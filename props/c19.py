"""C19 - Prefetch is single-flight and never delays a cache hit (DESIGN.md section 4, C19)."""
import vf, routerfam


def run(ctx):
    drv = vf.build_driver("routerdrv")
    ctx.exhaustive("Router_MC", "Router_MC_time", timeout=1800)
    # the buffer pool's ownership instrumentation serialises the requests on its registry lock: off for this run,
    # the simultaneous hits have to be simultaneous
    args = ["-bypass"] + (["-thorough"] if not ctx.quick else [])
    trace, _ = routerfam.run_mode(ctx, drv, "c19", args)
    routerfam.validate(ctx, trace, only=["Inv_C19_", "Inv_C08_NoDisplace", "Unconsumable"], require_events=300)
    # the same scenarios with redis behind a (for one scenario: small) memory cache: entries that come back from redis
    trace2, _ = routerfam.run_mode(ctx, drv, "c19-redisboth", args + ["-redis", "both"])
    routerfam.validate(ctx, trace2, only=["Inv_C19_", "Inv_C08_NoDisplace", "Unconsumable"], require_events=300)
    ctx.assumptions += [
        "refresh-window scenarios: 8 s entries, 40+40+10 concurrent hits between 6.3 s and 6.9 s while the scripted upstream holds the refresh for 1.1 s, or fails it (garbage, silence)",
        "hit latency bound is one-sided (1.5 s) against a refresh stalled for much longer than the slack in the silent-upstream scenario",
        "pf.reserve / pf.done hooks are emitted under the prefetch controller's mutex",
    ]
    return ctx.finish()
