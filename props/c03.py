"""C03 - Every query gets exactly one matching response whatever the upstream does (DESIGN.md section 4, C03)."""
import vf, routerfam


def run(ctx):
    drv = vf.build_driver("routerdrv")
    ctx.exhaustive("Router_MC", "Router_MC_rules", timeout=1200)
    ctx.exhaustive("Router_MC", "Router_MC_live", timeout=1200)
    if not ctx.quick:
        ctx.exhaustive("Router_MC", "Router_MC_time", timeout=1800)
    args = ["-thorough"] if not ctx.quick else []
    trace, _ = routerfam.run_mode(ctx, drv, "c03", args)
    routerfam.validate(ctx, trace, only=["Inv_C03_", "Unconsumable"], require_events=800)
    ctx.assumptions += [
        "upstream fault model: reply (any rcode), undecodable reply, connection failure, silence; a decodable reply with a foreign question is outside the stated model",
        "responses are parsed by an independent implementation (miekg/dns) in the harness; TLC evaluates header/rcode/deadline invariants on the parsed fields",
        "deadline checked one-sided: cl.recv.t - cl.send.t <= 6000 + 1500 ms",
    ]
    return ctx.finish()
