"""C03 - Every query gets exactly one matching response whatever the upstream does (DESIGN.md section 4, C03)."""
import json, os, random
import vf, routerfam


def conn_life(ctx, drv):
    """ConnLife.tla: a connection of a stream listener with queries in flight is not idle. Exhaustive check, the
    code as found (Fix = FALSE) rejected, then every client script TLC enumerates (quick: a sample) is run against
    the real tcp / gnet / tls listeners with idle_timeout: 1 and validated by ConnLifeTrace."""
    ctx.exhaustive("ConnLife", "ConnLife_MC", timeout=300, workers=4)
    ctx.exhaustive("ConnLife", "ConnLife_live", timeout=300, workers=4)
    b = vf.tlc("ConnLife", cfg="ConnLife_bug", timeout=300, workers=4)
    if b.ok or b.violated != "Inv_C03_NoCloseInFlight":
        raise vf.MachineryError("sensitivity run did not reject the idle timer that ignores queries in flight")
    # unbounded: for any number of queries, idle time-out and delays (TLAPS; fails when Fix = FALSE is assumed)
    ctx.extra["tlaps_obligations_proved"] = vf.tlapm("ConnLifeProof", deps=("ConnLife",))
    g = vf.tlc("ConnLife_Gen", cfg="ConnLife_Gen", workers=1, timeout=600)
    scns, seen = [], set()
    for s in vf.tlc_values(g.out, "SCN"):
        k = json.dumps(s["sends"])
        if isinstance(s, dict) and s["sends"] and k not in seen and s["closed"] <= 11:
            seen.add(k)
            scns.append(s)
    if len(scns) < 100:
        raise vf.MachineryError("too few connection scripts from ConnLife_Gen: %d" % len(scns))
    total = len(scns)
    random.Random(ctx.seed).shuffle(scns)
    if ctx.quick:
        scns = scns[:70]
    f = ctx.path("connlife.json")
    json.dump(scns, open(f, "w"))
    ctx.sample({"connection_script_from_TLC": scns[0]})
    trace, _ = routerfam.run_mode(ctx, drv, "connlife", ["-rules", f], timeout=1800)
    t2 = ctx.path("connlife.cl2.ndjson")
    with open(t2, "w") as o:
        for line in open(trace):
            if '"ev": "cl2.' in line or '"ev":"cl2.' in line:
                o.write(line)
    ctx.extra["conn_life"] = {"scripts_enumerated": total, "scripts_run": len(scns), "listeners": ["tcp", "gnet", "tls"]}
    ctx.validate("ConnLifeTrace", t2, lambda ev, inv: "%s:%s" % (inv, ev.get("ev", "?")),
                 describe=lambda ev, inv: "%s at %s" % (inv, json.dumps(ev)[:300]), timeout=900,
                 require_events=3 * len(scns), only=["Inv_C03_", "Unconsumable"])


def run(ctx):
    drv = vf.build_driver("routerdrv")
    ctx.exhaustive("Router_MC", "Router_MC_rules", timeout=1200)
    ctx.exhaustive("Router_MC", "Router_MC_live", timeout=1200)
    if not ctx.quick:
        ctx.exhaustive("Router_MC", "Router_MC_time", timeout=1800)
    args = ["-thorough"] if not ctx.quick else []
    trace, _ = routerfam.run_mode(ctx, drv, "c03", args)
    routerfam.validate(ctx, trace, only=["Inv_C03_", "Unconsumable"], require_events=800)
    conn_life(ctx, drv)
    ctx.assumptions += [
        "upstream fault model: reply (any rcode), undecodable reply, connection failure, silence; a decodable reply with a foreign question is outside the stated model",
        "responses are parsed by an independent implementation (miekg/dns) in the harness; TLC evaluates header/rcode/deadline invariants on the parsed fields",
        "deadline checked one-sided: cl.recv.t - cl.send.t <= 6000 + 1500 ms",
    ]
    return ctx.finish()
