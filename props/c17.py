"""C17 - Peers are reached and authenticated exactly as configured (DESIGN.md section 4, C17)."""
import json, os
import vf, routerfam


def keyfn(ev, inv):
    if ev.get("ev") == "dial":
        return "%s:dial:h=%s:d=%s" % (inv, ev.get("h"), "none" if ev.get("d") == "none" else "override")
    if ev.get("ev") == "serve":
        return "%s:serve:%s" % (inv, ev.get("lst"))
    if ev.get("ev") == "tls":
        return "%s:tls:%s:%s" % (inv, ev.get("s"), ev.get("cert"))
    return "%s:%s" % (inv, ev.get("ev", "?"))


def describe(ev, inv):
    return "%s at %s" % (inv, json.dumps(ev)[:400])


def run(ctx):
    drv = vf.build_driver("routerdrv")
    r = ctx.exhaustive("Peer_MC", "Peer_MC", timeout=600, workers=1)
    rows = vf.tlc_values(r.out, "ROW")
    if len(rows) < 600:
        raise vf.MachineryError("address table rows missing: %d" % len(rows))
    if ctx.quick:
        # every (scheme, url host form, dial form) with one of the two port variants
        rows = [x for i, x in enumerate(rows) if (i + ctx.seed) % 2 == 0]
    rf = ctx.path("rows.json")
    json.dump(rows, open(rf, "w"))
    ctx.sample({"tlc_address_row": rows[len(rows) // 2]})
    d = os.path.dirname(ctx.path("c17", "x"))
    ctx.driver(drv, ["-mode", "c17", "-dir", d, "-rules", rf], timeout=1800, ok_codes=(0, 3))
    t = os.path.join(d, "c17.ndjson")
    ctx.validate("PeerTrace", t, keyfn, describe=describe, timeout=1200, require_events=len(rows) // 2)
    ctx.extra["rows_replayed"] = len(rows)
    ctx.assumptions += [
        "decision-table conformance: TLC enumerates the configuration space and evaluates the specification function; X.509 path validation itself is Go's crypto/tls",
        "dial targets are observed through the socket layer's Control hook (the connection is then refused); QUIC/HTTP3 targets by local UDP observation sockets, so rows with unreachable IPv6 literals are skipped for quic/h3",
        "both test domain names resolve to 127.0.0.1 (no other names exist offline): a mix-up of URL and dial domain is visible only through the port",
    ]
    return ctx.finish()
