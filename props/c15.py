"""C15 - Rate limiting is a per-client-subnet token bucket isolating clients (DESIGN.md section 4, C15)."""
import json
import vf, routerfam


def keyfn(ev, inv):
    a = ev.get("addr", {})
    fam = a.get("fam", "?")
    return "%s:v%s" % (inv, fam)


def describe(ev, inv):
    return "%s: AllowN(addr=%s, t=%sms, n=%s) returned %s" % (inv, ev.get("addr"), ev.get("t"), ev.get("n"), ev.get("res"))


def run(ctx):
    drv = vf.build_driver("limdrv")
    if ctx.quick:
        ctx.exhaustive("Limiter_MC", "Limiter_MC_quick", timeout=600)
    else:
        ctx.exhaustive("Limiter_MC", "Limiter_MC", timeout=1800, coverage=True)
    ctx.exhaustive("Limiter_MC", "Limiter_MC_global", timeout=600)
    ctx.exhaustive("Limiter_MC", "Limiter_MC_gc", timeout=900)
    # the bucket table at the grain of its critical sections: a bucket is forgotten only atomically with the
    # decision (the variant that decides under the lock and removes afterwards loses a spent bucket)
    ctx.exhaustive("LimiterStep", "LimiterStep_MC", timeout=300)
    ctx.extra["tlaps_obligations_LimiterStepProof"] = vf.tlapm("LimiterStepProof", deps=("LimiterStep",))
    for vcfg in ("LimiterStep_split", "LimiterStep_retrydel"):
        sp = vf.tlc("LimiterStep", cfg=vcfg, timeout=300)
        if sp.ok or sp.violated != "Inv_C15_BurstBound":
            raise vf.MachineryError("sensitivity run %s was not rejected" % vcfg)
    b = vf.tlc("Limiter_MC", cfg="Limiter_MC_gcbug", timeout=600)
    if b.ok or b.violated != "Inv_C15_Budget":
        raise vf.MachineryError("sensitivity run did not reject the collection of buckets that have not refilled")
    g = vf.tlc("Limiter_MC", cfg="Limiter_Gen", workers=1, timeout=900)
    if not g.ok:
        raise vf.MachineryError("stimulus generation failed\n" + g.out[-2000:])
    stims = vf.tlc_values(g.out, "STIM")
    if len(stims) < 500:
        raise vf.MachineryError("too few stimuli: %d" % len(stims))
    if ctx.quick:
        step = max(1, len(stims) // 1200)
        stims = stims[ctx.seed % step::step]
    sp = ctx.path("stim.json")
    json.dump(stims, open(sp, "w"))
    ctx.sample({"tlc_arrival_history": stims[len(stims) // 3]})
    t1 = ctx.path("lim.ndjson")
    ctx.driver(drv, ["-out", t1, "-stim", sp, "-random", 40 if ctx.quick else 600, "-conc", 150 if ctx.quick else 2000,
                     "-gc", 10 if ctx.quick else 200])
    ctx.validate("LimiterTrace", t1, keyfn, describe=describe, timeout=3000, require_events=1000)
    # live listeners: refusals on the wire, isolation between subnets, the address that is charged
    rdrv = vf.build_driver("routerdrv")
    trace, _ = routerfam.run_mode(ctx, rdrv, "c15live")
    routerfam.validate(ctx, trace, only=["Inv_C15_", "Inv_C03_Answered", "Unconsumable"], require_events=500)
    ctx.extra["stimuli_replayed"] = len(stims)
    ctx.assumptions += [
        "virtual time: rates 8/16 per second and arrival times that are multiples of 125 ms keep x/time/rate's float arithmetic exact, so decisions are compared for equality",
        "bucket collection: gc() is called directly (shim) on histories whose time stamps are relative to the wall clock (first seen two minutes ago, idle 61-110 s, idle 20-50 s, active until now); the specification forgets exactly the buckets whose forgetting is unobservable",
        "the global limiter is golang.org/x/time/rate itself and is modelled (Limiter_MC_global) but not trace-checked here",
        "live part: one flooding subnet per listener kind (udp, tcp, http, gnet, tls, quic) while another subnet stays within its own budget; the limiter hook (under the bucket's lock) gives the charged address and the admitted costs in real time (3 ms tolerance)",
    ]
    return ctx.finish()
