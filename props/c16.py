"""C16 - A truncated UDP upstream reply is retried over TCP (DESIGN.md section 4, C16)."""
import json
import vf, xportfam


def keyfn(ev, inv):
    return "%s:%s" % (inv, ev.get("ev", "?"))


def describe(ev, inv):
    return "%s at %s" % (inv, json.dumps(ev)[:300])


def run(ctx):
    drv = vf.build_driver("xportdrv")
    ctx.exhaustive("Fallback", "Fallback", timeout=300, workers=4)
    runs = 1 if ctx.quick else 4
    for i in range(runs):
        t = ctx.path("fb%d.ndjson" % i)
        ctx.driver(drv, ["-mode", "fallback", "-n", 500 if ctx.quick else 3000, "-out", t],
                   env={"VERIF_SEED": str(ctx.seed + i)}, timeout=1200)
        lines = open(t).read().splitlines()
        ctx.sample({"trace_excerpt": [json.loads(x) for x in lines[20:26]]})
        ctx.validate("FallbackTrace", t, keyfn, describe=describe, timeout=900, require_events=1000)
    # the TCP leg is the one-at-a-time transport: what its caller gets is the outcome of its own exchange and
    # stays the caller's (behaviours of ReuseStep replayed into the real transport)
    xportfam.reuse_replay(ctx, drv, "C16")
    ctx.assumptions += [
        "one scripted server owns the UDP and the TCP socket of the same port: a TCP leg sent elsewhere cannot produce the expected TCP reply",
        "outcome classes are timing-free: the caller's deadline (300 ms) is ample for local replies (<= 8 ms) and shorter than any internal time-out",
    ]
    return ctx.finish()
