"""C02 - The wire codec preserves message content (DESIGN.md section 4, C02)."""
import json
import vf, wirefam


def run(ctx):
    drv = vf.build_driver("wiredrv")
    ctx.exhaustive("Wire_MC", "Wire_MC" if ctx.quick else "Wire_MC_thorough", timeout=3000)
    r = vf.tlc("Wire_MC", cfg="Wire_MC_oldkey", timeout=300)
    if r.ok or r.violated != "Inv_C02_RoundTripCompressed":
        raise vf.MachineryError("sensitivity run did not reject the compression key without its length octet")
    g = vf.tlc("Wire_MC", cfg="Wire_Gen", workers=1, timeout=900)
    stims = vf.tlc_values(g.out, "STIM")
    if len(stims) < 5000:
        raise vf.MachineryError("too few TLC messages: %d" % len(stims))
    if ctx.quick:
        step = max(1, len(stims) // 2500)
        stims = stims[ctx.seed % step::step]
    sp = ctx.path("msgs.json")
    json.dump(stims, open(sp, "w"))
    ctx.sample({"tlc_message": stims[len(stims) // 2]})
    t1 = ctx.path("stim.ndjson")
    ctx.driver(drv, ["-out", t1, "-stim", sp])
    ctx.validate("WireTrace", t1, wirefam.keyfn, describe=wirefam.describe, only=["Inv_C02_", "Unconsumable"],
                 timeout=3000, require_events=2 * len(stims))
    t2 = ctx.path("gen.ndjson")
    o2 = ctx.path("gen-own.ndjson")
    ctx.driver(drv, ["-out", t2, "-gen", 1500 if ctx.quick else 20000, "-big", 30 if ctx.quick else 120,
                     "-huge", 1 if ctx.quick else 4, "-chain", 40 if ctx.quick else 120,
                     "-mal", 1500 if ctx.quick else 10000, "-own", o2])
    ctx.validate("WireTrace", t2, wirefam.keyfn, describe=wirefam.describe, only=["Inv_C02_", "Unconsumable"],
                 timeout=3000, require_events=1500)
    # rejected messages in between: what the decoder releases on its error paths decides whether two later
    # messages share a buffer
    wirefam.check_pool(ctx, o2, "generated and mutated messages")
    # the records and messages of the codec are pooled objects: the same decodings, made by many goroutines at once
    t3 = ctx.path("conc.ndjson")
    ctx.driver(drv, ["-out", t3, "-conc", 6000 if ctx.quick else 60000])
    ctx.validate("WireTrace", t3, wirefam.keyfn, describe=wirefam.describe, only=["Inv_C02_", "Unconsumable"],
                 timeout=3000, require_events=24)
    ctx.extra["tlc_messages_replayed"] = len(stims)
    ctx.assumptions += [
        "the specification's decoder is an independent implementation written from RFC 1035 with the proxy's limits; the reserved Z header bit is not a header field",
        "incoming compressed images are produced by an independent encoder that places pointers anywhere legal, incl. inside RDATA names",
        "bounded label/record universe in the exhaustive part; generated messages are sampling",
    ]
    return ctx.finish()
