"""C12 - EDNS0 ends at the proxy; ECS reveals only a truncated client prefix (DESIGN.md section 4, C12)."""
import vf, routerfam


def run(ctx):
    drv = vf.build_driver("routerdrv")
    ctx.exhaustive("Router_MC", "Router_MC_rules", timeout=1200)
    args = ["-thorough"] if not ctx.quick else []
    trace, _ = routerfam.run_mode(ctx, drv, "c12", args)
    routerfam.validate(ctx, trace, only=["Inv_C12_", "Unconsumable"], require_events=600)
    if not ctx.quick:
        trace, _ = routerfam.run_mode(ctx, drv, "c03", ["-thorough"])
        routerfam.validate(ctx, trace, only=["Inv_C12_", "Unconsumable"], require_events=600)
    ctx.assumptions += [
        "client addresses: loopback aliases on udp/tcp/quic, arbitrary v4 / v6 / IPv4-mapped addresses through the DoH client_addr_header, absent header = unknown address",
        "the upstream-side OPT is scanned from the raw query image by the scripted upstream; the client-side OPT is parsed by miekg/dns",
        "at most one OPT per message in generated traffic (RFC 6891)",
    ]
    return ctx.finish()
