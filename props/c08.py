"""C08 - Cached answers age correctly and expire on time (DESIGN.md section 4, C08)."""
import vf, routerfam


def run(ctx):
    drv = vf.build_driver("routerdrv")
    ctx.exhaustive("Router_MC", "Router_MC_time", timeout=1800)
    args = ["-thorough"] if not ctx.quick else []
    trace, _ = routerfam.run_mode(ctx, drv, "c08", args)
    routerfam.validate(ctx, trace, only=["Inv_C08_", "Unconsumable"], require_events=300)
    ctx.assumptions += [
        "timed scenarios run one per router instance at low load; all bounds are one-sided with the 2 s cache-clock granularity the property grants",
        "elapsed time since the fetch is bounded from below by (client send instant - the proxy's own stored instant from the hook)",
        "TTL 2^32-1 is not generated (TLC integers are 32-bit signed); memory cache only (no redis server offline)",
        "the 30 s caps (NXDOMAIN, record-less answers) are exercised in the thorough tier only",
    ]
    return ctx.finish()
