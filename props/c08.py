"""C08 - Cached answers age correctly and expire on time (DESIGN.md section 4, C08)."""
import vf, routerfam


def run(ctx):
    drv = vf.build_driver("routerdrv")
    ctx.exhaustive("Router_MC", "Router_MC_time", timeout=1800)
    args = ["-thorough"] if not ctx.quick else []
    trace, _ = routerfam.run_mode(ctx, drv, "c08", args)
    routerfam.validate(ctx, trace, only=["Inv_C08_", "Unconsumable"], require_events=300)
    # the same timed scenarios with the second-level cache (a minimal RESP3 server stands in for redis), alone and
    # behind the memory cache
    for how in ("only", "both"):
        trace, _ = routerfam.run_mode(ctx, drv, "c08-redis" + how, args + ["-redis", how])
        routerfam.validate(ctx, trace, only=["Inv_C08_", "Unconsumable"], require_events=300)
    # last clause at the memory cache: a store-if-absent (error responses) never replaces an entry that is present,
    # also when a plain store of the same key runs at the same time (MemCache.tla: NxNeverDisplaces)
    ctx.exhaustive("MemCache_MC", "MemCache_MC", timeout=900)
    r = vf.tlc("MemCache_MC", cfg="MemCache_bug_nxrace", timeout=600)
    if r.ok or r.violated != "NxNeverDisplaces":
        raise vf.MachineryError("sensitivity run MemCache_bug_nxrace was not rejected")
    cdrv = vf.build_driver("cachedrv")
    t = ctx.path("pairs.ndjson")
    ctx.driver(cdrv, ["-out", t, "-pairs", 25000 if ctx.quick else 400000], timeout=900)
    ctx.validate("MemCacheTrace", t, lambda ev, inv: "%s:memcache" % inv, only=["Inv_C08_", "Unconsumable"], require_events=1000)
    ctx.assumptions += [
        "timed scenarios run one per router instance at low load; all bounds are one-sided with the 2 s cache-clock granularity the property grants",
        "elapsed time since the fetch is bounded from below by (client send instant - the proxy's own stored instant from the hook)",
        "TTL 2^32-1 is not generated (TLC integers are 32-bit signed); the redis cache talks to a minimal RESP3 server of the harness (HELLO, CLIENT, PING, GET, SET NX PX), not to a real redis",
        "the 30 s caps (NXDOMAIN, record-less answers) are exercised in the thorough tier only",
    ]
    return ctx.finish()
