"""C05 - Multiplexed upstream replies reach exactly the exchange that asked (DESIGN.md section 4, C05)."""
import json
import vf, xportfam


def keyfn(ev, inv):
    return "%s:%s" % (inv, ev.get("ev", "?"))


def describe(ev, inv):
    return "%s at %s" % (inv, json.dumps(ev)[:300])


def run(ctx):
    drv = vf.build_driver("xportdrv")
    if ctx.quick:
        ctx.exhaustive("Pipeline_MC", "Pipeline_MC", timeout=900)
    else:
        ctx.exhaustive("Pipeline_MC", "Pipeline_MC", timeout=900, coverage=True)
        ctx.exhaustive("Pipeline_MC", "Pipeline_MC_thorough", timeout=3600)
    r = vf.tlc("Pipeline_MC", cfg="Pipeline_MC_wrap", timeout=300)
    if r.ok or not r.violated:
        raise vf.MachineryError("sensitivity run did not reject the wrapping ID counter")
    runs = 1 if ctx.quick else 4
    for i in range(runs):
        t = ctx.path("pipe%d.ndjson" % i)
        ctx.driver(drv, ["-mode", "pipe", "-n", 1500 if ctx.quick else 6000, "-long", "-out", t],
                   env={"VERIF_SEED": str(ctx.seed + i)}, timeout=1200)
        lines = open(t).read().splitlines()
        ctx.sample({"trace_excerpt": [json.loads(x) for x in lines[40:46]]})
        ctx.validate("PipelineTrace", t, keyfn, describe=describe, timeout=1800, require_events=60000)
    # the UDP upstream with its TCP fall-back: what an exchange returns is a reply the server sent for it
    t = ctx.path("fallback.ndjson")
    ctx.driver(drv, ["-mode", "fallback", "-n", 400 if ctx.quick else 4000, "-out", t], timeout=900)
    ctx.validate("FallbackTrace", t, keyfn, describe=describe, timeout=1800, require_events=800, only=["Inv_C05"])
    # the transport as a whole (pool + connections) at the grain of its critical sections, replayed into the code
    xportfam.pipe_part(ctx, drv, "C05")
    ctx.assumptions += [
        "schedules of the real code are sampled (32 concurrent exchanges, seeded server script); all interleavings are enumerated only in the bounded model",
        "the scripted server resolves a peer address to the client-side connection object owning that local address at that moment",
    ]
    return ctx.finish()
