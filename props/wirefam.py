"""Shared pieces of the codec checks (C01, C02, C09)."""
import json
import vf


def keyfn(ev, inv):
    if ev.get("ev") in ("crash", "hang"):
        return "%s:%s" % (ev.get("ev"), ev.get("what"))
    return "%s:%s" % (inv, ev.get("ev", "?"))


def describe(ev, inv):
    e = dict(ev)
    if "in" in e and len(e["in"]) > 80:
        e["in"] = e["in"][:80] + ["..."]
    if "wire" in e and len(e["wire"]) > 80:
        e["wire"] = e["wire"][:80] + ["..."]
    return "%s at %s" % (inv, json.dumps(e)[:700])
