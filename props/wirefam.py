"""Shared pieces of the codec checks (C01, C02, C09)."""
import json
import vf


def keyfn(ev, inv):
    if ev.get("ev") in ("crash", "hang"):
        return "%s:%s" % (ev.get("ev"), ev.get("what"))
    return "%s:%s" % (inv, ev.get("ev", "?"))


def describe(ev, inv):
    e = dict(ev)
    if "in" in e and len(e["in"]) > 80:
        e["in"] = e["in"][:80] + ["..."]
    if "wire" in e and len(e["wire"]) > 80:
        e["wire"] = e["wire"][:80] + ["..."]
    return "%s at %s" % (inv, json.dumps(e)[:700])


def own_keyfn(ev, inv):
    return "%s:%s:%s" % (inv, ev.get("ev", "?"), ev.get("kind", ev.get("where", "")))


def check_pool(ctx, own_path, what):
    """The decoder's handling of the byte pool while it works through the inputs of this run: a buffer released
    twice (or one that was never handed out) is two owners of one array later on. The pool hook reports such a
    release instead of executing it, so it is visible here and not as silent corruption."""
    import os
    if not os.path.exists(own_path) or os.path.getsize(own_path) == 0:
        return
    ctx.validate("OwnershipTrace", own_path, own_keyfn, describe=describe, only=["Inv_C20_"], timeout=1200, require_events=0)
