"""C18 - Shutdown and failed start-up are orderly (DESIGN.md section 4, C18)."""
import json, os
import vf, xportfam, routerfam


def keyfn(ev, inv):
    sc = ev.get("sc", "")
    if ev.get("ev") == "boot18":
        return "%s:boot:%s:%s" % (inv, ev.get("kind"), ev.get("pos"))
    if ev.get("ev") == "rclose":
        return "%s:router-close" % inv
    return "%s:%s" % (inv, sc or ev.get("ev", "?"))


def describe(ev, inv):
    return "%s at %s" % (inv, json.dumps(ev)[:400])


def run(ctx):
    drv = vf.build_driver("xportdrv")
    ctx.exhaustive("Lifecycle_MC", "Lifecycle_MC", timeout=300, workers=4)
    ctx.exhaustive("Reuse_MC", "Reuse_MC", timeout=900)
    b = vf.tlc("Lifecycle_MC", cfg="Lifecycle_MC_bug", timeout=300, workers=4)
    if b.ok or b.violated != "Inv_C18_NoLeak":
        raise vf.MachineryError("sensitivity run did not reject the late dial that ignores the closed flag")
    t = ctx.path("life.ndjson")
    ctx.driver(drv, ["-mode", "life", "-out", t], timeout=900)
    lines = open(t).read().splitlines()
    ctx.sample({"trace_excerpt": [json.loads(x) for x in lines[0:6]]})
    ctx.validate("LifecycleTrace", t, keyfn, describe=describe, timeout=600, require_events=200)
    xportfam.quic_part(ctx, drv, "C18")
    xportfam.pipe_part(ctx, drv, "C18")
    # router level: failing listener at every position, whole-router close
    rdrv = vf.build_driver("routerdrv")
    d = os.path.dirname(ctx.path("c18", "x"))
    ctx.driver(rdrv, ["-mode", "c18", "-dir", d], timeout=900, ok_codes=(0, 3))
    rt = os.path.join(d, "c18.ndjson")
    ctx.validate("LifecycleTrace", rt, keyfn, describe=describe, timeout=600, require_events=8)
    ctx.assumptions += [
        "socket census is process wide (/proc/self/fd) and therefore scenarios run sequentially; the scripted server's own view of live connections is a second witness",
        "close racing with dials is exercised by delaying the dial in the socket Control hook (not available for QUIC)",
        "h3 upstreams are not exercised",
    ]
    return ctx.finish()
