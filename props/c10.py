"""C10 - Rules are first-match and a query reaches only the selected upstream (DESIGN.md section 4, C10)."""
import json, os, socket, subprocess, time
import vf, routerfam

BASE = """servers:
  - protocol: udp
    listen: 127.0.0.1:%(port)d
upstreams:
  - tag: u1
    addr: udp://127.0.0.1:9
%(xup)s
domain_sets:
  - tag: s1
    files: ["%(setfile)s"]
%(xset)s
rules:
  - domain: s1
    forward: u1
%(xrule)s
%(xtop)s
"""


def free_udp_port():
    s = socket.socket(socket.AF_INET, socket.SOCK_DGRAM)
    s.bind(("127.0.0.1", 0))
    p = s.getsockname()[1]
    s.close()
    return p


def binary_boots(ctx, quick):
    exe = vf.build_mosproxy()
    d = os.path.dirname(ctx.path("boots", "x"))
    setfile = os.path.join(d, "s1.txt")
    open(setfile, "w").write("domain:z1.test\n")
    cases = [
        ("valid", {}, {}),
        ("unkkey-top", {"xtop": "bogus_key: 1"}, {"unkkey": True}),
        ("unkkey-server", {"xtop": "", "srvkey": True}, {"unkkey": True}),
        ("unkkey-rule", {"xrule": "  - forwrd: u1"}, {"unkkey": True}),
        ("unkkey-cache", {"xtop": "cache:\n  mem_sizee: 1024"}, {"unkkey": True}),
        ("unkkey-upstream-tls", {"xup": "  - tag: u3\n    addr: tls://127.0.0.1:9\n    tls:\n      insecure_skip_verfy: true"}, {"unkkey": True}),
        ("unkfwd", {"xrule": "  - forward: u7"}, {"unkfwd": True}),
        ("unkfwd-reject", {"xrule": "  - reject: 3\n    forward: u7"}, {"unkfwd": True}),
        ("unkset", {"xrule": "  - domain: s7\n    forward: u1"}, {"unkset": True}),
        ("dupup", {"xup": "  - tag: u1\n    addr: tcp://127.0.0.1:9"}, {"dupup": True}),
        ("dupset", {"xset": "  - tag: s1\n    files: []"}, {"dupset": True}),
        ("valid2", {"xup": "  - tag: u2\n    addr: tcp://127.0.0.1:9", "xrule": "  - reject: 5"}, {}),
    ]
    if quick:
        cases = cases[:9] + cases[9:]
    evs = []
    procs = []
    for name, sub, flags in cases:
        port = free_udp_port()
        v = {"port": port, "setfile": setfile, "xup": "", "xset": "", "xrule": "", "xtop": ""}
        v.update({k: x for k, x in sub.items() if k in v})
        y = BASE % v
        if sub.get("srvkey"):
            y = y.replace("  - protocol: udp\n", "  - protocol: udp\n    protocl_typo: x\n")
        fp = os.path.join(d, name + ".yaml")
        open(fp, "w").write(y)
        p = subprocess.Popen([exe, "router", "-c", fp], stdout=subprocess.DEVNULL, stderr=subprocess.DEVNULL)
        procs.append((name, flags, p, port))
    time.sleep(2.0)
    for name, flags, p, port in procs:
        rc = p.poll()
        started = rc is None
        if started:
            # the listener must really be bound
            s = socket.socket(socket.AF_INET, socket.SOCK_DGRAM)
            try:
                s.bind(("127.0.0.1", port))
                bound = False
            except OSError:
                bound = True
            s.close()
            p.kill()
            p.wait()
            started = bound
        e = {"ev": "boot", "case": name, "unkfwd": False, "unkset": False, "dupup": False, "dupset": False, "unkkey": False,
             "started": started, "how": "binary", "err": "" if started else "exit %s" % rc}
        e.update(flags)
        evs.append(e)
    fp = os.path.join(d, "boots.ndjson")
    with open(fp, "w") as f:
        for i, e in enumerate(evs):
            e["seq"] = i + 1
            e["t"] = 0
            f.write(json.dumps(e) + "\n")
    return fp


def run(ctx):
    drv = vf.build_driver("routerdrv")
    r = ctx.exhaustive("Router_MC", "Router_MC_rules", timeout=1200)
    lists = vf.tlc_values(r.out, "RULELISTS")
    if not lists or len(lists[0]) < 100:
        raise vf.MachineryError("no rule lists from TLC")
    lists = lists[0]
    if ctx.quick:
        step = max(1, len(lists) // 36)
        lists = lists[ctx.seed % step::step]
    go_lists = [[{"Set": x["set"], "Reverse": x["rev"], "Reject": x["reject"], "Forward": x["fwd"]} for x in rl] for rl in lists]
    rf = ctx.path("rules.json")
    json.dump(go_lists, open(rf, "w"))
    ctx.sample({"tlc_rule_list": lists[len(lists) // 2]})
    trace, files = routerfam.run_mode(ctx, drv, "c10", ["-rules", rf])
    routerfam.validate(ctx, trace, only=["Inv_C10_", "Unconsumable"], require_events=len(lists) * 20)
    # refresh-window scenario: background refreshes go to the rule's upstream with the entry's own question.
    # Run once with poisoned buffers and once with released buffers handed straight back to the pool, so that a
    # read of released memory is seen either as garbage or as another request's question.
    for extra in ([], ["-nopoison"]):
        tpf, _ = routerfam.run_mode(ctx, drv, "c10pf" + ("-np" if extra else ""), extra)
        # (an answer produced for another question means the client's own question was not what went upstream)
        routerfam.validate(ctx, tpf, only=["Inv_C10_", "Inv_C04_Provenance", "Unconsumable"], require_events=200)
    trace2, _ = routerfam.run_mode(ctx, drv, "c10boot")
    routerfam.validate(ctx, trace2, only=["Inv_C10_", "Unconsumable"], require_events=8)
    bt = binary_boots(ctx, ctx.quick)
    ctx.validate("RouterTrace", bt, routerfam.keyfn, describe=routerfam.describe, only=["Inv_C10_", "Unconsumable"], require_events=8)
    ctx.extra["rule_lists_replayed"] = len(lists)
    ctx.assumptions += [
        "rule lists are enumerated by TLC over 10 rule shapes (length <= 2 in the design model); each is started as a real router with one scripted upstream per tag",
        "start-up decisions are a decision table: the harness constructs each invalid configuration and TLC evaluates ValidConfig",
    ]
    return ctx.finish()
