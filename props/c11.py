"""C11 - Domain sets match by label suffix, independent of load order (DESIGN.md section 4, C11)."""
import json, hashlib
import vf


def keyfn(ev, inv):
    if inv == "Inv_C11_Readable":
        return "readable:text-form"
    if inv == "Inv_C11_Equiv":
        return "equiv:probe"
    return "%s:%s" % (inv, ev.get("ev", "?"))


def describe(ev, inv):
    if inv == "Inv_C11_Readable":
        return "text form of name %s is %r, not the spec's Readable()" % (
            [bytes(x) for x in ev.get("name", [])], bytes(ev.get("text", [])))
    if inv == "Inv_C11_Equiv":
        return "match result differs from Matches(entries, name) in a probe of %d names" % len(ev.get("names", []))
    return "%s at %s" % (inv, json.dumps(ev)[:300])


def run(ctx):
    drv = vf.build_driver("domdrv")
    # 1. design model, exhaustive
    if ctx.quick:
        ctx.exhaustive("DomainSet_MC", "DomainSet_MC", timeout=600)
    else:
        ctx.exhaustive("DomainSet_MC", "DomainSet_MC", timeout=600, coverage=True)
        ctx.exhaustive("DomainSet_MC", "DomainSet_MC_thorough", timeout=1800)
    # sensitivity: the pre-repair algorithm must be rejected by the same invariant (vacuity guard)
    r = vf.tlc("DomainSet_MC", cfg="DomainSet_MC_orig", timeout=300)
    if r.ok or r.violated != "Inv_C11_Equiv":
        raise vf.MachineryError("sensitivity run did not reject the padded-key / non-subsuming trie")
    # 2. spec -> code: one insertion history per distinct abstract state
    g = vf.tlc("DomainSet_MC", cfg="DomainSet_Gen", workers=1, timeout=900)
    if not g.ok:
        raise vf.MachineryError("stimulus generation failed\n" + g.out[-2000:])
    stims = vf.tlc_values(g.out, "STIM")
    uni = vf.tlc_values(g.out, "UNIVERSE")[0]
    if len(stims) < 1000:
        raise vf.MachineryError("too few stimuli: %d" % len(stims))
    if ctx.quick:
        full = [s for s in stims if len(s) == 3]
        step = max(1, len(full) // 2500)
        off = ctx.seed % step
        stims = full[off::step]
    sp = ctx.path("stim.json")
    json.dump({"universe": uni, "stims": stims}, open(sp, "w"))
    t1 = ctx.path("replay.ndjson")
    out = ctx.driver(drv, ["-out", t1, "-stim", sp])
    ctx.sample({"tlc_insertion_history": stims[len(stims) // 2]})
    ctx.validate("DomainTrace", t1, keyfn, describe=describe, timeout=1800, require_events=1000)
    # 3. code -> spec: seeded random lists through the real loader
    t2 = ctx.path("random.ndjson")
    lists = 12 if ctx.quick else 120
    ctx.driver(drv, ["-out", t2, "-lists", lists, "-entries", 60 if ctx.quick else 150, "-probes", 150])
    ctx.sample({"random_list_event": json.loads(open(t2).read().splitlines()[1])})
    ctx.validate("DomainTrace", t2, keyfn, describe=describe, timeout=3000, require_events=lists * 3)
    ctx.extra["stimuli_replayed"] = len(stims)
    ctx.assumptions += [
        "entries with '.'-escapes or empty labels are undefined by the property and not generated",
        "regexp entries are anchored literals of the text form (general regular expressions are Go's regexp)",
        "exhaustive equivalence is within the bounded label universe {a, b, a\\0, 25-octet label}",
    ]
    return ctx.finish()
