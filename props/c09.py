"""C09 - Responses respect the transport size limit and truncate well-formedly (DESIGN.md section 4, C09)."""
import json
import vf, wirefam, routerfam


def run(ctx):
    drv = vf.build_driver("wiredrv")
    ctx.exhaustive("Wire_MC", "Wire_MC", timeout=3000)
    t1 = ctx.path("lim.ndjson")
    ctx.driver(drv, ["-out", t1, "-lim", 2500 if ctx.quick else 30000])
    lines = open(t1).read().splitlines()
    e = json.loads(lines[3])
    ctx.sample({"pack_event": {k: (v if k not in ("wire", "msg") else "...") for k, v in e.items()}})
    ctx.validate("WireTrace", t1, wirefam.keyfn, describe=wirefam.describe, only=["Inv_C09_", "Unconsumable"],
                 timeout=3000, require_events=2000)
    # listener level: the limit each transport applies (advertised UDP size, 65535 elsewhere)
    rdrv = vf.build_driver("routerdrv")
    trace, _ = routerfam.run_mode(ctx, rdrv, "c09")
    routerfam.validate(ctx, trace, only=["Inv_C09_", "Inv_C03_Decodable", "Inv_C03_Header", "Unconsumable"], require_events=400)
    ctx.assumptions += [
        "the properties are evaluated on the decoded result of Msg.Pack (limit, TC iff omitted, counts, question and OPT kept, answer/authority order) - not on which records the algorithm chooses to drop",
        "listener part: answers of 1.3 KB, 3 KB and 65.3 KB (325 TXT records) fetched over a TCP upstream and requested on all 8 listener kinds, over UDP with no OPT and advertised sizes 0, 512, 600, 1232, 4096, 65535",
    ]
    return ctx.finish()
