"""C06 - One-at-a-time upstream connections are reused only when clean (DESIGN.md section 4, C06)."""
import json
import vf, xportfam


def keyfn(ev, inv):
    return "%s:%s" % (inv, ev.get("ev", "?"))


def describe(ev, inv):
    return "%s at %s" % (inv, json.dumps(ev)[:300])


def run(ctx):
    drv = vf.build_driver("xportdrv")
    ctx.exhaustive("Reuse_MC", "Reuse_MC", timeout=900, coverage=not ctx.quick)
    r = vf.tlc("Reuse_MC", cfg="Reuse_MC_bug", timeout=300)
    if r.ok or r.violated != "Inv_C06_CleanIdle":
        raise vf.MachineryError("sensitivity run did not reject the early-release variant")
    runs = 1 if ctx.quick else 5
    for i in range(runs):
        t = ctx.path("reuse%d.ndjson" % i)
        ctx.driver(drv, ["-mode", "reuse", "-n", 1500 if ctx.quick else 5000, "-out", t],
                   env={"VERIF_SEED": str(ctx.seed + i)}, timeout=1200)
        lines = open(t).read().splitlines()
        ctx.sample({"trace_excerpt": [json.loads(x) for x in lines[30:38]]})
        ctx.validate("ReuseTrace", t, keyfn, describe=describe, timeout=1800, require_events=5000)
    # the step-level model (one action per critical section / channel operation) and its replay into the code
    ctx.exhaustive("ReuseStep_MC", "ReuseStep_MC", timeout=900)
    if not ctx.quick:
        ctx.exhaustive("ReuseStep_MC", "ReuseStep_live", timeout=1800, workers=4)
    b = vf.tlc("ReuseStep_MC", cfg="ReuseStep_bug_earlyidle", timeout=300)
    if b.ok or b.violated != "Inv_C06_CleanIdleStrict":
        raise vf.MachineryError("sensitivity run did not reject the connection that goes idle after a failed read")
    b = vf.tlc("ReuseStep_MC", cfg="ReuseStep_bug_stray", timeout=300)
    if b.ok or b.violated != "Inv_C06_NoStray":
        raise vf.MachineryError("sensitivity run did not reject the dialled connection that is dropped when its caller has left")
    xportfam.reuse_replay(ctx, drv, "C06")
    ctx.assumptions += [
        "the scripted server sends at most one reply per query (the property's premise)",
        "the package's own test knob testRespTimeout (150 ms) and a 25 ms idle timeout make time-out and idle-timer races frequent",
        "real-code schedules are sampled; all interleavings are enumerated only in the bounded model (2 connections, 3 exchanges)",
    ]
    return ctx.finish()
