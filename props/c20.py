"""C20 - Recycled memory is exclusively owned (DESIGN.md section 4, C20)."""
import json, os, re, glob
import vf, routerfam


def keyfn(ev, inv):
    if ev.get("ev") == "race":
        return "race:%s" % ev.get("top", "?")
    return "%s:%s:%s" % (inv, ev.get("ev", "?"), ev.get("kind", ev.get("where", "")))


def describe(ev, inv):
    return "%s at %s" % (inv, json.dumps(ev)[:400])


def race_events(output, path):
    """Convert race detector reports in a driver's output into `race` events appended to the ownership trace.
    Every report counts (the detector is the arbiter of 'free of data races', see DESIGN.md 4 C20 limits)."""
    n = skipped = 0
    with open(path, "a") as f:
        for m in re.finditer(r"WARNING: DATA RACE\n(.*?)\n==================", output, re.S):
            body = m.group(1)
            parts = re.split(r"\n\n(?=Previous |Goroutine )", body)
            acc = [p for p in parts if p.startswith(("Read at", "Write at", "Previous read", "Previous write", "Atomic", "Previous atomic"))][:2]
            def via_otter(p):
                fr = re.findall(r"^\s+(/\S+\.go):\d+", p, re.M)
                # mosproxy frame on top, called from otter core
                return len(fr) >= 2 and (vf.REPO + "/internal/cache/") in fr[0] and any("maypok86/otter" in x for x in fr[1:4])
            frames = re.findall(r"^\s+(" + re.escape(vf.REPO) + r"/\S+\.go:\d+)", body, re.M)
            if not any("/zzverif/" not in x and "zz_verif" not in x for x in frames):
                skipped += 1        # a race between harness goroutines only: a harness bug, not a verdict
                continue
            top = next((x for x in frames if "/zzverif/" not in x), frames[0] if frames else "?")
            n += 1
            f.write(json.dumps({"ev": "race", "top": top.replace(vf.REPO + "/", ""), "frames": frames[:8], "seq": 0, "t": 0}) + "\n")
    return n, skipped


def run(ctx):
    ctx.exhaustive("Ownership_MC", "Ownership_MC", timeout=300, workers=4)
    b = vf.tlc("Ownership_MC", cfg="Ownership_MC_bug", timeout=300, workers=4)
    if b.ok or b.violated != "Inv_C20_NoDoubleRelease":
        raise vf.MachineryError("sensitivity run did not reject the double release")
    race = not ctx.quick
    drv = vf.build_driver("routerdrv", race=race)
    d = os.path.dirname(ctx.path("c04", "x"))
    out = ctx.driver(drv, ["-mode", "c04", "-dir", d] + (["-thorough"] if not ctx.quick else []), timeout=3000, ok_codes=(0, 3, 66),
                     env={"GORACE": "halt_on_error=0 exitcode=0"})
    own = os.path.join(d, "own.ndjson")
    if race:
        n, sk = race_events(out, own)
        ctx.extra["race_reports"] = n
        ctx.extra["harness_only_race_reports"] = sk
    lines = open(own).read().splitlines()
    ctx.sample({"ownership_events": [json.loads(x) for x in lines[100:104]]})
    ctx.validate("OwnershipTrace", own, keyfn, describe=describe, timeout=3000, require_events=2000)
    # the same run must also be free of mixed-up answers (reads of released memory surface there)
    part = os.path.join(d, "c04.part")
    routerfam.partition_by_name(os.path.join(d, "c04.ndjson"), part)
    routerfam.validate(ctx, part, only=["Inv_C04_", "Inv_C03_Header", "Inv_C07_StoreOwnKey", "Inv_C10_ExactQuestion", "Unconsumable"], require_events=3000, timeout=3000)
    # the second-level (redis) cache's paths against a minimal RESP3 server: stores queued for a slow server
    # (the queue overflows, stores are dropped), redis hits promoted to the memory cache
    d2 = os.path.dirname(ctx.path("c20redis", "x"))
    o2 = ctx.driver(drv, ["-mode", "c20redis", "-dir", d2], timeout=1200, ok_codes=(0, 3, 66), env={"GORACE": "halt_on_error=0 exitcode=0"})
    own2 = os.path.join(d2, "own.ndjson")
    if race:
        n, sk = race_events(o2, own2)
        ctx.extra["race_reports"] = ctx.extra.get("race_reports", 0) + n
    ctx.validate("OwnershipTrace", own2, keyfn, describe=describe, timeout=3000, require_events=2000)
    part2 = os.path.join(d2, "c20redis.part")
    routerfam.partition_by_name(os.path.join(d2, "c20redis.ndjson"), part2)
    routerfam.validate(ctx, part2, only=["Inv_C04_", "Inv_C03_Header", "Inv_C03_Decodable", "Inv_C07_StoreOwnKey", "Unconsumable"], require_events=3000, timeout=3000)
    # recycled per-connection state: clients that hang up with a query in flight, new connections right behind them -
    # a late completion for a connection that is gone does not touch the one that took its place
    drv_plain = vf.build_driver("routerdrv")
    tg, _ = routerfam.run_mode(ctx, drv_plain, "c20gone")
    routerfam.validate(ctx, tg, only=["Inv_C03_Answered", "Inv_C03_Header", "Inv_C03_AtMostOne", "Inv_C04_", "Unconsumable"], require_events=200)
    # the codec's error paths: mutated wire images (length fields that lie, truncations, RDLENGTH off by one in
    # every record type) decoded with the pool hook on - a buffer released twice there is two owners later
    import wirefam
    wdrv = vf.build_driver("wiredrv")
    wt, wo = ctx.path("mal.ndjson"), ctx.path("mal-own.ndjson")
    ctx.driver(wdrv, ["-out", wt, "-mal", 6000 if ctx.quick else 80000, "-own", wo])
    wirefam.check_pool(ctx, wo, "mutated wire images")
    # the memory cache's interface: it keeps no reference to the key / value buffers of its callers
    cdrv = vf.build_driver("cachedrv")
    kt = ctx.path("keep.ndjson")
    ctx.driver(cdrv, ["-out", kt, "-pairs", 10000 if ctx.quick else 100000], timeout=900)
    ctx.validate("MemCacheTrace", kt, lambda ev, inv: "%s:memcache" % inv, only=["Inv_C20_", "Unconsumable"], require_events=500)
    # transports: cancellations and connection failures (C06 / C05 style runs) with the pool hook active
    xdrv = vf.build_driver("xportdrv", race=race)
    for mode, n in (("reuse", 1500), ("pipe", 1500), ("dohcancel", 1200), ("fallback", 400)) + ((("fault", 0), ("life", 0)) if race else ()):
        t = ctx.path("x-%s.ndjson" % mode)
        o = ctx.driver(xdrv, ["-mode", mode, "-n", n, "-out", t, "-own", ctx.path("own-%s.ndjson" % mode)], timeout=1800,
                       ok_codes=(0, 66), env={"GORACE": "halt_on_error=0 exitcode=0"})
        ot = ctx.path("own-%s.ndjson" % mode)
        if race:
            n, sk = race_events(o, ot)
            ctx.extra["race_reports"] = ctx.extra.get("race_reports", 0) + n
        ctx.validate("OwnershipTrace", ot, keyfn, describe=describe, timeout=3000, require_events=100 if mode not in ("fault", "life") else 1)
        if mode == "pipe" and not race:
            # what an exchange on a multiplexed connection returns is the reply to its own query: a recycled channel
            # or message that still holds another exchange's reply is another request's data
            ctx.validate("PipelineTrace", t, lambda ev, inv: "%s:%s" % (inv, ev.get("ev", "?")), describe=describe, timeout=1800,
                         require_events=3000, only=["Inv_C05_Match", "Inv_C05_NoShare", "Unconsumable"])
    # the one-at-a-time transport stepped through behaviours of ReuseStep: a query written from a released buffer
    # (the caller left before the exchange goroutine wrote) is seen by the scripted connection as poison
    import xportfam
    xportfam.reuse_replay(ctx, vf.build_driver("xportdrv"), "C20")
    if race:
        # the QUIC transport under the race detector: its scenario run and the gate-scheduled replay of
        # QuicXport's state graph (every interleaving of the model, stepped through the real code)
        import qpaths, random
        r, states, adj, init, skipped = qpaths.build()
        paths = qpaths.cover(states, adj, init, seed=ctx.seed)
        random.Random(ctx.seed).shuffle(paths)
        pf = ctx.path("qpaths.json")
        qpaths.write(pf, states, init, paths[:6000])
        for mode, extra in (("quic", ["-n", 12]), ("qreplay", ["-n", 5000, "-in", pf])):
            t = ctx.path("x-%s.ndjson" % mode)
            o = ctx.driver(xdrv, ["-mode", mode, "-out", t] + extra, timeout=3000, ok_codes=(0, 66),
                           env={"GORACE": "halt_on_error=0 exitcode=0"})
            ot = ctx.path("race-%s.ndjson" % mode)
            n, sk = race_events(o, ot)
            ctx.extra["race_reports"] = ctx.extra.get("race_reports", 0) + n
            ctx.extra["harness_only_race_reports"] = ctx.extra.get("harness_only_race_reports", 0) + sk
            if n:
                ctx.validate("OwnershipTrace", ot, keyfn, describe=describe, timeout=600, require_events=1)
    ctx.assumptions += [
        "TLA+ decides the ownership discipline of recycled objects from get / release / poison events; 'free of data races' on arbitrary memory is judged by the Go race detector (thorough tier), used as a sensor whose reports become trace events without a specification action",
        "normal get/release events are recorded for 1 in 16 objects (typestate per object is independent); anomalies found by the pool hook (release of a buffer not held, broken poison at quarantine exit, a held buffer handed out) are always recorded",
        "reads after release are visible only through their effects: poison octets (0xDB runs) seen by a scripted upstream or a client, or a mixed-up answer in the same run",
        "sync.Pool structs other than Msg, Question and RequestContext (resource records, cache entries) are not instrumented",
    ]
    return ctx.finish()
