------------------------------ MODULE PipeStep ------------------------------
(***************************************************************************)
(* The pipelined transport as a whole, step by step: PipelineTransport     *)
(* (internal/upstream/transport/pipeline_transport.go) over the connection *)
(* pool github.com/IrineSistiana/connpool and pipelineConn                 *)
(* (pipeline_conn.go).  Pipeline.tla is one connection; this module adds   *)
(* what sits around it: which connection an exchange gets (busy / idle /   *)
(* a dial that several exchanges join), the reservation counter that keeps *)
(* a nearly exhausted connection from being handed out, retirement at the  *)
(* end of the ID space, the retry loop, release and trimming of idle       *)
(* connections, Close.  One action per critical section, so that its       *)
(* behaviours can be replayed into the real transport under a gate         *)
(* scheduler (PipeStepReplay):                                             *)
(*   Get(e)        pool.Get under the pool's lock: closed / busy conn with *)
(*                 the most streams (+Reserve) / an idle conn / join the   *)
(*                 last dial / start a dial                                *)
(*   DialDone(c,ok) the dial goroutine: register busy or idle, or close a  *)
(*                 late connection                                         *)
(*   Wake(e)       a waiter of the dial: error, not available, or Reserve  *)
(*   WaitCtx(e)    ... its context ended first                             *)
(*   AddQueue(e)   addQueueC under c.m: reservation consumed, EoL or ID    *)
(*   Write(e,ok)   write(): a failed write closes the connection           *)
(*   Ret(e,k)      the select of exchange(): reply / ctx / connection      *)
(*   Del(e)        deferred deleteQueueC: retires an exhausted connection  *)
(*   Rel(e)        pool.Release + the retry decision of ExchangeContext    *)
(*   Lookup(c,m) Send(c)  the read loop in two steps                       *)
(*   ReadErr(c)    the read loop's read fails: closeWithErr                *)
(*   Close         pool.Close                                              *)
(* Environment: ServerSend(c,q) for ANY wire ID, Deadline(e).              *)
(***************************************************************************)
EXTENDS Naturals, FiniteSets, TLC

CONSTANTS NEx, NConn,
          MaxId,      \* wire IDs are 0..MaxId (65535 in the code)
          MaxStream,  \* connpool MaxStream (MaxConcurrentQuery, 64 by default)
          MaxRetry,   \* 5 in the code
          MaxSends,
          BugRetryFresh,  \* sensitivity: a failure on a freshly dialled connection is retried as well
          BugNoRetire,    \* sensitivity: deleteQueueC does not close the exhausted connection
          BugLateLeak     \* sensitivity: a dial that completes after Close is not closed

Ex == 1..NEx
Conn == 1..NConn
Ids == 0..MaxId
NoRl == [some |-> FALSE, qid |-> 0, tok |-> 0, e |-> 0, att |-> 0]
NoEx == [pc |-> "idle", c |-> 0, fresh |-> FALSE, retry |-> 0, qid |-> 0, att |-> 0, err |-> "none", res |-> "none", got |-> 0]

VARIABLES tclosed,
          cst,       \* per conn: "none" | "dialing" | "open" | "closed" | "failed"
          pool,      \* per conn: "out" | "busy" | "idle"      (the pool's two maps)
          streams,   \* per conn: the pool's stream count
          dq,        \* per conn: streamQueue of its dial call
          dcancel,   \* per conn: its dial call was cancelled by Close
          lastdial,  \* the pool's lastDialCall (0 = nil)
          nextQid, reserved,
          queue,     \* per conn: waiter table qid -> <<exchange, attempt>>
          wire,      \* per conn: replies on their way to the client: set of <<qid, tok>>
          rl,        \* per conn: the read loop between getQueueC and the channel send
          ex, ctxdone,
          chan,      \* per exchange: the 1-buffered channel of its current attempt (0 = empty)
          ntok,
          srvSent,   \* history: <<c, qid, tok>>
          assigned   \* history: <<c, qid, e, att>>
vars == <<tclosed, cst, pool, streams, dq, dcancel, lastdial, nextQid, reserved, queue, wire, rl, ex, ctxdone, chan, ntok, srvSent, assigned>>
view == <<tclosed, cst, pool, streams, dq, dcancel, lastdial, nextQid, reserved, queue, wire, rl, ex, ctxdone, chan, ntok>>

Init == /\ tclosed = FALSE /\ cst = [c \in Conn |-> "none"] /\ pool = [c \in Conn |-> "out"]
        /\ streams = [c \in Conn |-> 0] /\ dq = [c \in Conn |-> 0] /\ dcancel = [c \in Conn |-> FALSE] /\ lastdial = 0
        /\ nextQid = [c \in Conn |-> 0] /\ reserved = [c \in Conn |-> 0] /\ queue = [c \in Conn |-> <<>>]
        /\ wire = [c \in Conn |-> {}] /\ rl = [c \in Conn |-> NoRl]
        /\ ex = [e \in Ex |-> NoEx] /\ ctxdone = [e \in Ex |-> FALSE] /\ chan = [e \in Ex |-> 0]
        /\ ntok = 0 /\ srvSent = {} /\ assigned = {}

Without(f, k) == [x \in DOMAIN f \ {k} |-> f[x]]
With(f, k, v) == [x \in DOMAIN f \cup {k} |-> IF x = k THEN v ELSE f[x]]
Max(a, b) == IF a > b THEN a ELSE b

\* pipelineConn.Status / Reserve
Closed(c) == cst[c] = "closed"
Avail(c) == nextQid[c] + reserved[c] <= MaxId
ReservedAfter(c) == IF nextQid[c] + reserved[c] < MaxId THEN reserved[c] + 1 ELSE reserved[c]

Finish(e, r) == ex' = [ex EXCEPT ![e].pc = "done", ![e].res = r]

Start(e) == /\ ex[e].pc = "idle" /\ ex' = [ex EXCEPT ![e].pc = "get"]
            /\ UNCHANGED <<tclosed, cst, pool, streams, dq, dcancel, lastdial, nextQid, reserved, queue, wire, rl, ctxdone, chan, ntok, srvSent, assigned>>

-----------------------------------------------------------------------------
\* pool.Get. Closed connections met while searching are dropped from the pool's maps; the pool's view of
\* them no longer matters (Release ignores a connection it does not know), so the model keeps them where they are.
BusyCands == {c \in Conn : pool[c] = "busy" /\ ~Closed(c) /\ Avail(c) /\ streams[c] < MaxStream}
IdleCands == {c \in Conn : pool[c] = "idle" /\ ~Closed(c) /\ Avail(c)}
Get(e) ==
    /\ ex[e].pc = "get"
    /\ IF tclosed
       THEN /\ Finish(e, "closed")
            /\ UNCHANGED <<cst, pool, streams, dq, lastdial, reserved>>
       ELSE IF BusyCands # {}
       THEN \E c \in BusyCands :
            /\ \A d \in BusyCands : streams[d] <= streams[c]
            /\ streams' = [streams EXCEPT ![c] = @ + 1]
            /\ reserved' = [reserved EXCEPT ![c] = ReservedAfter(c)]
            /\ ex' = [ex EXCEPT ![e].pc = "add", ![e].c = c, ![e].fresh = FALSE]
            /\ UNCHANGED <<cst, pool, dq, lastdial>>
       ELSE IF IdleCands # {}
       THEN \E c \in IdleCands :
            /\ pool' = [pool EXCEPT ![c] = "busy"]
            /\ streams' = [streams EXCEPT ![c] = @ + 1]
            /\ ex' = [ex EXCEPT ![e].pc = "add", ![e].c = c, ![e].fresh = FALSE]
            /\ UNCHANGED <<cst, dq, lastdial, reserved>>
       ELSE IF lastdial # 0 /\ dq[lastdial] < MaxStream
       THEN /\ dq' = [dq EXCEPT ![lastdial] = @ + 1]
            /\ ex' = [ex EXCEPT ![e].pc = "wait", ![e].c = lastdial]
            /\ UNCHANGED <<cst, pool, streams, lastdial, reserved>>
       ELSE \E c \in Conn :
            /\ cst[c] = "none" /\ \A d \in Conn : cst[d] = "none" => c <= d
            /\ cst' = [cst EXCEPT ![c] = "dialing"]
            /\ dq' = [dq EXCEPT ![c] = 1]
            /\ lastdial' = c
            /\ ex' = [ex EXCEPT ![e].pc = "wait", ![e].c = c]
            /\ UNCHANGED <<pool, streams, reserved>>
    /\ UNCHANGED <<tclosed, dcancel, nextQid, queue, wire, rl, ctxdone, chan, ntok, srvSent, assigned>>

\* dialingCall.dial after Dial returned
DialDone(c, ok) ==
    /\ cst[c] = "dialing"
    /\ IF tclosed \/ dcancel[c]
       THEN /\ cst' = [cst EXCEPT ![c] = IF ok /\ ~BugLateLeak THEN "closed" ELSE IF ok THEN "open" ELSE "failed"]
            /\ UNCHANGED <<pool, streams, lastdial>>
       ELSE /\ cst' = [cst EXCEPT ![c] = IF ok THEN "open" ELSE "failed"]
            /\ lastdial' = IF lastdial = c THEN 0 ELSE lastdial
            /\ IF ok THEN /\ pool' = [pool EXCEPT ![c] = IF dq[c] = 0 THEN "idle" ELSE "busy"]
                          /\ streams' = [streams EXCEPT ![c] = dq[c]]
                     ELSE UNCHANGED <<pool, streams>>
    /\ UNCHANGED <<tclosed, dq, dcancel, nextQid, reserved, queue, wire, rl, ex, ctxdone, chan, ntok, srvSent, assigned>>

\* pool.Release (the pool's part of Rel and of the not-available branch of Wake); idle connections beyond
\* max(busy, 1) are closed - which ones is the map's choice
Trim(p, victims) == /\ victims \subseteq {d \in Conn : p[d] = "idle"}
                    /\ LET nidle == Cardinality({d \in Conn : p[d] = "idle"})
                           nbusy == Cardinality({d \in Conn : p[d] = "busy"})
                           rm == IF nidle > Max(nbusy, 1) THEN nidle - Max(nbusy, 1) ELSE 0
                       IN Cardinality(victims) = rm
PoolRelease(c, cstNow) ==
    IF pool[c] # "busy"
    THEN /\ pool' = pool /\ streams' = streams /\ cst' = cstNow
    ELSE IF cstNow[c] = "closed"
    THEN /\ pool' = [pool EXCEPT ![c] = "out"] /\ streams' = streams /\ cst' = cstNow
    ELSE IF streams[c] > 1
    THEN /\ streams' = [streams EXCEPT ![c] = @ - 1] /\ pool' = pool /\ cst' = cstNow
    ELSE LET p1 == [pool EXCEPT ![c] = "idle"] IN
         \E victims \in SUBSET Conn :
            /\ Trim(p1, victims)
            /\ pool' = [d \in Conn |-> IF d \in victims THEN "out" ELSE p1[d]]
            /\ streams' = [streams EXCEPT ![c] = 0]
            /\ cst' = [d \in Conn |-> IF d \in victims THEN "closed" ELSE cstNow[d]]

DialOver(c) == cst[c] # "dialing" \/ dcancel[c]
\* waitDialCall after the dial call delivered (or the waiter's context ended when the call was already over)
Wake(e) ==
    /\ ex[e].pc = "wait" /\ DialOver(ex[e].c)
    /\ LET c == ex[e].c IN
       IF dcancel[c] THEN Finish(e, "closed") /\ UNCHANGED <<cst, pool, streams, reserved>>
       ELSE IF cst[c] = "failed" THEN Finish(e, "dialerr") /\ UNCHANGED <<cst, pool, streams, reserved>>
       ELSE IF ~Avail(c) THEN Finish(e, "notavail") /\ PoolRelease(c, cst) /\ UNCHANGED reserved
       ELSE /\ reserved' = [reserved EXCEPT ![c] = ReservedAfter(c)]
            /\ ex' = [ex EXCEPT ![e].pc = "add", ![e].fresh = TRUE]
            /\ UNCHANGED <<cst, pool, streams>>
    /\ UNCHANGED <<tclosed, dq, dcancel, lastdial, nextQid, queue, wire, rl, ctxdone, chan, ntok, srvSent, assigned>>

WaitCtx(e) ==
    /\ ex[e].pc = "wait" /\ ctxdone[e] /\ ~DialOver(ex[e].c)
    /\ dq' = [dq EXCEPT ![ex[e].c] = @ - 1]
    /\ Finish(e, "ctx")
    /\ UNCHANGED <<tclosed, cst, pool, streams, dcancel, lastdial, nextQid, reserved, queue, wire, rl, ctxdone, chan, ntok, srvSent, assigned>>

-----------------------------------------------------------------------------
AddQueue(e) ==
    /\ ex[e].pc = "add"
    /\ LET c == ex[e].c IN
       /\ reserved' = [reserved EXCEPT ![c] = IF @ > 0 THEN @ - 1 ELSE 0]
       /\ IF nextQid[c] > MaxId
          THEN /\ ex' = [ex EXCEPT ![e].pc = "rel", ![e].err = "eol"]
               /\ UNCHANGED <<nextQid, queue, chan, assigned>>
          ELSE /\ ex' = [ex EXCEPT ![e].pc = "write", ![e].qid = nextQid[c], ![e].att = @ + 1, ![e].err = "none"]
               /\ queue' = [queue EXCEPT ![c] = With(@, nextQid[c], <<e, ex[e].att + 1>>)]
               /\ nextQid' = [nextQid EXCEPT ![c] = @ + 1]
               /\ chan' = [chan EXCEPT ![e] = 0]
               /\ assigned' = assigned \cup {<<c, nextQid[c], e, ex[e].att + 1>>}
    /\ UNCHANGED <<tclosed, cst, pool, streams, dq, dcancel, lastdial, wire, rl, ctxdone, ntok, srvSent>>

\* a write on a closed socket fails; on an open one it may fail too (deadline, reset): the connection is closed
Write(e, ok) ==
    /\ ex[e].pc = "write"
    /\ LET c == ex[e].c IN
       IF ok THEN /\ cst[c] = "open"
                  /\ ex' = [ex EXCEPT ![e].pc = "sel"]
                  /\ UNCHANGED cst
             ELSE /\ ex' = [ex EXCEPT ![e].pc = "del", ![e].err = "werr"]
                  /\ cst' = [cst EXCEPT ![c] = "closed"]
    /\ UNCHANGED <<tclosed, pool, streams, dq, dcancel, lastdial, nextQid, reserved, queue, wire, rl, ctxdone, chan, ntok, srvSent, assigned>>

Ret(e, k) ==
    /\ ex[e].pc = "sel"
    /\ \/ k = "reply" /\ chan[e] # 0 /\ ex' = [ex EXCEPT ![e].pc = "del", ![e].got = chan[e], ![e].err = "none"]
       \/ k = "ctx" /\ ctxdone[e] /\ ex' = [ex EXCEPT ![e].pc = "del", ![e].err = "ctx"]
       \/ k = "conn" /\ Closed(ex[e].c) /\ ex' = [ex EXCEPT ![e].pc = "del", ![e].err = "connerr"]
    /\ UNCHANGED <<tclosed, cst, pool, streams, dq, dcancel, lastdial, nextQid, reserved, queue, wire, rl, ctxdone, chan, ntok, srvSent, assigned>>

Del(e) ==
    /\ ex[e].pc = "del"
    /\ LET c == ex[e].c
           q2 == Without(queue[c], ex[e].qid) IN
       /\ queue' = [queue EXCEPT ![c] = q2]
       /\ cst' = IF nextQid[c] > MaxId /\ DOMAIN q2 = {} /\ ~BugNoRetire THEN [cst EXCEPT ![c] = "closed"] ELSE cst
    /\ ex' = [ex EXCEPT ![e].pc = "rel"]
    /\ UNCHANGED <<tclosed, pool, streams, dq, dcancel, lastdial, nextQid, reserved, wire, rl, ctxdone, chan, ntok, srvSent, assigned>>

\* t.releaseConn and what ExchangeContext does with the outcome
Rel(e) ==
    /\ ex[e].pc = "rel"
    /\ PoolRelease(ex[e].c, cst)
    /\ IF ex[e].err = "none"
       THEN ex' = [ex EXCEPT ![e].pc = "done", ![e].res = "reply"]
       ELSE IF (~ex[e].fresh \/ BugRetryFresh) /\ ex[e].retry < MaxRetry /\ ~ctxdone[e]
       THEN ex' = [ex EXCEPT ![e].pc = "get", ![e].retry = @ + 1]
       ELSE ex' = [ex EXCEPT ![e].pc = "done", ![e].res = ex[e].err]
    /\ UNCHANGED <<tclosed, dq, dcancel, lastdial, nextQid, reserved, queue, wire, rl, ctxdone, chan, ntok, srvSent, assigned>>

-----------------------------------------------------------------------------
ServerSend(c, q) ==
    /\ ntok < MaxSends /\ cst[c] = "open"
    /\ ntok' = ntok + 1
    /\ wire' = [wire EXCEPT ![c] = @ \cup {<<q, ntok + 1>>}]
    /\ srvSent' = srvSent \cup {<<c, q, ntok + 1>>}
    /\ UNCHANGED <<tclosed, cst, pool, streams, dq, dcancel, lastdial, nextQid, reserved, queue, rl, ex, ctxdone, chan, assigned>>

Lookup(c, m) ==
    /\ m \in wire[c] /\ ~rl[c].some /\ cst[c] = "open"
    /\ wire' = [wire EXCEPT ![c] = @ \ {m}]
    /\ rl' = [rl EXCEPT ![c] = IF m[1] \in DOMAIN queue[c]
                               THEN [some |-> TRUE, qid |-> m[1], tok |-> m[2], e |-> queue[c][m[1]][1], att |-> queue[c][m[1]][2]]
                               ELSE [some |-> TRUE, qid |-> m[1], tok |-> m[2], e |-> 0, att |-> 0]]
    /\ UNCHANGED <<tclosed, cst, pool, streams, dq, dcancel, lastdial, nextQid, reserved, queue, ex, ctxdone, chan, ntok, srvSent, assigned>>

\* the channel belongs to one attempt of one exchange and lives until that call of exchange() returns
Send(c) ==
    /\ rl[c].some
    /\ LET e == rl[c].e IN
       chan' = IF e # 0 /\ ex[e].att = rl[c].att /\ ex[e].pc \in {"write", "sel", "del"} /\ chan[e] = 0
               THEN [chan EXCEPT ![e] = rl[c].tok] ELSE chan
    /\ rl' = [rl EXCEPT ![c] = NoRl]
    /\ UNCHANGED <<tclosed, cst, pool, streams, dq, dcancel, lastdial, nextQid, reserved, queue, wire, ex, ctxdone, ntok, srvSent, assigned>>

\* the server closes / resets, or the idle time-out fires
ReadErr(c) ==
    /\ cst[c] = "open" /\ ~rl[c].some
    /\ cst' = [cst EXCEPT ![c] = "closed"]
    /\ UNCHANGED <<tclosed, pool, streams, dq, dcancel, lastdial, nextQid, reserved, queue, wire, rl, ex, ctxdone, chan, ntok, srvSent, assigned>>

Deadline(e) ==
    /\ ex[e].pc \notin {"idle", "done"} /\ ~ctxdone[e]
    /\ ctxdone' = [ctxdone EXCEPT ![e] = TRUE]
    /\ UNCHANGED <<tclosed, cst, pool, streams, dq, dcancel, lastdial, nextQid, reserved, queue, wire, rl, ex, chan, ntok, srvSent, assigned>>

Close ==
    /\ ~tclosed /\ tclosed' = TRUE
    /\ dcancel' = [c \in Conn |-> dcancel[c] \/ cst[c] = "dialing"]
    /\ cst' = [c \in Conn |-> IF pool[c] # "out" /\ cst[c] = "open" THEN "closed" ELSE cst[c]]
    /\ UNCHANGED <<pool, streams, dq, lastdial, nextQid, reserved, queue, wire, rl, ex, ctxdone, chan, ntok, srvSent, assigned>>

Next == \/ \E e \in Ex : Start(e) \/ Get(e) \/ Wake(e) \/ WaitCtx(e) \/ AddQueue(e) \/ Del(e) \/ Rel(e) \/ Deadline(e)
        \/ \E e \in Ex, ok \in BOOLEAN : Write(e, ok)
        \/ \E e \in Ex, k \in {"reply", "ctx", "conn"} : Ret(e, k)
        \/ \E c \in Conn, ok \in BOOLEAN : DialDone(c, ok)
        \/ \E c \in Conn, q \in Ids : ServerSend(c, q)
        \/ \E c \in Conn : (\E m \in wire[c] : Lookup(c, m)) \/ Send(c) \/ ReadErr(c)
        \/ Close

Spec == Init /\ [][Next]_vars

\* the code's own steps are fair; the server, the dialer and the network are not (they may stay silent for
\* ever): a deadline is what ends an exchange then, so deadlines are fair too
CodeNext == \/ \E e \in Ex : Get(e) \/ Wake(e) \/ WaitCtx(e) \/ AddQueue(e) \/ Del(e) \/ Rel(e) \/ Deadline(e)
            \/ \E e \in Ex : Write(e, FALSE)
            \/ \E e \in Ex, k \in {"reply", "ctx", "conn"} : Ret(e, k)
            \/ \E c \in Conn : DialDone(c, FALSE) \/ Send(c)
FairSpec == Spec /\ WF_vars(CodeNext) /\ \A e \in Ex : WF_vars(Deadline(e)) /\ WF_vars(Ret(e, "ctx")) /\ WF_vars(Write(e, FALSE))
                 /\ \A c \in Conn : WF_vars(DialDone(c, FALSE))

-----------------------------------------------------------------------------
\* C05: a returned reply was sent by the server on the connection the exchange used, with the wire ID this
\* attempt was assigned there; no reply satisfies two exchanges; IDs are never handed out twice on a connection
Inv_C05_Match == \A e \in Ex : ex[e].res = "reply" => <<ex[e].c, ex[e].qid, ex[e].got>> \in srvSent
Inv_C05_NoShare == \A a, b \in Ex : (a # b /\ ex[a].res = "reply" /\ ex[b].res = "reply") => ex[a].got # ex[b].got
Inv_C05_DistinctIds == \A x, y \in assigned : (x[1] = y[1] /\ x[2] = y[2]) => x = y
C05_NoReuse == [][\A c \in Conn : nextQid'[c] >= nextQid[c]]_vars
\* C14: bounded retry; a failure on a fresh connection is reported, not retried
Inv_C14_RetryBound == \A e \in Ex : ex[e].retry <= MaxRetry
C14_FreshReported == [][\A e \in Ex : (ex[e].pc = "rel" /\ ex[e].fresh /\ ex[e].err # "none") => ex'[e].pc \in {"rel", "done"}]_vars
\* ... a connection that has used up its IDs is retired as soon as nobody waits on it (it would otherwise sit in
\* the pool, unavailable, until its idle time-out)
Inv_C14_Retired == \A c \in Conn : (cst[c] = "open" /\ nextQid[c] > MaxId) => DOMAIN queue[c] # {}
\* C18: nothing is open once the transport is closed and no dial is pending, including dials that complete late
Inv_C18_NoLeak == (tclosed /\ \A c \in Conn : cst[c] # "dialing") => \A c \in Conn : cst[c] # "open"
C18_FailAfterClose == [][\A e \in Ex : (tclosed /\ ex[e].pc = "get") => (ex'[e].pc \in {"get"} \/ ex'[e].res = "closed")]_vars
\* structure
Inv_Streams == \A c \in Conn : (pool[c] = "busy" /\ cst[c] = "open") =>
                   streams[c] = Cardinality({e \in Ex : ex[e].c = c /\ (ex[e].pc \in {"add", "write", "sel", "del", "rel"}
                                                                           \/ (ex[e].pc = "wait" /\ DialOver(c)))})
Inv_QueueLive == \A c \in Conn : \A q \in DOMAIN queue[c] :
                   LET w == queue[c][q] IN ex[w[1]].c = c /\ ex[w[1]].qid = q /\ ex[w[1]].att = w[2] /\ ex[w[1]].pc \in {"write", "sel", "del"}
Inv_IdleNoStreams == \A c \in Conn : pool[c] = "idle" => streams[c] = 0
TypeOK == /\ tclosed \in BOOLEAN /\ \A c \in Conn : nextQid[c] \in 0..(MaxId + 1) /\ reserved[c] \in 0..(MaxStream + NEx)
          /\ lastdial \in 0..NConn
\* liveness: with deadlines, every exchange that was started ends
C14_Ends == \A e \in Ex : (ex[e].pc # "idle") ~> (ex[e].pc = "done")
=============================================================================
