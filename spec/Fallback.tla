------------------------------ MODULE Fallback ------------------------------
(* UDP upstream with TCP fallback on truncation (C16): udpWithFallback in     *)
(* internal/upstream/upstream.go.                                             *)
EXTENDS Naturals, TLC

CONSTANTS UdpOutcomes,   \* {"ok", "tc", "drop"}: reply without TC / reply with TC / no usable reply
          TcpOutcomes    \* {"ok", "abort", "drop"}

VARIABLES stage,    \* "start" | "udp" | "tcp" | "done"
          udpO, tcpO,   \* what the server does on each leg (chosen at start)
          tcpTried,
          result    \* "none" | "udp-reply" | "tcp-reply" | "error"
vars == <<stage, udpO, tcpO, tcpTried, result>>

\* the function the implementation must compute
Result(u, t) == IF u = "ok" THEN "udp-reply"
                ELSE IF u = "drop" THEN "error"
                ELSE IF t = "ok" THEN "tcp-reply" ELSE "error"
TcpExpected(u) == u = "tc"

Init == stage = "start" /\ udpO \in UdpOutcomes /\ tcpO \in TcpOutcomes /\ tcpTried = FALSE /\ result = "none"

UdpExchange == /\ stage = "start" /\ stage' = "udp" /\ UNCHANGED <<udpO, tcpO, tcpTried, result>>
UdpReturns == /\ stage = "udp"
              /\ IF udpO = "ok" THEN stage' = "done" /\ result' = "udp-reply" /\ UNCHANGED tcpTried
                 ELSE IF udpO = "drop" THEN stage' = "done" /\ result' = "error" /\ UNCHANGED tcpTried
                 ELSE stage' = "tcp" /\ tcpTried' = TRUE /\ UNCHANGED result      \* TC: the UDP message is released, never returned
              /\ UNCHANGED <<udpO, tcpO>>
TcpReturns == /\ stage = "tcp" /\ stage' = "done"
              /\ result' = IF tcpO = "ok" THEN "tcp-reply" ELSE "error"
              /\ UNCHANGED <<udpO, tcpO, tcpTried>>
Next == UdpExchange \/ UdpReturns \/ TcpReturns
Spec == Init /\ [][Next]_vars /\ WF_vars(Next)

Inv_C16_NeverTruncated == result = "udp-reply" => udpO = "ok"
Inv_C16_NoSpuriousTcp == tcpTried => udpO = "tc"
Inv_C16_Outcome == stage = "done" => result = Result(udpO, tcpO)
C16_Terminates == <>(stage = "done")
=============================================================================
