------------------------------ MODULE ReuseStep ------------------------------
(***************************************************************************)
(* The one-at-a-time transport (internal/upstream/transport/               *)
(* reuse_transport.go) step by step - a refinement of Reuse.tla that has   *)
(* one action per critical section / channel operation of the code, so     *)
(* that its behaviours can be replayed into the real transport under a     *)
(* gate scheduler (like QuicXport):                                        *)
(*   GetIdle(e)     getIdleConn under t.m (closed / take an idle conn,     *)
(*                  skipping closed ones / none: asyncDial starts)         *)
(*   DialDone(c,ok) DialContext returned; newReusableConn + exitIdle       *)
(*   Register(c)    asyncDial under t.m: register or close (late dial)     *)
(*   Deliver(c)     asyncDial's select: hand over, or the caller is gone   *)
(*   DialCtx(e)     the caller's select in asyncDial takes ctx.Done        *)
(*   Write(c,ok) Read(c,ok) Send(c)   the exchange goroutine               *)
(*   Rel1(c) Rel2(c)   releaseConn: conn-level step, then under t.m        *)
(*   Take(e) GiveUp(e) the caller's select in exchangeConnCtx              *)
(*   IdleTimer(c)   closeIfIdle                                            *)
(*   Close          Close under t.m                                        *)
(* Environment: Abort(c) (server resets), Deadline(e).                     *)
(***************************************************************************)
EXTENDS Naturals, Sequences, FiniteSets, TLC

CONSTANTS Ex, NConn, MaxRetry,
          BugEarlyIdle,    \* sensitivity: a connection whose read failed goes back to the idle set
          BugLateDialLeak, \* sensitivity: a dial that completes after Close is dropped without closing the connection
          BugStrayDial     \* sensitivity: a dial whose caller has left drops the connection instead of releasing it

Conn == 1..NConn
NoG == [st |-> "none", ex |-> 0, ok |-> FALSE, got |-> 0]

VARIABLES tclosed, conns, idle,
          serving, rclosed,   \* reusableConn.serving / .closed
          sock,               \* "none" | "open" | "closed"   (the net.Conn)
          aborted,            \* the server reset the connection
          pipe,               \* exchanges whose replies are still owed on the stream, oldest first
          dirty,              \* a read failed: stream position unknown
          ndial,
          dial,               \* per conn: the asyncDial goroutine  [st, ex, ok]
          wk,                 \* per conn: the exchange goroutine   [st, ex, ok, got]
          box,                \* per exchange: result channel  [full, ok, got]
          pc, econn, fresh, retry, res, ctxdone
vars == <<tclosed, conns, idle, serving, rclosed, sock, aborted, pipe, dirty, ndial, dial, wk, box,
          pc, econn, fresh, retry, res, ctxdone>>

EmptyBox == [full |-> FALSE, ok |-> FALSE, got |-> 0]
Init == /\ tclosed = FALSE /\ conns = {} /\ idle = {}
        /\ serving = [c \in Conn |-> FALSE] /\ rclosed = [c \in Conn |-> FALSE]
        /\ sock = [c \in Conn |-> "none"] /\ aborted = [c \in Conn |-> FALSE]
        /\ pipe = [c \in Conn |-> <<>>] /\ dirty = [c \in Conn |-> FALSE] /\ ndial = 0
        /\ dial = [c \in Conn |-> NoG] /\ wk = [c \in Conn |-> NoG]
        /\ box = [e \in Ex |-> EmptyBox]
        /\ pc = [e \in Ex |-> "idle"] /\ econn = [e \in Ex |-> 0] /\ fresh = [e \in Ex |-> FALSE]
        /\ retry = [e \in Ex |-> 0] /\ res = [e \in Ex |-> "none"] /\ ctxdone = [e \in Ex |-> FALSE]

Finish(e, r) == pc' = [pc EXCEPT ![e] = "done"] /\ res' = [res EXCEPT ![e] = r]
StartWorker(c, e) == wk' = [wk EXCEPT ![c] = [st |-> "write", ex |-> e, ok |-> FALSE, got |-> 0]]

Start(e) == /\ pc[e] = "idle" /\ pc' = [pc EXCEPT ![e] = "get"]
            /\ UNCHANGED <<tclosed, conns, idle, serving, rclosed, sock, aborted, pipe, dirty, ndial, dial, wk, box, econn, fresh, retry, res, ctxdone>>

\* exitIdle reports "closed" for a connection whose idle timer fired or whose socket was closed locally
Dead(c) == rclosed[c] \/ sock[c] # "open"

\* getIdleConn: one critical section. The map is walked in an arbitrary order: any set S of dead idle
\* connections may be met (and forgotten) before a live one is taken; with no live one all are forgotten.
GetIdle(e) ==
    /\ pc[e] = "get"
    /\ IF tclosed THEN Finish(e, "closed") /\ UNCHANGED <<conns, idle, serving, ndial, dial, wk, box, econn, fresh>>
       ELSE LET live == {c \in idle : ~Dead(c)}  dead == idle \ live IN
            IF live # {}
            THEN \E c \in live : \E S \in SUBSET dead :
                   /\ idle' = idle \ (S \cup {c}) /\ conns' = conns \ S
                   /\ serving' = [serving EXCEPT ![c] = TRUE]
                   /\ econn' = [econn EXCEPT ![e] = c] /\ fresh' = [fresh EXCEPT ![e] = FALSE]
                   /\ StartWorker(c, e) /\ box' = [box EXCEPT ![e] = EmptyBox]
                   /\ pc' = [pc EXCEPT ![e] = "xwait"] /\ UNCHANGED <<ndial, dial, res>>
            ELSE /\ ndial < NConn
                 /\ idle' = {} /\ conns' = conns \ dead
                 /\ ndial' = ndial + 1
                 /\ dial' = [dial EXCEPT ![ndial + 1] = [st |-> "dialing", ex |-> e, ok |-> FALSE, got |-> 0]]
                 /\ pc' = [pc EXCEPT ![e] = "dialwait"]
                 /\ UNCHANGED <<serving, wk, box, econn, fresh, res>>
    /\ UNCHANGED <<tclosed, rclosed, sock, aborted, pipe, dirty, retry, ctxdone>>

DialDone(c, ok) ==
    /\ dial[c].st = "dialing"
    /\ IF ok THEN /\ sock' = [sock EXCEPT ![c] = "open"] /\ serving' = [serving EXCEPT ![c] = TRUE]
                  /\ dial' = [dial EXCEPT ![c].st = "register", ![c].ok = TRUE]
             ELSE /\ dial' = [dial EXCEPT ![c].st = "deliver", ![c].ok = FALSE] /\ UNCHANGED <<sock, serving>>
    /\ UNCHANGED <<tclosed, conns, idle, rclosed, aborted, pipe, dirty, ndial, wk, box, pc, econn, fresh, retry, res, ctxdone>>

Register(c) ==
    /\ dial[c].st = "register"
    /\ IF tclosed
       THEN /\ IF BugLateDialLeak THEN UNCHANGED <<rclosed, sock>>
               ELSE rclosed' = [rclosed EXCEPT ![c] = TRUE] /\ sock' = [sock EXCEPT ![c] = "closed"]
            /\ dial' = [dial EXCEPT ![c].st = "deliver", ![c].ok = FALSE, ![c].got = 1]   \* got = 1: ErrClosedTransport
            /\ UNCHANGED conns
       ELSE /\ conns' = conns \cup {c} /\ dial' = [dial EXCEPT ![c].st = "deliver"] /\ UNCHANGED <<rclosed, sock>>
    /\ UNCHANGED <<tclosed, idle, serving, aborted, pipe, dirty, ndial, wk, box, pc, econn, fresh, retry, res, ctxdone>>

\* the dial goroutine's select: the caller takes the result, or the caller has left
Deliver(c) ==
    /\ dial[c].st = "deliver"
    /\ LET e == dial[c].ex IN
       IF pc[e] = "dialwait"
       THEN /\ IF dial[c].ok
               THEN /\ econn' = [econn EXCEPT ![e] = c] /\ fresh' = [fresh EXCEPT ![e] = TRUE]
                    /\ StartWorker(c, e) /\ box' = [box EXCEPT ![e] = EmptyBox]
                    /\ pc' = [pc EXCEPT ![e] = "xwait"] /\ UNCHANGED res
               ELSE /\ Finish(e, IF dial[c].got = 1 THEN "closed" ELSE "dialerr") /\ UNCHANGED <<econn, fresh, wk, box>>
            /\ dial' = [dial EXCEPT ![c].st = "end"]
       ELSE \* the caller returned on its context: a connection that was dialled is released as idle
            /\ dial' = [dial EXCEPT ![c].st = IF dial[c].ok /\ ~BugStrayDial THEN "rel1" ELSE "end"]
            /\ UNCHANGED <<econn, fresh, wk, box, pc, res>>
    /\ UNCHANGED <<tclosed, conns, idle, serving, rclosed, sock, aborted, pipe, dirty, ndial, retry, ctxdone>>

DialCtx(e) == /\ pc[e] = "dialwait" /\ ctxdone[e] /\ Finish(e, "ctx")
              /\ UNCHANGED <<tclosed, conns, idle, serving, rclosed, sock, aborted, pipe, dirty, ndial, dial, wk, box, econn, fresh, retry, ctxdone>>

Usable(c) == sock[c] = "open" /\ ~aborted[c]
Write(c, ok) ==
    /\ wk[c].st = "write" /\ (ok => Usable(c)) /\ (~ok => ~Usable(c))
    /\ IF ok THEN /\ pipe' = [pipe EXCEPT ![c] = Append(@, wk[c].ex)] /\ wk' = [wk EXCEPT ![c].st = "read"]
             ELSE /\ wk' = [wk EXCEPT ![c].st = "send", ![c].ok = FALSE] /\ UNCHANGED pipe
    /\ UNCHANGED <<tclosed, conns, idle, serving, rclosed, sock, aborted, dirty, ndial, dial, box, pc, econn, fresh, retry, res, ctxdone>>

\* ok: the next reply of the stream arrives; ~ok: response time-out, reset, or the socket was closed under us
Read(c, ok) ==
    /\ wk[c].st = "read" /\ (ok => (Usable(c) /\ pipe[c] # <<>>))
    /\ IF ok THEN /\ wk' = [wk EXCEPT ![c].st = "send", ![c].ok = TRUE, ![c].got = Head(pipe[c])]
                  /\ pipe' = [pipe EXCEPT ![c] = Tail(@)] /\ UNCHANGED dirty
             ELSE /\ wk' = [wk EXCEPT ![c].st = "send", ![c].ok = FALSE]
                  /\ dirty' = [dirty EXCEPT ![c] = TRUE] /\ UNCHANGED pipe
    /\ UNCHANGED <<tclosed, conns, idle, serving, rclosed, sock, aborted, ndial, dial, box, pc, econn, fresh, retry, res, ctxdone>>

Send(c) == /\ wk[c].st = "send"
           /\ box' = [box EXCEPT ![wk[c].ex] = [full |-> TRUE, ok |-> wk[c].ok, got |-> wk[c].got]]
           /\ wk' = [wk EXCEPT ![c].st = "rel1"]
           /\ UNCHANGED <<tclosed, conns, idle, serving, rclosed, sock, aborted, pipe, dirty, ndial, dial, pc, econn, fresh, retry, res, ctxdone>>

\* releaseConn, first half (the goroutine that owns the connection: the exchange goroutine, or the dial
\* goroutine whose caller left):  err -> rc.close(),  no err -> rc.enterIdle()
RelOk(c) == IF wk[c].st = "rel1" THEN (wk[c].ok \/ BugEarlyIdle) ELSE TRUE
Rel1(c) ==
    /\ (wk[c].st = "rel1" \/ dial[c].st = "rel1")
    /\ IF RelOk(c) THEN serving' = [serving EXCEPT ![c] = FALSE] /\ UNCHANGED <<rclosed, sock>>
       ELSE rclosed' = [rclosed EXCEPT ![c] = TRUE] /\ sock' = [sock EXCEPT ![c] = "closed"] /\ UNCHANGED serving
    /\ IF wk[c].st = "rel1" THEN wk' = [wk EXCEPT ![c].st = "rel2"] /\ UNCHANGED dial
       ELSE dial' = [dial EXCEPT ![c].st = "rel2"] /\ UNCHANGED wk
    /\ UNCHANGED <<tclosed, conns, idle, aborted, pipe, dirty, ndial, box, pc, econn, fresh, retry, res, ctxdone>>

\* second half, under t.m
Rel2(c) ==
    /\ (wk[c].st = "rel2" \/ dial[c].st = "rel2")
    /\ LET ok == IF wk[c].st = "rel2" THEN (wk[c].ok \/ BugEarlyIdle) ELSE TRUE IN
       IF tclosed THEN /\ IF ok THEN rclosed' = [rclosed EXCEPT ![c] = TRUE] /\ sock' = [sock EXCEPT ![c] = "closed"]
                             ELSE UNCHANGED <<rclosed, sock>>
                       /\ UNCHANGED <<conns, idle>>
       ELSE /\ IF ok THEN idle' = idle \cup {c} /\ UNCHANGED conns ELSE conns' = conns \ {c} /\ UNCHANGED idle
            /\ UNCHANGED <<rclosed, sock>>
    /\ IF wk[c].st = "rel2" THEN wk' = [wk EXCEPT ![c] = NoG] /\ UNCHANGED dial
       ELSE dial' = [dial EXCEPT ![c].st = "end"] /\ UNCHANGED wk
    /\ UNCHANGED <<tclosed, serving, aborted, pipe, dirty, ndial, box, pc, econn, fresh, retry, res, ctxdone>>

Take(e) ==
    /\ pc[e] = "xwait" /\ box[e].full
    /\ IF box[e].ok THEN Finish(e, IF box[e].got = e THEN "ok" ELSE "foreign") /\ UNCHANGED retry
       ELSE IF ~fresh[e] /\ retry[e] < MaxRetry /\ ~ctxdone[e]
            THEN /\ retry' = [retry EXCEPT ![e] = @ + 1] /\ pc' = [pc EXCEPT ![e] = "get"] /\ UNCHANGED res
            ELSE Finish(e, "connerr") /\ UNCHANGED retry
    /\ UNCHANGED <<tclosed, conns, idle, serving, rclosed, sock, aborted, pipe, dirty, ndial, dial, wk, box, econn, fresh, ctxdone>>

GiveUp(e) == /\ pc[e] = "xwait" /\ ctxdone[e] /\ Finish(e, "ctx")
             /\ UNCHANGED <<tclosed, conns, idle, serving, rclosed, sock, aborted, pipe, dirty, ndial, dial, wk, box, econn, fresh, retry, ctxdone>>

IdleTimer(c) == /\ sock[c] = "open" /\ ~serving[c] /\ ~rclosed[c]
                /\ rclosed' = [rclosed EXCEPT ![c] = TRUE] /\ sock' = [sock EXCEPT ![c] = "closed"]
                /\ UNCHANGED <<tclosed, conns, idle, serving, aborted, pipe, dirty, ndial, dial, wk, box, pc, econn, fresh, retry, res, ctxdone>>

Close == /\ ~tclosed /\ tclosed' = TRUE
         /\ sock' = [c \in Conn |-> IF c \in conns /\ sock[c] = "open" THEN "closed" ELSE sock[c]]
         /\ UNCHANGED <<conns, idle, serving, rclosed, aborted, pipe, dirty, ndial, dial, wk, box, pc, econn, fresh, retry, res, ctxdone>>

Abort(c) == /\ sock[c] = "open" /\ ~aborted[c] /\ aborted' = [aborted EXCEPT ![c] = TRUE]
            /\ UNCHANGED <<tclosed, conns, idle, serving, rclosed, sock, pipe, dirty, ndial, dial, wk, box, pc, econn, fresh, retry, res, ctxdone>>
Deadline(e) == /\ pc[e] \notin {"idle", "done"} /\ ~ctxdone[e] /\ ctxdone' = [ctxdone EXCEPT ![e] = TRUE]
               /\ UNCHANGED <<tclosed, conns, idle, serving, rclosed, sock, aborted, pipe, dirty, ndial, dial, wk, box, pc, econn, fresh, retry, res>>

Next == \/ \E e \in Ex : Start(e) \/ GetIdle(e) \/ DialCtx(e) \/ Take(e) \/ GiveUp(e) \/ Deadline(e)
        \/ \E c \in Conn : \E ok \in BOOLEAN : DialDone(c, ok) \/ Write(c, ok) \/ Read(c, ok)
        \/ \E c \in Conn : Register(c) \/ Deliver(c) \/ Send(c) \/ Rel1(c) \/ Rel2(c) \/ IdleTimer(c) \/ Abort(c)
        \/ Close
Spec == Init /\ [][Next]_vars
FairSpec == /\ Spec
            /\ \A e \in Ex : WF_vars(GetIdle(e)) /\ WF_vars(Take(e)) /\ WF_vars(DialCtx(e)) /\ WF_vars(GiveUp(e))
            /\ \A c \in Conn : /\ WF_vars(\E ok \in BOOLEAN : DialDone(c, ok)) /\ WF_vars(Register(c)) /\ WF_vars(Deliver(c))
                               /\ WF_vars(\E ok \in BOOLEAN : Write(c, ok)) /\ WF_vars(\E ok \in BOOLEAN : Read(c, ok))
                               /\ WF_vars(Send(c)) /\ WF_vars(Rel1(c)) /\ WF_vars(Rel2(c))
-----------------------------------------------------------------------------
Active(c) == wk[c].st \in {"write", "read", "send"}
\* C06: an exchange only ever returns its own reply
Inv_C06_OwnReply == \A e \in Ex : res[e] # "foreign"
\* C06: what the idle set offers is clean - nothing owed on the stream, no failed read - unless it is dead anyway
Inv_C06_CleanIdleStrict == \A c \in idle : ~Dead(c) => (pipe[c] = <<>> /\ ~dirty[c])
\* C06: a connection in the idle set is not being used
Inv_C06_IdleNotServing == \A c \in idle : ~Active(c)
\* C18: when everything has run down after Close, no socket of the transport is open
Quiet == \A c \in Conn : dial[c].st \in {"none", "end"} /\ wk[c].st = "none"
Inv_C18_NoLeak == (tclosed /\ Quiet) => \A c \in Conn : sock[c] # "open"
\* C06: when everything has run down, every connection that is still open is in the idle set (it can be
\* taken by the next exchange and its idle timer runs); nothing is open and forgotten
Inv_C06_NoStray == (Quiet /\ \A e \in Ex : pc[e] \notin {"get", "dialwait", "xwait"}) => \A c \in Conn : sock[c] = "open" => c \in idle
Busy(e) == pc[e] \in {"get", "dialwait", "xwait"}
C18_FailFast == \A e \in Ex : (tclosed /\ Busy(e)) ~> ~Busy(e)
=============================================================================
