------------------------------ MODULE RouterOps ------------------------------
(* Pure operators of the router specification: rule selection, response       *)
(* construction constants, cache lifetime and ageing, cache key, ECS option.  *)
(* Shared by the bounded model (Router.tla) and RouterTrace.                  *)
EXTENDS Naturals, Sequences, FiniteSets, DomainLines, DomainOps

ProxyUdpSize == 1200      \* the OPT the proxy adds advertises its own size and carries no option
Deadline == 6000          \* request deadline, ms
Slack == 1500             \* scheduling slack granted by C03/C14
ClockGran == 2000         \* cache clock granularity granted by C08
DefaultMaxTtl == 21600    \* 6 h

LowerName(n) == [i \in 1..Len(n) |-> LowerS(n[i])]

\* ---- rules (C10)
RuleHolds(r, sets, n) == r.set = "" \/ (Matches(sets[r.set], n) # r.rev)
FirstMatch(rules, sets, n) ==
    IF \E i \in 1..Len(rules) : RuleHolds(rules[i], sets, n)
    THEN CHOOSE i \in 1..Len(rules) : RuleHolds(rules[i], sets, n) /\ \A j \in 1..(i - 1) : ~RuleHolds(rules[j], sets, n)
    ELSE 0
Decide(rules, sets, n) ==
    LET i == FirstMatch(rules, sets, n) IN
    IF i = 0 THEN [kind |-> "refused", rcode |-> 5, up |-> "", idx |-> 0]
    ELSE IF rules[i].reject > 0 THEN [kind |-> "reject", rcode |-> rules[i].reject, up |-> "", idx |-> i]
    ELSE IF rules[i].fwd = "" THEN [kind |-> "refused", rcode |-> 5, up |-> "", idx |-> i]
    ELSE [kind |-> "forward", rcode |-> 0, up |-> rules[i].fwd, idx |-> i]

\* ---- 32-bit values are logged as <<hi16, lo16>>
Le32(a, b) == a[1] < b[1] \/ (a[1] = b[1] /\ a[2] <= b[2])

\* ---- cache lifetime (C08), in seconds, from the upstream's reply as the scripted server describes it
Min2(a, b) == IF a < b THEN a ELSE b
Max2(a, b) == IF a > b THEN a ELSE b
SetMin(S) == CHOOSE x \in S : \A y \in S : x <= y
RrTtls(u) == IF u.rcode = 0 /\ ~u.nodata THEN {u.ttls[i] : i \in 1..Len(u.ttls)}
             ELSE IF u.soa THEN {u.ttl} ELSE {}
LifetimeS(u, maxttl) ==
    LET T == RrTtls(u)
        cap == IF maxttl <= 0 THEN DefaultMaxTtl ELSE maxttl
        base == IF u.rcode = 3 THEN (IF T = {} THEN 30 ELSE Min2(30, SetMin(T)))
                ELSE IF u.rcode = 2 THEN (IF T = {} THEN 1 ELSE Min2(1, SetMin(T)))
                ELSE IF u.rcode = 0 THEN (IF T = {} THEN 30 ELSE SetMin(T))
                ELSE (IF T = {} THEN 5 ELSE Min2(5, SetMin(T)))
    IN Min2(base, cap)
LifetimeMs(u, maxttl) == 1000 * LifetimeS(u, maxttl)

\* the store event (hook) that put token tok into the cache, if any
StoreOfTok(stores, tok) ==
    LET hits == {<<k, i>> \in UNION {{<<k, i>> : i \in 1..Len(stores[k])} : k \in DOMAIN stores} : stores[k][i].tok = tok} IN
    IF hits = {} THEN [found |-> FALSE, stored |-> 0]
    ELSE LET h == CHOOSE h \in hits : \A g \in hits : stores[h[1]][h[2]].stored <= stores[g[1]][g[2]].stored
         IN [found |-> TRUE, stored |-> stores[h[1]][h[2]].stored]

\* ---- cache key (C07): name in wire form (no root octet), class, type, client group label
RECURSIVE NameWire(_)
NameWire(n) == IF n = <<>> THEN <<>> ELSE <<Len(Head(n))>> \o Head(n) \o NameWire(Tail(n))
U16(v) == <<v \div 256, v % 256>>
KeyBytes(name, cls, typ, mark) == NameWire(name) \o U16(cls) \o U16(typ) \o mark

\* ---- EDNS Client Subnet option sent upstream (C12)
IsMappedA(a) == a.fam = 6 /\ (\A i \in 1..10 : a.o[i] = 0) /\ a.o[11] = 255 /\ a.o[12] = 255
UnmapA(a) == IF IsMappedA(a) THEN [fam |-> 4, o |-> <<a.o[13], a.o[14], a.o[15], a.o[16]>>] ELSE a
EcsOption(a) == LET u == UnmapA(a) IN
    IF u.fam = 4 THEN [fam |-> 1, src |-> 24, scope |-> 0, addr |-> SubSeq(u.o, 1, 3)]
    ELSE [fam |-> 2, src |-> 56, scope |-> 0, addr |-> SubSeq(u.o, 1, 7)]
=============================================================================
