-------------------------------- MODULE Peer --------------------------------
(***************************************************************************)
(* How peers are reached and authenticated (C17): the decision tables of   *)
(* internal/upstream/upstream.go + utils.go (dial target, TLS server name, *)
(* HTTP Host) and of app/router/tls.go (certificate acceptance, client     *)
(* certificate verification).  Hosts are symbolic tokens; the harness maps *)
(* them to concrete strings and back.                                      *)
(***************************************************************************)
EXTENDS Naturals, FiniteSets, TLC

Schemes == {"", "udp", "tcp", "tcp+pipeline", "tls", "tls+pipeline", "https", "http", "h3", "quic"}
UrlHosts == {"v4", "v6", "v6long", "dom"}          \* IPv4, [IPv6] compressed / expanded upper-case form, domain name
UrlPorts == {0, 5353}                               \* 0 = none given
DialForms == {"none", "v4", "v4port", "v6", "v6port", "dom", "domport", "unix"}
DialPort == 5454

DefaultPort(s) == IF s \in {"", "udp", "tcp", "tcp+pipeline"} THEN 53
                  ELSE IF s \in {"tls", "tls+pipeline", "quic"} THEN 853
                  ELSE IF s \in {"https", "h3"} THEN 443 ELSE 80
Datagram(s) == s \in {"", "udp", "h3", "quic"}
StreamBased(s) == s \in {"tcp", "tcp+pipeline", "tls", "tls+pipeline", "https", "http"}
UsesTls(s) == s \in {"tls", "tls+pipeline", "https", "h3", "quic"}
UsesHttp(s) == s \in {"https", "http", "h3"}

\* both textual shapes of the IPv6 URL host denote the same address
HostOfUrl(h) == IF h = "v6long" THEN "v6" ELSE h
DialHost(d) == IF d \in {"v4", "v4port"} THEN "dialv4" ELSE IF d \in {"v6", "v6port"} THEN "dialv6" ELSE "dialdom"
DialHasPort(d) == d \in {"v4port", "v6port", "domport"}

\* the socket-level target
Target(s, h, p, d) ==
    IF d = "none" THEN [net |-> IF Datagram(s) THEN "udp" ELSE "tcp", host |-> HostOfUrl(h), port |-> IF p = 0 THEN DefaultPort(s) ELSE p]
    ELSE IF d = "unix" THEN [net |-> "unix", host |-> "unix", port |-> 0]
    ELSE [net |-> IF Datagram(s) THEN "udp" ELSE "tcp", host |-> DialHost(d),
          port |-> IF DialHasPort(d) THEN DialPort ELSE DefaultPort(s)]
\* concrete addresses the harness uses for the tokens (both domain names resolve to the same loopback address)
HostIp(t) == IF t = "v4" THEN "127.0.0.2" ELSE IF t = "dialv4" THEN "127.0.0.3"
             ELSE IF t = "v6" THEN "2001:db8::5" ELSE IF t = "dialv6" THEN "2001:db8::9"
             ELSE IF t = "unix" THEN "@verifsock" ELSE "127.0.0.1"
\* "@name" is defined for stream based upstreams only
RowDefined(s, h, p, d) == d = "unix" => StreamBased(s)

\* TLS server name and HTTP Host derive from the URL host, never from dial_addr
Sni(s, h, p, d) == HostOfUrl(h)
HttpHostPort(s, h, p, d) == p

Rows == {r \in [s : Schemes, h : UrlHosts, p : UrlPorts, d : DialForms] : RowDefined(r.s, r.h, r.p, r.d)}

\* sanity of the table itself
ASSUME \A r \in Rows : Target(r.s, r.h, r.p, r.d).port \in {53, 853, 443, 80, 5353, DialPort, 0}
ASSUME \A r \in Rows : \A d2 \in DialForms : Sni(r.s, r.h, r.p, r.d) = Sni(r.s, r.h, r.p, d2)

-----------------------------------------------------------------------------
(* certificate decisions *)
CertKinds == {"valid", "wrongname", "otherca", "expired", "selfsigned", "sysca"}
\* upstream side: accepted iff verification is disabled, or the chain ends in the configured CA, the name
\* matches the server name and the certificate is inside its validity period. "sysca" is a correctly named,
\* valid certificate issued under a root of the platform's trust store: with a CA configured it is NOT accepted
\* (the configured CA replaces the platform's roots), without one it is
TlsAccept(cert, caSet, skip) == skip \/ (caSet /\ cert = "valid") \/ (~caSet /\ cert = "sysca")
ClientCerts == {"none", "fromca", "otherca", "sysca"}
\* listener side: with verify_client_cert a query is served only to a client presenting a certificate from the CA
Serve(clientCert, verify) == ~verify \/ clientCert = "fromca"
=============================================================================
