------------------------------ MODULE Reuse_MC ------------------------------
EXTENDS Reuse
CONSTANTS c1, c2, e1, e2, e3
mc_Conn == {c1, c2}
mc_Ex == {e1, e2, e3}
mc_Ex2 == {e1, e2}
Sym == Permutations(mc_Conn) \cup Permutations(mc_Ex)
=============================================================================
