---------------------------- MODULE LimiterTrace ----------------------------
(* Trace validation for C15 (virtual-time part): every call                  *)
(* ClientLimiter.AllowN(addr, now, n) recorded by limdrv is replayed on the  *)
(* bucket model; decisions must be equal, the admitted cost must respect the *)
(* budget bound in every window, and only the caller's subnet is charged.    *)
EXTENDS TraceBase, LimiterOps

VARIABLES l, cfg, bucket, adm, seen, glob
tvars == <<l, cfg, bucket, adm, seen, glob>>
EntryTtl == 60000   \* entryTtl (one minute) in trace time units

NoCfg == [limit |-> 0, burst |-> 0, v4 |-> 0, v6 |-> 0, glimit |-> 0]
Init == l = 1 /\ cfg = NoCfg /\ bucket = <<>> /\ adm = <<>> /\ seen = <<>> /\ glob = Full(0, 0) /\ InitMark

IsEvent(e) == l <= Len(Trace) /\ Trace[l].ev = e /\ l' = l + 1 /\ Mark(l)

\* ClientLimiterOpts.setDefault as the property states it: burst defaults to the rate
EffBurst(c) == IF c.burst <= 0 THEN c.limit ELSE c.burst
RateOf(c) == c.limit      \* tokens per second = milli-tokens per millisecond

NewCfg == /\ IsEvent("lim.cfg")
          /\ cfg' = [limit |-> Trace[l].limit, burst |-> Trace[l].burst, v4 |-> Trace[l].v4, v6 |-> Trace[l].v6,
                      glimit |-> IF Has(Trace[l], "glimit") THEN Trace[l].glimit ELSE 0]
          /\ bucket' = <<>> /\ adm' = <<>> /\ seen' = <<>>
          /\ glob' = Full(IF Has(Trace[l], "glimit") THEN Trace[l].glimit ELSE 0, IF Has(Trace[l], "t") THEN Trace[l].t ELSE 0)

BucketOf(k, t) == IF k \in DOMAIN bucket THEN bucket[k] ELSE Full(EffBurst(cfg), t)

\* budget over the windows ending at the newest admitted event (older windows were checked before)
RECURSIVE SumTail(_, _, _)
SumTail(s, k, i) == IF i > Len(s) THEN 0 ELSE (IF s[i].k = k THEN s[i].n ELSE 0) + SumTail(s, k, i + 1)
BudgetNewest(s) == LET j == Len(s) IN
    \A i \in 1..j : s[i].k = s[j].k =>
        SumTail(s, s[j].k, i) * 1000 <= EffBurst(cfg) * 1000 + RateOf(cfg) * (s[j].t - s[i].t)
Keep == 48
Trunc(s) == IF Len(s) > Keep THEN SubSeq(s, Len(s) - Keep + 1, Len(s)) ELSE s

Call == /\ IsEvent("lim.v")
        /\ LET ev == Trace[l]
               k == KeyM(ev.addr, cfg.v4, cfg.v6)
               bk == BucketOf(k, ev.t)
               specOk == Allows(bk, RateOf(cfg), EffBurst(cfg), ev.t, ev.n)
               adm2 == IF ev.res THEN Append(adm, [k |-> k, t |-> ev.t, n |-> ev.n]) ELSE adm
           IN /\ Report(l, (IF ev.res # specOk
                              THEN {IF ev.res THEN "Inv_C15_Decision_overAdmit" ELSE "Inv_C15_Isolation_refusedWithinBudget"}
                              ELSE {})
                           \cup (IF ev.res /\ ~BudgetNewest(adm2) THEN {"Inv_C15_Budget"} ELSE {}))
              \* after a reported over-admission the model follows the code (the tokens are gone), so that one
              \* defect is reported once and not again at every later call of that subnet
              /\ bucket' = [x \in DOMAIN bucket \cup {k} |->
                              IF x # k THEN bucket[x]
                              ELSE IF ev.res /\ ~specOk
                                   THEN [tokens |-> LET r == Refilled(bk, RateOf(cfg), EffBurst(cfg), ev.t)
                                                    IN IF r > ev.n * 1000 THEN r - ev.n * 1000 ELSE 0, last |-> ev.t]
                                   ELSE After(bk, RateOf(cfg), EffBurst(cfg), ev.t, ev.n)]
              /\ seen' = [x \in DOMAIN seen \cup {k} |-> IF x = k THEN ev.t ELSE seen[x]]
              /\ adm' = Trunc(adm2)
        /\ UNCHANGED <<cfg, glob>>

\* ClientLimiter.gc at time t: the specification forgets exactly the buckets whose forgetting cannot be
\* observed (idle for more than a minute AND full again); a bucket the code forgets although it is in use
\* or not yet refilled shows up as an over-admission at its next call.
Gc == /\ IsEvent("lim.gc")
      /\ LET t == Trace[l].t
             drop == {k \in DOMAIN bucket : t - seen[k] > EntryTtl
                                           /\ Refilled(bucket[k], RateOf(cfg), EffBurst(cfg), t) = EffBurst(cfg) * 1000}
         IN /\ bucket' = [x \in DOMAIN bucket \ drop |-> bucket[x]]
            /\ seen' = [x \in DOMAIN seen \ drop |-> seen[x]]
      /\ UNCHANGED <<cfg, adm, glob>>

\* the router's resource limiter (app/router/limiter.go): the shared global bucket (rate = burst = glimit) is
\* asked first; a query it refuses does not touch the client's bucket, so a subnet within its own budget is
\* refused only while the GLOBAL budget is exhausted. res: "ok" | "global" | "client"
RCall == /\ IsEvent("lim.r")
         /\ LET ev == Trace[l]
                k == KeyM(ev.addr, cfg.v4, cfg.v6)
                bk == BucketOf(k, ev.t)
                gOk == cfg.glimit = 0 \/ Allows(glob, cfg.glimit, cfg.glimit, ev.t, ev.n)
                cOk == Allows(bk, RateOf(cfg), EffBurst(cfg), ev.t, ev.n)
                want == IF ~gOk THEN "global" ELSE IF ~cOk THEN "client" ELSE "ok"
            IN /\ Report(l, IF ev.res = want THEN {}
                             ELSE IF ev.res = "ok" THEN {"Inv_C15_Decision_overAdmit"} ELSE {"Inv_C15_Isolation_refusedWithinBudget"})
               /\ glob' = IF cfg.glimit = 0 THEN glob ELSE After(glob, cfg.glimit, cfg.glimit, ev.t, ev.n)
               /\ bucket' = IF gOk THEN [x \in DOMAIN bucket \cup {k} |-> IF x = k THEN After(bk, RateOf(cfg), EffBurst(cfg), ev.t, ev.n) ELSE bucket[x]]
                             ELSE bucket
               /\ seen' = IF gOk THEN [x \in DOMAIN seen \cup {k} |-> IF x = k THEN ev.t ELSE seen[x]] ELSE seen
         /\ UNCHANGED <<cfg, adm>>

Next == NewCfg \/ Call \/ Gc \/ RCall
Spec == Init /\ [][Next]_tvars
Post == Consumed
=============================================================================
