----------------------------- MODULE NetList_MC -----------------------------
(* Exhaustive comparison of the coded table with the declarative one, and the *)
(* stimulus generator for the replay into the real code (STIM lines).         *)
EXTENDS NetList, TLC, Json
CONSTANTS U, Labels, MaxRanges, Emit, Pick
Range == [s : 0..U, e : 0..U, v : Labels]
Lists == UNION {[1..n -> Range] : n \in 0..MaxRanges}
VARIABLE rs
Init == rs \in Lists
Next == UNCHANGED rs
Spec == Init /\ [][Next]_rs

Perms(n) == {f \in [1..n -> 1..n] : \A i, j \in 1..n : i # j => f[i] # f[j]}
Sorts(x) == {s \in {[i \in 1..Len(x) |-> x[f[i]]] : f \in Perms(Len(x))} : \A i \in 1..Len(s) - 1 : s[i].s <= s[i + 1].s}
\* for valid ranges: every sorting the library may produce gives the declarative verdict and lookups
Inv_C07_NetEquiv ==
    AllValid(rs) => \A s \in Sorts(rs) :
        /\ NeighboursOverlap(s) <=> ~BuildOk(rs)
        /\ BuildOk(rs) => \A a \in 0..U : LookupC(s, a) = LookupD(rs, a)
\* the sensitivity variant: Lookup that trusts the neighbour test `end > next.start` (touching ranges accepted)
Inv_TouchingAccepted ==
    AllValid(rs) => \A s \in Sorts(rs) : (\E i \in 1..Len(s) - 1 : s[i].e > s[i + 1].s) <=> ~BuildOk(rs)

Weight(x) == LET RECURSIVE W(_)
                 W(i) == IF i > Len(x) THEN 0 ELSE x[i].s * 7 + x[i].e * 3 + i + W(i + 1)
             IN W(1)
EmitStim == (Emit /\ Weight(rs) % 5 = Pick) => PrintT(<<"STIM", ToJson(rs)>>)
=============================================================================
