----------------------------- MODULE Framing_MC -----------------------------
EXTENDS Framing, Json, SequencesExt
mc_Body2 == <<1, 2>>
mc_Body3 == <<2, 1, 2>>
\* stimulus: every set of cut-point classes (frame, kind) for three frames
CutPoints == {[f |-> f, k |-> k] : f \in 1..3, k \in 1..4}
ASSUME PrintT(<<"CUTSETS", ToJson([i \in 1..Cardinality(SUBSET CutPoints) |-> SetToSeq(SetToSeq(SUBSET CutPoints)[i])])>>)
=============================================================================
