SPECIFICATION Spec
CONSTANTS
  Labels <- mc_Labels4
  MaxDepth = 2
  MaxAdds = 3
  KeyMode <- mc_Exact
  Subsume = TRUE
VIEW view
INVARIANTS EmitStim
CHECK_DEADLOCK FALSE
