--------------------------- MODULE ReuseStepReplay ---------------------------
(* Behaviours of ReuseStep for replay into the real ReuseConnTransport: TLC    *)
(* runs in simulation mode and prints, for every state of a random behaviour,  *)
(* all outgoing edges (<<"E", state, action, successor>> with the state        *)
(* projected on what the harness can observe); the behaviour itself is the     *)
(* sequence of source states (lib/rpaths.py).                                  *)
EXTENDS ReuseStep, Json, Randomization

Proj == [tclosed |-> tclosed, inconns |-> [c \in Conn |-> c \in conns], inidle |-> [c \in Conn |-> c \in idle],
         serving |-> serving, rclosed |-> rclosed, sock |-> sock, aborted |-> aborted, ndial |-> ndial,
         dialst |-> [c \in Conn |-> dial[c].st], wkst |-> [c \in Conn |-> wk[c].st],
         npipe |-> [c \in Conn |-> Len(pipe[c])],
         boxfull |-> [e \in Ex |-> box[e].full],
         pc |-> pc, econn |-> econn, fresh |-> fresh, retry |-> retry, res |-> res, ctxdone |-> ctxdone]
Edge(a) == PrintT(<<"E", ToJson(Proj), ToJson(a), ToJson(Proj')>>)

\* the environment's steps are taken less often than the code's, so that random behaviours get deep
CodeStep == \/ \E e \in Ex : GetIdle(e) \/ DialCtx(e) \/ Take(e) \/ GiveUp(e)
            \/ \E c \in Conn : \E ok \in BOOLEAN : DialDone(c, ok) \/ Write(c, ok) \/ Read(c, ok)
            \/ \E c \in Conn : Register(c) \/ Deliver(c) \/ Send(c) \/ Rel1(c) \/ Rel2(c)
Rare == RandomElement(1..5) = 1 \/ ~ENABLED CodeStep

RNext == \/ \E e \in Ex : \/ ((e = 1 \/ Rare) /\ Start(e) /\ Edge([a |-> "Start", e |-> e]))
                           \/ (GetIdle(e) /\ Edge([a |-> "GetIdle", e |-> e]))
                           \/ (DialCtx(e) /\ Edge([a |-> "DialCtx", e |-> e]))
                           \/ (Take(e) /\ Edge([a |-> "Take", e |-> e]))
                           \/ (GiveUp(e) /\ Edge([a |-> "GiveUp", e |-> e]))
                           \/ (Rare /\ Deadline(e) /\ Edge([a |-> "Deadline", e |-> e]))
         \/ \E c \in Conn : \E ok \in BOOLEAN :
                           \/ (DialDone(c, ok) /\ Edge([a |-> "DialDone", c |-> c, ok |-> ok]))
                           \/ (Write(c, ok) /\ Edge([a |-> "Write", c |-> c, ok |-> ok]))
                           \/ (Read(c, ok) /\ Edge([a |-> "Read", c |-> c, ok |-> ok]))
         \/ \E c \in Conn : \/ (Register(c) /\ Edge([a |-> "Register", c |-> c]))
                            \/ (Deliver(c) /\ Edge([a |-> "Deliver", c |-> c]))
                            \/ (Send(c) /\ Edge([a |-> "Send", c |-> c]))
                            \/ (Rel1(c) /\ Edge([a |-> "Rel1", c |-> c]))
                            \/ (Rel2(c) /\ Edge([a |-> "Rel2", c |-> c]))
                            \/ (Rare /\ IdleTimer(c) /\ Edge([a |-> "IdleTimer", c |-> c]))
                            \/ (Rare /\ Abort(c) /\ Edge([a |-> "Abort", c |-> c]))
         \/ (Rare /\ Close /\ Edge([a |-> "Close"]))
REx == 1..3
RSpec == Init /\ [][RNext]_vars
=============================================================================
