SPECIFICATION Spec
CONSTANTS
  c1 = c1
  c2 = c2
  e1 = e1
  e2 = e2
  e3 = e3
  Conn <- mc_Conn
  Ex <- mc_Ex
  MaxRetry = 1
  BugEarlyRelease = TRUE
INVARIANTS TypeOK Inv_C06_OneOutstanding Inv_C06_CleanIdle Inv_C06_IdleNotServing Inv_C06_OwnReply Inv_C18_NoLeak
CHECK_DEADLOCK FALSE
