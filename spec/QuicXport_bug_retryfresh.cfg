SPECIFICATION Spec
CONSTANTS
  e1 = e1
  e2 = e2
  e3 = e3
  Ex <- mc_Ex2
  NConn = 3
  MaxRetry = 2
  DialMayFail = TRUE
  ServerFaults = TRUE
  Deadlines = TRUE
  BugNoSignal = FALSE
  BugRetryFresh = TRUE
  BugLateLeak = FALSE
INVARIANTS TypeOK Inv_SingleFlight Inv_C14_RetryBound Inv_C14_FreshReported Inv_C14_StaleSurvives Inv_C18_ClosedOnlyIfClosed Inv_C18_NoLeak


CHECK_DEADLOCK FALSE
