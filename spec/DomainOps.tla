------------------------------ MODULE DomainOps ------------------------------
(* Declarative semantics of domain sets (C11) and the text form of names.     *)
(* A label is a sequence of octets; a name is a sequence of labels in wire    *)
(* order; the root is <<>>.  No constants, no variables: shared by the        *)
(* bounded model (DomainSet), DomainTrace and RouterTrace.                    *)
EXTENDS Naturals, Sequences

(* Declarative semantics *)

IsLabelSuffix(s, n) ==
    /\ Len(s) <= Len(n)
    /\ \A i \in 1..Len(s) : s[i] = n[Len(n) - Len(s) + i]

IsPrintable(b) == \/ (b >= 97 /\ b <= 122) \/ (b >= 65 /\ b <= 90) \/ (b >= 48 /\ b <= 57) \/ b = 45

Digit(d) == 48 + d
EscByte(b) == IF IsPrintable(b) THEN <<b>>
              ELSE IF b = 46 THEN <<92, 46>>
              ELSE IF b = 92 THEN <<92, 92>>
              ELSE <<92, Digit(b \div 100), Digit((b \div 10) % 10), Digit(b % 10)>>

RECURSIVE EscLabel(_)
EscLabel(lb) == IF lb = <<>> THEN <<>> ELSE EscByte(Head(lb)) \o EscLabel(Tail(lb))

RECURSIVE ReadableFrom(_, _)
ReadableFrom(n, i) == IF i > Len(n) THEN <<>>
                      ELSE (IF i > 1 THEN <<46>> ELSE <<>>) \o EscLabel(n[i]) \o ReadableFrom(n, i + 1)

\* dotted non-FQDN text form; the root is "."
Readable(n) == IF n = <<>> THEN <<46>> ELSE ReadableFrom(n, 1)

EntryMatches(e, n) ==
    \/ e.kind = "full"   /\ e.name = n
    \/ e.kind = "domain" /\ IsLabelSuffix(e.name, n)
    \/ e.kind = "regexp" /\ e.text = Readable(n)   \* anchored literal patterns only

Matches(E, n) == \E e \in E : EntryMatches(e, n)

=============================================================================
