SPECIFICATION Spec
CONSTANTS
  c1 = c1
  c2 = c2
  e1 = e1
  e2 = e2
  Conn <- mc_Conn
  Ex <- mc_Ex
  LateDialClosed = FALSE
  NServers = 3
INVARIANTS Inv_C18_NoLeak Inv_C18_FailFast Inv_C18_StartErr
CHECK_DEADLOCK FALSE
