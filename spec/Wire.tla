-------------------------------- MODULE Wire --------------------------------
(***************************************************************************)
(* The DNS wire codec (C01, C02, C09, and the byte-level oracle of other   *)
(* trace specifications): an independent decoder written from RFC 1035     *)
(* with the limits internal/dnsmsg applies, the uncompressed and the       *)
(* compressing encoder, the advertised length, and the properties of a     *)
(* size-limited encoding.                                                  *)
(*                                                                         *)
(* A wire image is a sequence of octets (0..255); offsets are 0-based as   *)
(* in the RFC.  An abstract message is                                     *)
(*   [id, bits, qd, an, ns, ar]                                            *)
(*   question  [name, typ, cls]                                            *)
(*   record    [name, typ, cls, ttl, rd]   ttl = <<hi16, lo16>>            *)
(*   rd        sequence of parts  <<"b", octets>> | <<"n", name>>          *)
(*             (names inside RDATA are compared after decompression)       *)
(* A name is a sequence of labels, a label a non-empty sequence of octets. *)
(***************************************************************************)
EXTENDS Naturals, Sequences, FiniteSets

MaxHops == 126    \* maxCompressionPointers of name.go: the deepest chain a compressing encoder can write for a 255-octet name
Fail == [ok |-> FALSE]

U16At(b, off) == b[off + 1] * 256 + b[off + 2]
U32At(b, off) == <<U16At(b, off), U16At(b, off + 2)>>
Slice(b, off, n) == SubSeq(b, off + 1, off + n)

-----------------------------------------------------------------------------
(* Decoder *)

\* next = 0 means "no pointer followed yet" (a real next offset is >= 1)
RECURSIVE DecNameR(_, _, _, _, _, _)
DecNameR(b, cur, hops, acc, accLen, next) ==
    IF cur >= Len(b) THEN Fail
    ELSE LET c == b[cur + 1] IN
         IF c = 0 THEN [ok |-> TRUE, name |-> acc, next |-> IF hops = 0 THEN cur + 1 ELSE next]
         ELSE IF c < 64
              THEN IF cur + 1 + c > Len(b) \/ accLen + 1 + c + 1 > 255 THEN Fail
                   ELSE DecNameR(b, cur + 1 + c, hops, Append(acc, Slice(b, cur + 1, c)), accLen + 1 + c, next)
         ELSE IF c >= 192
              THEN IF cur + 1 >= Len(b) \/ hops + 1 > MaxHops THEN Fail
                   ELSE DecNameR(b, (c - 192) * 256 + b[cur + 2], hops + 1, acc, accLen,
                                 IF hops = 0 THEN cur + 2 ELSE next)
         ELSE Fail        \* prefixes 01 and 10 are reserved
DecName(b, off) == DecNameR(b, off, 0, <<>>, 0, 0)

DecQuestion(b, off) ==
    LET n == DecName(b, off) IN
    IF ~n.ok \/ n.next + 4 > Len(b) THEN Fail
    ELSE [ok |-> TRUE, next |-> n.next + 4,
          q |-> [name |-> n.name, typ |-> U16At(b, n.next), cls |-> U16At(b, n.next + 2)]]

NameTypes == {2, 5, 12}     \* NS CNAME PTR
RRok(n, typ, cls, ttl, rd, next) ==
    [ok |-> TRUE, next |-> next, rr |-> [name |-> n, typ |-> typ, cls |-> cls, ttl |-> ttl, rd |-> rd]]

\* RDATA by type; the declared RDLENGTH must be exactly what the typed decoder consumes
DecRdata(b, ro, rdl, typ) ==
    IF typ = 1 THEN (IF rdl # 4 \/ ro + 4 > Len(b) THEN Fail ELSE [ok |-> TRUE, rd |-> <<<<"b", Slice(b, ro, 4)>>>>, next |-> ro + 4])
    ELSE IF typ = 28 THEN (IF rdl # 16 \/ ro + 16 > Len(b) THEN Fail ELSE [ok |-> TRUE, rd |-> <<<<"b", Slice(b, ro, 16)>>>>, next |-> ro + 16])
    ELSE IF typ \in NameTypes
         THEN LET n == DecName(b, ro) IN
              IF ~n.ok \/ n.next - ro # rdl THEN Fail ELSE [ok |-> TRUE, rd |-> <<<<"n", n.name>>>>, next |-> n.next]
    ELSE IF typ = 15
         THEN IF ro + 2 > Len(b) THEN Fail
              ELSE LET n == DecName(b, ro + 2) IN
                   IF ~n.ok \/ n.next - ro # rdl THEN Fail
                   ELSE [ok |-> TRUE, rd |-> <<<<"b", Slice(b, ro, 2)>>, <<"n", n.name>>>>, next |-> n.next]
    ELSE IF typ = 6
         THEN LET n1 == DecName(b, ro) IN
              IF ~n1.ok THEN Fail
              ELSE LET n2 == DecName(b, n1.next) IN
                   IF ~n2.ok \/ n2.next + 20 > Len(b) \/ n2.next + 20 - ro # rdl THEN Fail
                   ELSE [ok |-> TRUE, rd |-> <<<<"n", n1.name>>, <<"n", n2.name>>, <<"b", Slice(b, n2.next, 20)>>>>, next |-> n2.next + 20]
    ELSE IF typ = 33
         THEN IF ro + 6 > Len(b) THEN Fail
              ELSE LET n == DecName(b, ro + 6) IN
                   IF ~n.ok \/ n.next - ro # rdl THEN Fail
                   ELSE [ok |-> TRUE, rd |-> <<<<"b", Slice(b, ro, 6)>>, <<"n", n.name>>>>, next |-> n.next]
    ELSE IF ro + rdl > Len(b) THEN Fail
         ELSE [ok |-> TRUE, rd |-> <<<<"b", Slice(b, ro, rdl)>>>>, next |-> ro + rdl]   \* carried byte for byte

DecRR(b, off) ==
    LET n == DecName(b, off) IN
    IF ~n.ok \/ n.next + 10 > Len(b) THEN Fail
    ELSE LET o == n.next
             typ == U16At(b, o)
             d == DecRdata(b, o + 10, U16At(b, o + 8), typ)
         IN IF ~d.ok THEN Fail
            ELSE RRok(n.name, typ, U16At(b, o + 2), U32At(b, o + 4), d.rd, d.next)

RECURSIVE DecQs(_, _, _, _)
DecQs(b, off, k, acc) == IF k = 0 THEN [ok |-> TRUE, next |-> off, items |-> acc]
                         ELSE LET r == DecQuestion(b, off) IN
                              IF ~r.ok THEN Fail ELSE DecQs(b, r.next, k - 1, Append(acc, r.q))
RECURSIVE DecRRs(_, _, _, _)
DecRRs(b, off, k, acc) == IF k = 0 THEN [ok |-> TRUE, next |-> off, items |-> acc]
                          ELSE LET r == DecRR(b, off) IN
                               IF ~r.ok THEN Fail ELSE DecRRs(b, r.next, k - 1, Append(acc, r.rr))

\* trailing octets after the last announced record are ignored (as every resolver does)
DecMsg(b) ==
    IF Len(b) < 12 THEN Fail
    ELSE LET qs == DecQs(b, 12, U16At(b, 4), <<>>) IN
         IF ~qs.ok THEN Fail
         ELSE LET an == DecRRs(b, qs.next, U16At(b, 6), <<>>) IN
              IF ~an.ok THEN Fail
              ELSE LET ns == DecRRs(b, an.next, U16At(b, 8), <<>>) IN
                   IF ~ns.ok THEN Fail
                   ELSE LET ar == DecRRs(b, ns.next, U16At(b, 10), <<>>) IN
                        IF ~ar.ok THEN Fail
                        ELSE [ok |-> TRUE, end |-> ar.next,
                              msg |-> [id |-> U16At(b, 0), bits |-> U16At(b, 2), qd |-> qs.items,
                                       an |-> an.items, ns |-> ns.items, ar |-> ar.items]]

-----------------------------------------------------------------------------
(* Lengths and the uncompressed encoder *)

RECURSIVE NameBody(_)
NameBody(n) == IF n = <<>> THEN <<>> ELSE <<Len(Head(n))>> \o Head(n) \o NameBody(Tail(n))
EncName(n) == NameBody(n) \o <<0>>
RECURSIVE NameLen(_)
NameLen(n) == IF n = <<>> THEN 1 ELSE 1 + Len(Head(n)) + NameLen(Tail(n))

PartLen(p) == IF p[1] = "b" THEN Len(p[2]) ELSE NameLen(p[2])
RECURSIVE RdLen(_)
RdLen(rd) == IF rd = <<>> THEN 0 ELSE PartLen(Head(rd)) + RdLen(Tail(rd))
QLen(q) == NameLen(q.name) + 4
RRLen(r) == NameLen(r.name) + 10 + RdLen(r.rd)
RECURSIVE SumLen(_, _)
SumLen(s, i) == IF i > Len(s) THEN 0 ELSE RRLen(s[i]) + SumLen(s, i + 1)
RECURSIVE SumQLen(_, _)
SumQLen(s, i) == IF i > Len(s) THEN 0 ELSE QLen(s[i]) + SumQLen(s, i + 1)
\* the advertised (uncompressed) length of a message
MsgLen(m) == 12 + SumQLen(m.qd, 1) + SumLen(m.an, 1) + SumLen(m.ns, 1) + SumLen(m.ar, 1)

E16(v) == <<v \div 256, v % 256>>
E32(p) == E16(p[1]) \o E16(p[2])
EncPart(p) == IF p[1] = "b" THEN p[2] ELSE EncName(p[2])
RECURSIVE EncRd(_)
EncRd(rd) == IF rd = <<>> THEN <<>> ELSE EncPart(Head(rd)) \o EncRd(Tail(rd))
EncQ(q) == EncName(q.name) \o E16(q.typ) \o E16(q.cls)
EncRR(r) == EncName(r.name) \o E16(r.typ) \o E16(r.cls) \o E32(r.ttl) \o E16(RdLen(r.rd)) \o EncRd(r.rd)
RECURSIVE EncQs(_, _)
EncQs(s, i) == IF i > Len(s) THEN <<>> ELSE EncQ(s[i]) \o EncQs(s, i + 1)
RECURSIVE EncRRs(_, _)
EncRRs(s, i) == IF i > Len(s) THEN <<>> ELSE EncRR(s[i]) \o EncRRs(s, i + 1)
EncHdr(m) == E16(m.id) \o E16(m.bits) \o E16(Len(m.qd)) \o E16(Len(m.an)) \o E16(Len(m.ns)) \o E16(Len(m.ar))
EncPlain(m) == EncHdr(m) \o EncQs(m.qd, 1) \o EncRRs(m.an, 1) \o EncRRs(m.ns, 1) \o EncRRs(m.ar, 1)

-----------------------------------------------------------------------------
(* The compressing encoder, as Name.pack builds its table: for every suffix  *)
(* of a name that starts at an offset < 0x4000 and is not yet in the table,  *)
(* remember the offset; a suffix found in the table is replaced by a pointer.*)
(* The key of a suffix is its wire form INCLUDING the leading length octet.  *)

\* state of the encoder: [w (bytes so far), tab (function key -> offset)];
\* k = TRUE: repaired key; k = FALSE: the key before the repair (first length octet missing, defect D3)
SuffixKey(n, k) == IF k THEN NameBody(n) ELSE Tail(NameBody(n))
RECURSIVE CNameR(_, _, _)
CNameR(st, n, k) ==
    IF n = <<>> THEN [st EXCEPT !.w = @ \o <<0>>]
    ELSE LET key == SuffixKey(n, k) IN
         IF key \in DOMAIN st.tab
         THEN [st EXCEPT !.w = @ \o <<192 + st.tab[key] \div 256, st.tab[key] % 256>>]
         ELSE LET off == Len(st.w)
                  t2 == IF off < 16384 THEN [x \in DOMAIN st.tab \cup {key} |-> IF x = key THEN off ELSE st.tab[x]] ELSE st.tab
              IN CNameR([w |-> st.w \o <<Len(Head(n))>> \o Head(n), tab |-> t2], Tail(n), k)

CPart(st, p, k) == IF p[1] = "b" THEN [st EXCEPT !.w = @ \o p[2]] ELSE CNameR(st, p[2], k)
RECURSIVE CRd(_, _, _)
CRd(st, rd, k) == IF rd = <<>> THEN st ELSE CRd(CPart(st, Head(rd), k), Tail(rd), k)
CQ(st, q, k) == LET s1 == CNameR(st, q.name, k) IN [s1 EXCEPT !.w = @ \o E16(q.typ) \o E16(q.cls)]
\* RDLENGTH is patched after the RDATA was written
CRR(st, r, k) ==
    LET s1 == CNameR(st, r.name, k)
        s2 == [s1 EXCEPT !.w = @ \o E16(r.typ) \o E16(r.cls) \o E32(r.ttl) \o <<0, 0>>]
        at == Len(s2.w)
        s3 == CRd(s2, r.rd, k)
        l == Len(s3.w) - at
    IN [s3 EXCEPT !.w = [i \in 1..Len(@) |-> IF i = at - 1 THEN l \div 256 ELSE IF i = at THEN l % 256 ELSE @[i]]]
RECURSIVE CQs(_, _, _, _)
CQs(st, s, i, k) == IF i > Len(s) THEN st ELSE CQs(CQ(st, s[i], k), s, i + 1, k)
RECURSIVE CRRs(_, _, _, _)
CRRs(st, s, i, k) == IF i > Len(s) THEN st ELSE CRRs(CRR(st, s[i], k), s, i + 1, k)
EncCompressedK(m, k) ==
    LET s0 == [w |-> EncHdr(m), tab |-> <<>>] IN
    CRRs(CRRs(CRRs(CQs(s0, m.qd, 1, k), m.an, 1, k), m.ns, 1, k), m.ar, 1, k).w
EncCompressed(m) == EncCompressedK(m, TRUE)

Encode(m, compress) == IF compress THEN EncCompressed(m) ELSE EncPlain(m)

-----------------------------------------------------------------------------
(* C02: what a correct (re-)encoding must satisfy *)
RoundTripOk(m, w) == LET d == DecMsg(w) IN d.ok /\ d.msg = m /\ d.end = Len(w)
PlainLenOk(m, w) == Len(w) = MsgLen(m)

(* C09: what a size-limited encoding w of m must satisfy *)
TcBit == 512
HasTc(bits) == (bits \div TcBit) % 2 = 1
IsOpt(r) == r.typ = 41
RECURSIVE IsSubseq(_, _, _, _)
IsSubseq(a, b, i, j) == IF i > Len(a) THEN TRUE ELSE IF j > Len(b) THEN FALSE
                        ELSE IF a[i] = b[j] THEN IsSubseq(a, b, i + 1, j + 1) ELSE IsSubseq(a, b, i, j + 1)
SeqToBagCount(s, x) == Cardinality({i \in 1..Len(s) : s[i] = x})
SubBag(a, b) == \A i \in 1..Len(a) : SeqToBagCount(a, a[i]) <= SeqToBagCount(b, a[i])
Limit(size) == IF size = 0 THEN 0 ELSE IF size < 512 THEN 512 ELSE size
Omitted(m, d) == Len(d.qd) < Len(m.qd) \/ Len(d.an) < Len(m.an) \/ Len(d.ns) < Len(m.ns) \/ Len(d.ar) < Len(m.ar)
BitsSansTc(bits) == IF HasTc(bits) THEN bits - TcBit ELSE bits
=============================================================================
