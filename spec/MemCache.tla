------------------------------ MODULE MemCache ------------------------------
(* The memory cache (internal/cache/mem.go) at the grain of its critical     *)
(* sections.  The cache maps a key to an ENTRY OBJECT; entry objects and the *)
(* buffers that hold their values are recycled through pools, and the        *)
(* underlying table (otter) tells the cache about a removed entry (replaced, *)
(* evicted, expired) only later, from its own goroutine.  A lookup therefore *)
(* may hold a pointer to an entry that is being released, or that already    *)
(* lives a second life under another key.  What the code does about it:      *)
(*   - the release takes the entry's write lock, the lookup TRIES the read   *)
(*     lock (a pending writer makes the lookup a miss);                      *)
(*   - under the read lock the lookup re-checks the entry's key and that it  *)
(*     still has a value, and copies the value before it drops the lock.     *)
(* C07: a hit returns bytes that were stored for the key that was asked.     *)
(*                                                                           *)
(* Grain: one action per lock operation / pool operation / table operation.  *)
(*   StoreBegin   vCopy := CopyBuf(v); e := newCacheEntry()                  *)
(*   StoreLock    e.l.Lock() is called (writer pending: TryRLock fails)      *)
(*   StoreFill    lock acquired (no reader left); fields set; Unlock         *)
(*   StoreSet     backend.Set / SetIfAbsent                                  *)
(*   GetLookup    backend.Get                                                *)
(*   GetTry       e.l.TryRLock()                                             *)
(*   GetCheck     e.v == nil || e.k != k                                     *)
(*   GetCopy      CopyBuf(e.v) (+ RUnlock)                                   *)
(*   Evict        the table drops a key (size, expiry)                       *)
(*   NotifyLock / NotifyRelease   the deletion listener: releaseEntry        *)
(* CONSTANT switches describe code that is NOT the repository's:             *)
(*   CopyUnderLock = FALSE   the value is copied after RUnlock               *)
(*   KeyRecheck    = FALSE   the lookup trusts the table's key               *)
(*   ReleaseLocks  = FALSE   releaseEntry does not wait for readers          *)
(*   NxAtomic      = FALSE   a store-if-absent (used for error responses)    *)
(*                           looks the key up first and then sets it         *)
EXTENDS Naturals, FiniteSets, TLC
CONSTANTS Key, Proc, Ent, Buf, MaxVer, CopyUnderLock, KeyRecheck, ReleaseLocks, NxAtomic

NoE == "noe"
NoB == "nob"
NoK == "nok"
Junk == [k |-> NoK, n |-> 0]
Tag == [k : Key, n : 1..MaxVer]
Blank == [k |-> NoK, e |-> NoE, b |-> NoB, nx |-> FALSE]

VARIABLES table,    \* Key -> Ent or NoE          (the otter hash map)
          ek, ev,   \* entry fields k, v
          lk,       \* Ent -> [w : {"no","wait","held"}, r : set of callers holding the read lock]   (sync.RWMutex)
          entFree,  \* entry pool
          bc,       \* Buf -> Tag or Junk         (what the buffer holds)
          bufFree,  \* buffer pool
          pend,     \* entries removed from the table whose listener call is still to come
          garb,     \* entries dropped by SetIfAbsent: garbage, never handed to the listener or to a pool
          bg,       \* entry the listener is releasing right now, or NoE
          ver,      \* Key -> number of Store calls started
          pc, loc, res
vars == <<table, ek, ev, lk, entFree, bc, bufFree, pend, garb, bg, ver, pc, loc, res>>

Init == /\ table = [k \in Key |-> NoE]
        /\ ek = [e \in Ent |-> NoK] /\ ev = [e \in Ent |-> NoB]
        /\ lk = [e \in Ent |-> [w |-> "no", r |-> {}]]
        /\ entFree = Ent /\ bufFree = Buf
        /\ bc = [b \in Buf |-> Junk]
        /\ pend = {} /\ garb = {} /\ bg = NoE
        /\ ver = [k \in Key |-> 0]
        /\ pc = [p \in Proc |-> "idle"]
        /\ loc = [p \in Proc |-> Blank]
        /\ res = [p \in Proc |-> Junk]

Goto(p, s) == pc' = [pc EXCEPT ![p] = s]
RUnlock(e, p) == lk' = [lk EXCEPT ![e].r = @ \ {p}]

\* ---- Store
StoreBegin(p, k, nx) ==
    /\ pc[p] = "idle" /\ ver[k] < MaxVer
    /\ ver' = [ver EXCEPT ![k] = @ + 1]
    /\ IF ~NxAtomic /\ nx /\ table[k] # NoE
       THEN UNCHANGED <<bufFree, entFree, bc, loc, pc>>       \* variant: "present" decided here
       ELSE /\ \E b \in bufFree, e \in entFree :
                 /\ bufFree' = bufFree \ {b} /\ entFree' = entFree \ {e}
                 /\ bc' = [bc EXCEPT ![b] = [k |-> k, n |-> ver[k] + 1]]
                 /\ loc' = [loc EXCEPT ![p] = [k |-> k, e |-> e, b |-> b, nx |-> nx]]
            /\ Goto(p, "s_lock")
    /\ UNCHANGED <<table, ek, ev, lk, pend, garb, bg, res>>

StoreLock(p) ==
    /\ pc[p] = "s_lock" /\ lk[loc[p].e].w = "no"
    /\ lk' = [lk EXCEPT ![loc[p].e].w = "wait"]
    /\ Goto(p, "s_fill")
    /\ UNCHANGED <<table, ek, ev, entFree, bc, bufFree, pend, garb, bg, ver, loc, res>>

StoreFill(p) ==
    LET e == loc[p].e IN
    /\ pc[p] = "s_fill" /\ lk[e].r = {}
    /\ ek' = [ek EXCEPT ![e] = loc[p].k] /\ ev' = [ev EXCEPT ![e] = loc[p].b]
    /\ lk' = [lk EXCEPT ![e].w = "no"]
    /\ Goto(p, "s_set")
    /\ UNCHANGED <<table, entFree, bc, bufFree, pend, garb, bg, ver, loc, res>>

\* Set: the old entry (if any) is out of the table at once, its listener call comes later.
\* SetIfAbsent on a present key: the new entry is dropped without a listener call. It is garbage, but a lookup
\* that still holds a pointer from the entry's previous life can lock and read it: it goes back to the model's
\* pools (= is allocated afresh) only when nothing refers to it any more (Collect).
StoreSet(p) ==
    LET e == loc[p].e  k == loc[p].k  nx == loc[p].nx /\ NxAtomic IN
    /\ pc[p] = "s_set"
    /\ IF nx /\ table[k] # NoE
       THEN garb' = garb \cup {e} /\ UNCHANGED <<table, pend>>
       ELSE /\ table' = [table EXCEPT ![k] = e]
            /\ pend' = IF table[k] # NoE THEN pend \cup {table[k]} ELSE pend
            /\ UNCHANGED garb
    /\ Goto(p, "idle")
    /\ loc' = [loc EXCEPT ![p] = Blank]
    /\ UNCHANGED <<ek, ev, entFree, bufFree, lk, bc, bg, ver, res>>

Collect(e) ==
    /\ e \in garb /\ \A p \in Proc : loc[p].e # e
    /\ garb' = garb \ {e}
    /\ ek' = [ek EXCEPT ![e] = NoK] /\ ev' = [ev EXCEPT ![e] = NoB]
    /\ entFree' = entFree \cup {e} /\ bufFree' = IF ev[e] # NoB THEN bufFree \cup {ev[e]} ELSE bufFree
    /\ UNCHANGED <<table, lk, bc, pend, bg, ver, pc, loc, res>>

\* ---- Get
Miss(p) == /\ Goto(p, "idle") /\ loc' = [loc EXCEPT ![p] = Blank]

GetLookup(p, k) ==
    /\ pc[p] = "idle"
    /\ IF table[k] = NoE THEN Miss(p)
       ELSE Goto(p, "g_try") /\ loc' = [loc EXCEPT ![p] = [k |-> k, e |-> table[k], b |-> NoB, nx |-> FALSE]]
    /\ UNCHANGED <<table, ek, ev, lk, entFree, bc, bufFree, pend, garb, bg, ver, res>>

GetTry(p) ==
    LET e == loc[p].e IN
    /\ pc[p] = "g_try"
    /\ IF lk[e].w = "no"
       THEN lk' = [lk EXCEPT ![e].r = @ \cup {p}] /\ Goto(p, "g_chk") /\ UNCHANGED loc
       ELSE Miss(p) /\ UNCHANGED lk
    /\ UNCHANGED <<table, ek, ev, entFree, bc, bufFree, pend, garb, bg, ver, res>>

GetCheck(p) ==
    LET e == loc[p].e IN
    /\ pc[p] = "g_chk"
    /\ IF ev[e] = NoB \/ (KeyRecheck /\ ek[e] # loc[p].k)
       THEN Miss(p) /\ RUnlock(e, p)
       ELSE /\ loc' = [loc EXCEPT ![p].b = ev[e]]
            /\ Goto(p, "g_copy")
            /\ IF CopyUnderLock THEN UNCHANGED lk ELSE RUnlock(e, p)
    /\ UNCHANGED <<table, ek, ev, entFree, bc, bufFree, pend, garb, bg, ver, res>>

GetCopy(p) ==
    /\ pc[p] = "g_copy"
    /\ res' = [res EXCEPT ![p] = bc[loc[p].b]]
    /\ IF CopyUnderLock THEN RUnlock(loc[p].e, p) ELSE UNCHANGED lk
    /\ Goto(p, "g_done")
    /\ UNCHANGED <<table, ek, ev, entFree, bc, bufFree, pend, garb, bg, ver, loc>>

GetDone(p) ==
    /\ pc[p] = "g_done"
    /\ Miss(p) /\ res' = [res EXCEPT ![p] = Junk]
    /\ UNCHANGED <<table, ek, ev, lk, entFree, bc, bufFree, pend, garb, bg, ver>>

\* ---- the table's own goroutine
Evict(k) ==
    /\ table[k] # NoE
    /\ table' = [table EXCEPT ![k] = NoE] /\ pend' = pend \cup {table[k]}
    /\ UNCHANGED <<ek, ev, lk, entFree, bc, bufFree, garb, bg, ver, pc, loc, res>>

NotifyLock(e) ==
    /\ bg = NoE /\ e \in pend
    /\ bg' = e /\ pend' = pend \ {e}
    /\ IF ReleaseLocks THEN lk[e].w = "no" /\ lk' = [lk EXCEPT ![e].w = "wait"] ELSE UNCHANGED lk
    /\ UNCHANGED <<table, ek, ev, entFree, bc, bufFree, garb, ver, pc, loc, res>>

NotifyRelease ==
    /\ bg # NoE /\ (ReleaseLocks => lk[bg].r = {})
    /\ ek' = [ek EXCEPT ![bg] = NoK] /\ ev' = [ev EXCEPT ![bg] = NoB]
    /\ bufFree' = IF ev[bg] # NoB THEN bufFree \cup {ev[bg]} ELSE bufFree
    /\ entFree' = entFree \cup {bg}
    /\ lk' = IF ReleaseLocks THEN [lk EXCEPT ![bg].w = "no"] ELSE lk
    /\ bg' = NoE
    /\ UNCHANGED <<table, bc, pend, garb, ver, pc, loc, res>>

CodeStep(p) == StoreLock(p) \/ StoreFill(p) \/ StoreSet(p)
               \/ GetTry(p) \/ GetCheck(p) \/ GetCopy(p) \/ GetDone(p)
Next == \/ \E p \in Proc : CodeStep(p) \/ (\E k \in Key : GetLookup(p, k) \/ \E nx \in BOOLEAN : StoreBegin(p, k, nx))
        \/ \E k \in Key : Evict(k)
        \/ \E e \in Ent : NotifyLock(e) \/ Collect(e)
        \/ NotifyRelease

Spec == Init /\ [][Next]_vars
FairSpec == Spec /\ \A p \in Proc : WF_vars(CodeStep(p))
                 /\ WF_vars(NotifyRelease) /\ \A e \in Ent : WF_vars(NotifyLock(e))

\* ---- properties
TypeOK == /\ table \in [Key -> Ent \cup {NoE}]
          /\ ek \in [Ent -> Key \cup {NoK}] /\ ev \in [Ent -> Buf \cup {NoB}]
          /\ \A e \in Ent : lk[e].w \in {"no", "wait", "held"} /\ lk[e].r \subseteq Proc
          /\ entFree \subseteq Ent /\ bufFree \subseteq Buf /\ pend \subseteq Ent /\ garb \subseteq Ent
          /\ bg \in Ent \cup {NoE}
          /\ \A b \in Buf : bc[b] \in Tag \cup {Junk}

\* C07: what a hit returns was stored for the key that was asked, by a Store call that had started
Inv_C07_HitOwnValue == \A p \in Proc : pc[p] = "g_done" =>
                          /\ res[p] \in Tag /\ res[p].k = loc[p].k /\ res[p].n <= ver[loc[p].k]

\* structure: what the table points to is a filled entry of that key; pooled objects are blank and unreferenced;
\* no buffer is in two places
Inv_TableKey == \A k \in Key : table[k] # NoE => ek[table[k]] = k /\ ev[table[k]] # NoB /\ table[k] \notin entFree
Inv_PoolBlank == \A e \in entFree : ek[e] = NoK /\ ev[e] = NoB /\ e \notin pend /\ e \notin garb /\ e # bg
Inv_BufOnce == /\ \A e1, e2 \in Ent : e1 # e2 /\ ev[e1] # NoB => ev[e1] # ev[e2]
               /\ \A e \in Ent : ev[e] # NoB => ev[e] \notin bufFree
               /\ \A p \in Proc : pc[p] \in {"s_lock", "s_fill"} => loc[p].b \notin bufFree /\ \A e \in Ent : ev[e] # loc[p].b
\* the buffer a lookup copies from is, while it copies, the value buffer of the entry it locked
Inv_CopySource == \A p \in Proc : pc[p] = "g_copy" => ev[loc[p].e] = loc[p].b /\ loc[p].b \notin bufFree

\* C08 (last clause): a store-if-absent never replaces an entry that is in the table
NxNeverDisplaces == [][\A p \in Proc : pc[p] = "s_set" /\ pc'[p] = "idle" /\ loc[p].nx /\ table[loc[p].k] # NoE
                                         => table' = table]_vars

\* every call returns (no lock is held for ever)
Returns == \A p \in Proc : pc[p] # "idle" ~> pc[p] = "idle"
=============================================================================
