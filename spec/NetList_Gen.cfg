SPECIFICATION Spec
CONSTANTS
  U = 3
  Labels = {"a", "b"}
  MaxRanges = 3
  Emit = TRUE
  Pick = 0
INVARIANTS EmitStim
CHECK_DEADLOCK FALSE
