SPECIFICATION Spec
CONSTANTS
  Sigma = {0, 1, 2, 63, 64, 192, 12, 97}
  MaxBody = 4
  HopLimit = 126
  Start = 12
INVARIANTS EmitInput
CHECK_DEADLOCK FALSE
