--------------------------- MODULE QuicXportProof ---------------------------
(* Machine-checked (TLAPS) proof that the safety core of QuicXport holds for *)
(* any number of exchanges and connections, not only for the instances TLC   *)
(* enumerates: the shared connection is the only live one, a dial is in      *)
(* flight exactly when t.dialingCall names it (single flight), and after     *)
(* Close no connection of the transport is open - including one whose dial   *)
(* completes later.  Checked with: tlapm --threads 16 QuicXportProof.tla     *)
EXTENDS QuicXport, TLAPS

ASSUME ConstAssump == NConn \in Nat /\ BugLateLeak = FALSE

CstVals == {"none", "dialing", "locked", "done"}
ConnVals == {"none", "alive", "dead", "closed"}

TypeInv == /\ closed \in BOOLEAN
           /\ cur \in 0..NConn /\ call \in 0..NConn
           /\ cst \in [Conn -> CstVals]
           /\ conn \in [Conn -> ConnVals]

OnlyCurAlive == \A c \in Conn : conn[c] = "alive" => cur = c
DialIffCall == \A k \in Conn : cst[k] = "dialing" <=> call = k
NoneAliveWhileDialing == call # 0 => \A c \in Conn : conn[c] # "alive"
NoneAliveAfterClose == closed => \A c \in Conn : conn[c] # "alive"

Safe == TypeInv /\ OnlyCurAlive /\ DialIffCall /\ NoneAliveWhileDialing /\ NoneAliveAfterClose

LEMMA InitSafe == Init => Safe
  BY ConstAssump DEF Init, Safe, TypeInv, OnlyCurAlive, DialIffCall, NoneAliveWhileDialing, NoneAliveAfterClose,
     Conn, CstVals, ConnVals

LEMMA StepSafe == Safe /\ [Next]_vars => Safe'
<1> SUFFICES ASSUME Safe, [Next]_vars PROVE Safe'
  OBVIOUS
<1> USE ConstAssump DEF Safe, TypeInv, OnlyCurAlive, DialIffCall, NoneAliveWhileDialing, NoneAliveAfterClose,
        Conn, CstVals, ConnVals
<1>1. ASSUME NEW e \in Ex, Start(e) PROVE Safe'
  BY <1>1 DEF Start
<1>2. ASSUME NEW e \in Ex, GetConn(e) PROVE Safe'
  <2>1. CASE closed
    BY <1>2, <2>1 DEF GetConn, Finish
  <2>2. CASE ~closed /\ cur # 0 /\ conn[cur] = "alive"
    BY <1>2, <2>2 DEF GetConn
  <2>3. CASE ~closed /\ ~(cur # 0 /\ conn[cur] = "alive") /\ call # 0
    BY <1>2, <2>3 DEF GetConn
  <2>4. CASE ~closed /\ ~(cur # 0 /\ conn[cur] = "alive") /\ call = 0
    <3>1. PICK k \in Unused : /\ cur' = 0 /\ call' = k /\ cst' = [cst EXCEPT ![k] = "dialing"]
                              /\ UNCHANGED <<closed, conn>>
      BY <1>2, <2>4 DEF GetConn
    <3>2. k \in Conn /\ cst[k] = "none" /\ k # 0
      BY <3>1 DEF Unused
    <3>3. \A c \in Conn : conn[c] # "alive"
      BY <2>4
    <3>4. TypeInv'
      BY <3>1, <3>2
    <3>5. OnlyCurAlive' /\ NoneAliveWhileDialing' /\ NoneAliveAfterClose'
      BY <3>1, <3>3
    <3>6. DialIffCall'
      <4> SUFFICES ASSUME NEW j \in Conn PROVE cst'[j] = "dialing" <=> call' = j
        OBVIOUS
      <4>1. CASE j = k
        BY <3>1, <3>2, <4>1
      <4>2. CASE j # k
        <5>1. cst'[j] = cst[j] /\ cst[j] # "dialing"
          BY <3>1, <3>2, <4>2, <2>4
        <5> QED
          BY <5>1, <3>1, <4>2
      <4> QED
        BY <4>1, <4>2
    <3> QED
      BY <3>4, <3>5, <3>6
  <2> QED
    BY <2>1, <2>2, <2>3, <2>4
<1>3. ASSUME NEW e \in Ex, WaitDone(e) PROVE Safe'
  BY <1>3 DEF WaitDone, Finish
<1>4. ASSUME NEW e \in Ex, Try(e) PROVE Safe'
  BY <1>4 DEF Try, TryP, Finish
<1>5. ASSUME NEW e \in Ex, Deadline(e) PROVE Safe'
  BY <1>5 DEF Deadline
<1>6. ASSUME NEW k \in Conn, NEW ok \in BOOLEAN, DialLocked(k, ok) PROVE Safe'
  <2>1. call = k /\ \A c \in Conn : conn[c] # "alive"
    BY <1>6 DEF DialLocked
  <2>2. CASE closed
    BY <1>6, <2>1, <2>2 DEF DialLocked
  <2>3. CASE ~closed
    BY <1>6, <2>1, <2>3 DEF DialLocked
  <2> QED
    BY <2>2, <2>3
<1>7. ASSUME NEW k \in Conn, Signal(k) PROVE Safe'
  BY <1>7 DEF Signal
<1>8. ASSUME NEW k \in Conn, ConnDie(k) PROVE Safe'
  BY <1>8 DEF ConnDie
<1>9. ASSUME Close PROVE Safe'
  BY <1>9 DEF Close
<1>10. ASSUME UNCHANGED vars PROVE Safe'
  BY <1>10 DEF vars
<1> QED
  BY <1>1, <1>2, <1>3, <1>4, <1>5, <1>6, <1>7, <1>8, <1>9, <1>10 DEF Next

THEOREM Safety == Spec => []Safe
<1>1. Init => Safe
  BY InitSafe
<1>2. Safe /\ [Next]_vars => Safe'
  BY StepSafe
<1> QED
  BY <1>1, <1>2, PTL DEF Spec

\* what the properties need
THEOREM SafeImpliesProps == Safe => /\ Inv_C18_NoLeak
                                    /\ \A k1, k2 \in Conn : (cst[k1] = "dialing" /\ cst[k2] = "dialing") => k1 = k2
  BY DEF Safe, DialIffCall, NoneAliveAfterClose, Inv_C18_NoLeak
=============================================================================
