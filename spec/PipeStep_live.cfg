SPECIFICATION FairSpec
CONSTANTS
  NEx = 2
  NConn = 2
  MaxId = 0
  MaxStream = 2
  MaxRetry = 1
  MaxSends = 1
  BugRetryFresh = FALSE
  BugNoRetire = FALSE
  BugLateLeak = FALSE
PROPERTIES C14_Ends
CHECK_DEADLOCK FALSE
