---------------------------- MODULE ConnLife_Gen ----------------------------
(* Stimulus generation from ConnLife: TLC enumerates the model and prints the  *)
(* client's script of every finished behaviour.                                *)
EXTENDS ConnLife, Json
\* generation: one line per finished behaviour (connection closed): the client's script and what it must see
Emit == conn = "closed" => PrintT(<<"SCN", ToJson([sends |-> stim, closed |-> closedAt,
                                   lost |-> Cardinality({i \in Q : q[i].st = "lost"})])>>)
=============================================================================
