SPECIFICATION FairSpec
CONSTANTS
  e1 = e1  e2 = e2  e3 = e3  b1 = b1  b2 = b2  b3 = b3  p1 = p1  p2 = p2  p3 = p3
  Key <- mc_Key
  Proc <- mc_Proc
  Ent <- mc_Ent2
  Buf <- mc_Buf2
  MaxVer = 1
  CopyUnderLock = TRUE
  KeyRecheck = TRUE
  ReleaseLocks = TRUE
  NxAtomic = TRUE
INVARIANTS TypeOK Inv_C07_HitOwnValue Inv_TableKey Inv_PoolBlank Inv_BufOnce Inv_CopySource
PROPERTIES Returns NxNeverDisplaces
CHECK_DEADLOCK FALSE
