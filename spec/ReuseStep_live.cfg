SPECIFICATION FairSpec
CONSTANTS
  Ex <- mc_Ex
  NConn = 2
  MaxRetry = 1
  BugEarlyIdle = FALSE
  BugLateDialLeak = FALSE
INVARIANTS Inv_C06_OwnReply Inv_C06_CleanIdleStrict Inv_C06_IdleNotServing Inv_C18_NoLeak
PROPERTIES C18_FailFast
CHECK_DEADLOCK FALSE
