----------------------------- MODULE DomainTrace -----------------------------
(* Trace validation for C11: events recorded by harness/.../domdrv from the  *)
(* real loader and matcher are checked against DomainSet's declarative       *)
(* semantics (Matches, Readable).                                            *)
EXTENDS TraceBase, SequencesExt, FiniteSets

\* the operational constants are irrelevant here (only Matches/Readable are used)
Labels == {} 
MaxDepth == 0
MaxAdds == 0
KeyMode == "exact"
Subsume == TRUE
VARIABLES trie, rootMatched, full, inserted, hist, nadds
DS == INSTANCE DomainSet

VARIABLES l, E
tvars == <<l, E, trie, rootMatched, full, inserted, hist, nadds>>

-----------------------------------------------------------------------------
(* the loader's line syntax *)
IsSpace(b) == b \in {32, 9, 11, 12, 13}
RECURSIVE IndexFrom(_, _, _)
IndexFrom(s, c, i) == IF i > Len(s) THEN 0 ELSE IF s[i] = c THEN i ELSE IndexFrom(s, c, i + 1)
IndexOf(s, c) == IndexFrom(s, c, 1)
CutAt(s, c) == LET i == IndexOf(s, c) IN IF i = 0 THEN s ELSE SubSeq(s, 1, i - 1)
RECURSIVE TrimL(_)
TrimL(s) == IF s # <<>> /\ IsSpace(Head(s)) THEN TrimL(Tail(s)) ELSE s
RECURSIVE TrimR(_)
TrimR(s) == IF s # <<>> /\ IsSpace(s[Len(s)]) THEN TrimR(SubSeq(s, 1, Len(s) - 1)) ELSE s
Trim(s) == TrimR(TrimL(s))
LowerB(b) == IF b >= 65 /\ b <= 90 THEN b + 32 ELSE b
LowerS(s) == [i \in 1..Len(s) |-> LowerB(s[i])]
RECURSIVE SplitDots(_)
SplitDots(s) == LET i == IndexOf(s, 46) IN
                IF i = 0 THEN <<LowerS(s)>> ELSE <<LowerS(SubSeq(s, 1, i - 1))>> \o SplitDots(SubSeq(s, i + 1, Len(s)))
ParseName(exp) == LET e == IF exp # <<>> /\ exp[Len(exp)] = 46 THEN SubSeq(exp, 1, Len(exp) - 1) ELSE exp
                  IN IF e = <<>> THEN <<>> ELSE SplitDots(e)

sDomain == <<100, 111, 109, 97, 105, 110>>
sFull   == <<102, 117, 108, 108>>
sRegexp == <<114, 101, 103, 101, 120, 112>>

RECURSIVE QuoteRe(_)
QuoteRe(t) == IF t = <<>> THEN <<>>
              ELSE (IF Head(t) \in {46, 92} THEN <<92, Head(t)>> ELSE <<Head(t)>>) \o QuoteRe(Tail(t))

\* Entries(ev): the set of entries one loaded line contributes ({} for blank/comment lines)
Body(ev) == Trim(CutAt(ev.line, 35))
Typ(b) == LET i == IndexOf(b, 58) IN IF i = 0 THEN <<>> ELSE SubSeq(b, 1, i - 1)
Exp(b) == LET i == IndexOf(b, 58) IN IF i = 0 THEN b ELSE SubSeq(b, i + 1, Len(b))
Entries(ev) ==
    LET b == Body(ev) IN
    IF b = <<>> THEN {}
    ELSE IF Typ(b) \in {<<>>, sDomain} THEN {[kind |-> "domain", name |-> ParseName(Exp(b))]}
    ELSE IF Typ(b) = sFull THEN {[kind |-> "full", name |-> ParseName(Exp(b))]}
    ELSE {[kind |-> "regexp", text |-> DS!Readable(ev.re)]}

\* the harness's regexp lines must be the anchored literal of the spec's text form
RegexpLineOk(ev) == LET b == Body(ev) IN
    Typ(b) = sRegexp => Exp(b) = <<94>> \o QuoteRe(DS!Readable(ev.re)) \o <<36>>

-----------------------------------------------------------------------------
Init == /\ l = 1 /\ E = {} /\ InitMark
        /\ trie = {} /\ rootMatched = FALSE /\ full = {} /\ inserted = {} /\ hist = <<>> /\ nadds = 0

IsEvent(e) == l <= Len(Trace) /\ Trace[l].ev = e /\ l' = l + 1 /\ Mark(l)
Rest == UNCHANGED <<trie, rootMatched, full, inserted, hist, nadds>>

New == IsEvent("dm.new") /\ E' = {} /\ Rest

Add == /\ IsEvent("dm.add")
       /\ IF RegexpLineOk(Trace[l]) THEN TRUE ELSE Harness(l, "regexp line is not the literal of Readable(re)")
       /\ E' = E \cup Entries(Trace[l])
       /\ Rest

Probe == /\ IsEvent("dm.probe")
         /\ LET ev == Trace[l]
                wrong == {i \in 1..Len(ev.names) : ev.res[i] # DS!Matches(E, ev.names[i])}
            IN Report(l, IF wrong = {} THEN {} ELSE {"Inv_C11_Equiv"})
         /\ UNCHANGED E /\ Rest

ReadableEv == /\ IsEvent("dm.readable")
              /\ LET ev == Trace[l] IN
                 Report(l, IF ~ev.err /\ ev.text = DS!Readable(ev.name) THEN {} ELSE {"Inv_C11_Readable"})
              /\ UNCHANGED E /\ Rest

\* dm.loaderr (the loader rejected or crashed on a well-formed file) has no action.
Next == New \/ Add \/ Probe \/ ReadableEv
Spec == Init /\ [][Next]_tvars
Post == Consumed
=============================================================================
