----------------------------- MODULE DomainTrace -----------------------------
(* Trace validation for C11: events recorded by harness/.../domdrv from the  *)
(* real loader and matcher are checked against DomainSet's declarative       *)
(* semantics (Matches, Readable).                                            *)
EXTENDS TraceBase, SequencesExt, FiniteSets, DomainLines, DomainOps

VARIABLES l, E
tvars == <<l, E>>

-----------------------------------------------------------------------------
\* Entries(ev): the set of entries one loaded line contributes ({} for blank/comment lines)
Body(ev) == Trim(CutAt(ev.line, 35))
Entries(ev) ==
    LET b == Body(ev) IN
    IF b = <<>> THEN {}
    ELSE IF Typ(b) \in {<<>>, sDomain} THEN {[kind |-> "domain", name |-> ParseName(Exp(b))]}
    ELSE IF Typ(b) = sFull THEN {[kind |-> "full", name |-> ParseName(Exp(b))]}
    ELSE {[kind |-> "regexp", text |-> Readable(ev.re)]}

\* the harness's regexp lines must be the anchored literal of the spec's text form
RegexpLineOk(ev) == LET b == Body(ev) IN
    Typ(b) = sRegexp => Exp(b) = <<94>> \o QuoteRe(Readable(ev.re)) \o <<36>>


-----------------------------------------------------------------------------
Init == l = 1 /\ E = {} /\ InitMark

IsEvent(e) == l <= Len(Trace) /\ Trace[l].ev = e /\ l' = l + 1 /\ Mark(l)
Rest == TRUE

New == IsEvent("dm.new") /\ E' = {} /\ Rest

Add == /\ IsEvent("dm.add")
       /\ IF RegexpLineOk(Trace[l]) THEN TRUE ELSE Harness(l, "regexp line is not the literal of Readable(re)")
       /\ E' = E \cup Entries(Trace[l])
       /\ Rest

Probe == /\ IsEvent("dm.probe")
         /\ LET ev == Trace[l]
                wrong == {i \in 1..Len(ev.names) : ev.res[i] # Matches(E, ev.names[i])}
            IN Report(l, IF wrong = {} THEN {} ELSE {"Inv_C11_Equiv"})
         /\ UNCHANGED E /\ Rest

ReadableEv == /\ IsEvent("dm.readable")
              /\ LET ev == Trace[l] IN
                 Report(l, IF ~ev.err /\ ev.text = Readable(ev.name) THEN {} ELSE {"Inv_C11_Readable"})
              /\ UNCHANGED E /\ Rest

\* dm.loaderr (the loader rejected or crashed on a well-formed file) has no action.
Next == New \/ Add \/ Probe \/ ReadableEv
Spec == Init /\ [][Next]_tvars
Post == Consumed
=============================================================================
