SPECIFICATION Spec
CONSTANTS
  Addrs <- mc_Addrs2
  Rate = 1000
  Burst = 3
  V4Mask = 0
  V6Mask = 0
  GRate = 0
  GBurst = 0
  Costs <- mc_Costs
  MaxT = 4
  Ttl = 1
  GcRefilled = FALSE
  MaxArrivals = 5
VIEW viewAdm
INVARIANTS TypeOK Inv_C15_Budget
PROPERTIES C15_Isolation
CHECK_DEADLOCK FALSE
