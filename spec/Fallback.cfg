SPECIFICATION Spec
CONSTANTS
  UdpOutcomes = {"ok", "tc", "drop"}
  TcpOutcomes = {"ok", "abort", "drop"}
INVARIANTS Inv_C16_NeverTruncated Inv_C16_NoSpuriousTcp Inv_C16_Outcome
PROPERTIES C16_Terminates
CHECK_DEADLOCK FALSE
