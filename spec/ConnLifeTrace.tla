--------------------------- MODULE ConnLifeTrace ---------------------------
(* Trace validation for the life of client connections on the stream        *)
(* listeners (ConnLife.tla): per connection the client's script (cl2.q),    *)
(* the responses it read (cl2.r) and the moment the proxy closed the        *)
(* connection (cl2.eof), all stamped by the client in ms since it connected.*)
(*   Inv_C03_NoCloseInFlight  the proxy closes a connection only when no    *)
(*                            query the client sent (>= 400 ms ago) is      *)
(*                            unanswered  [ConnLife!Inv_C03_NoCloseInFlight]*)
(*   Inv_C03_AtMostOne / Inv_C03_Header   one response per query, own ID    *)
(*   Inv_ConnLife_NotEarly    not closed before the idle time-out has       *)
(*                            passed since the last query                   *)
(*   Inv_ConnLife_IdleBound   closed no later than idle + slack after the   *)
(*                            last activity  [ConnLife!Inv_IdleBound]       *)
(* The two Inv_ConnLife_* are not among the listed properties (resource     *)
(* hygiene); they are reported in the evidence, never as a verdict.         *)
EXTENDS TraceBase, FiniteSets

Early == 400
Slack == 900

VARIABLES l, cs
tvars == <<l, cs>>
Init == l = 1 /\ cs = <<>> /\ InitMark
IsEvent(e) == l <= Len(Trace) /\ Trace[l].ev = e /\ l' = l + 1 /\ Mark(l)
With(f, k, v) == [x \in DOMAIN f \cup {k} |-> IF x = k THEN v ELSE f[x]]
MaxOf(S) == IF S = {} THEN 0 ELSE CHOOSE x \in S : \A y \in S : y <= x

Conn == /\ IsEvent("cl2.conn")
        /\ cs' = With(cs, Trace[l].conn, [idle |-> Trace[l].idlems, sent |-> <<>>, ans |-> <<>>, closed |-> FALSE])

Q == /\ IsEvent("cl2.q")
     /\ LET ev == Trace[l]  c == cs[ev.conn] IN
        cs' = [cs EXCEPT ![ev.conn].sent = With(c.sent, ev.i, ev.t)]

R == /\ IsEvent("cl2.r")
     /\ LET ev == Trace[l]  c == cs[ev.conn] IN
        /\ Report(l, (IF ev.i \notin DOMAIN c.sent THEN {"Inv_C03_Header"} ELSE {})
                     \cup (IF ev.i \in DOMAIN c.ans THEN {"Inv_C03_AtMostOne"} ELSE {})
                     \cup (IF ev.i \in DOMAIN c.sent /\ ev.rcode # 0 THEN {"Inv_C03_Rcode"} ELSE {}))
        /\ cs' = [cs EXCEPT ![ev.conn].ans = With(c.ans, ev.i, ev.t)]

LastSend(c) == MaxOf({c.sent[i] : i \in DOMAIN c.sent})
LastAct(c) == MaxOf({c.sent[i] : i \in DOMAIN c.sent} \cup {c.ans[i] : i \in DOMAIN c.ans})
Pending(c, t) == {i \in DOMAIN c.sent : i \notin DOMAIN c.ans /\ c.sent[i] + Early < t}

Eof == /\ IsEvent("cl2.eof")
       /\ LET ev == Trace[l]  c == cs[ev.conn] IN
          /\ Report(l, (IF Pending(c, ev.t) # {} THEN {"Inv_C03_NoCloseInFlight"} ELSE {})
                       \cup (IF ev.t + 100 < LastSend(c) + c.idle THEN {"Inv_ConnLife_NotEarly"} ELSE {})
                       \cup (IF ev.t > LastAct(c) + c.idle + Slack THEN {"Inv_ConnLife_IdleBound"} ELSE {}))
          /\ cs' = [cs EXCEPT ![ev.conn].closed = TRUE]

NoEof == /\ IsEvent("cl2.noeof")
         /\ LET ev == Trace[l]  c == cs[ev.conn] IN
            Report(l, {"Inv_ConnLife_IdleBound"} \cup (IF Pending(c, ev.t) # {} THEN {"Inv_C03_Answered"} ELSE {}))
         /\ UNCHANGED cs

\* the client's write failed: the proxy had closed the connection already (the eof event says when)
Werr == IsEvent("cl2.werr") /\ UNCHANGED cs
Err == IsEvent("cl2.err") /\ Harness(l, "could not connect") /\ UNCHANGED cs

Next == Conn \/ Q \/ R \/ Eof \/ NoEof \/ Werr \/ Err
Spec == Init /\ [][Next]_tvars
Post == Consumed
=============================================================================
