---------------------------- MODULE FallbackTrace ----------------------------
(* Trace validation for C16: per exchange the scripted behaviour of both legs *)
(* (ex.begin), what the server saw and sent per protocol, and what the caller *)
(* got (ex.end).                                                              *)
EXTENDS TraceBase, FiniteSets
UdpOutcomes == {"ok", "tc", "drop"}
TcpOutcomes == {"ok", "abort", "drop"}
VARIABLES stage, udpO, tcpO, tcpTried, result
F == INSTANCE Fallback

VARIABLES l, plan, tok, tcSent
\* plan: ex -> [udp, tcp];  tok: token -> [ex, proto, tc];  tcSent: exchanges for which a TC reply went out over UDP
tvars == <<l, plan, tok, tcSent, stage, udpO, tcpO, tcpTried, result>>
Rest == UNCHANGED <<stage, udpO, tcpO, tcpTried, result>>

Init == l = 1 /\ plan = <<>> /\ tok = <<>> /\ tcSent = {} /\ InitMark
        /\ stage = "start" /\ udpO = "ok" /\ tcpO = "ok" /\ tcpTried = FALSE /\ result = "none"
IsEvent(e) == l <= Len(Trace) /\ Trace[l].ev = e /\ l' = l + 1 /\ Mark(l)
With(f, k, v) == [x \in DOMAIN f \cup {k} |-> IF x = k THEN v ELSE f[x]]

Seg == IsEvent("seg") /\ plan' = <<>> /\ tok' = <<>> /\ tcSent' = {} /\ Rest
ExBegin == IsEvent("ex.begin") /\ plan' = With(plan, Trace[l].ex, [udp |-> Trace[l].udp, tcp |-> Trace[l].tcp, short |-> Trace[l].short, id |-> Trace[l].id])
           /\ UNCHANGED <<tok, tcSent>> /\ Rest

SrvRecv == /\ IsEvent("srv.recv")
           /\ LET ev == Trace[l] IN
              Report(l, (IF ev.proto = "tcp" /\ ev.ex \notin tcSent THEN {"Inv_C16_NoSpuriousTcp"} ELSE {})
                        \* both legs go to the server the upstream is configured to dial (dial_addr), never to the URL's
                        \cup (IF Has(ev, "srv") /\ ev.srv = "decoy" THEN {"Inv_C16_SameServer"} ELSE {}))
           /\ UNCHANGED <<plan, tok, tcSent>> /\ Rest

SrvSend == /\ IsEvent("srv.send")
           /\ LET ev == Trace[l] IN
              /\ tok' = With(tok, ev.tok, [ex |-> ev.ex, proto |-> ev.proto, tc |-> ev.tc])
              /\ tcSent' = IF ev.proto = "udp" /\ ev.tc THEN tcSent \cup {ev.ex} ELSE tcSent
           /\ UNCHANGED plan /\ Rest

Class(ev) == IF ev.kind # "reply" THEN "error"
             ELSE IF ev.tok \in DOMAIN tok /\ tok[ev.tok].ex = ev.ex
                  THEN (IF tok[ev.tok].proto = "udp" THEN "udp-reply" ELSE "tcp-reply")
                  ELSE "foreign-reply"

ExEnd == /\ IsEvent("ex.end")
         /\ LET ev == Trace[l]
                p == plan[ev.ex]
                cls == Class(ev)
            IN Report(l, (IF cls = "udp-reply" /\ tok[ev.tok].tc THEN {"Inv_C16_NeverTruncated"} ELSE {})
                      \* C05 on the UDP upstream: a returned message is a reply the server sent for this exchange,
                      \* with this exchange's question and the caller's ID
                      \cup (IF ev.kind = "reply" /\ (cls = "foreign-reply" \/ ev.rq # ev.ex \/ ev.id # p.id) THEN {"Inv_C05_Match"} ELSE {})
                      \* with a deadline around the reply time the caller may legitimately get an error instead
                      \cup (IF cls = F!Result(p.udp, p.tcp) \/ (p.short /\ cls = "error") THEN {} ELSE {"Inv_C16_Outcome"}))
         /\ UNCHANGED <<plan, tok, tcSent>> /\ Rest

Skip == IsEvent("srv.abort") /\ UNCHANGED <<plan, tok, tcSent>> /\ Rest
Next == Seg \/ ExBegin \/ SrvRecv \/ SrvSend \/ ExEnd \/ Skip
Spec == Init /\ [][Next]_tvars
Post == Consumed
=============================================================================
