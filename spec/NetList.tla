------------------------------- MODULE NetList -------------------------------
(* The address-range table behind the cache's client groups                   *)
(* (internal/netlist: ListBuilder.Add / Build, List.Lookup; loaded from the   *)
(* ip-marker file by app/router/cache.go).  Addresses are points of a total   *)
(* order (the harness maps them to IPv4, IPv4-mapped and IPv6 addresses in    *)
(* their 128-bit order).                                                      *)
(*   declarative: a range is accepted iff start <= end; the table is built    *)
(*     iff no two ranges share an address; the group of an address is the     *)
(*     label of the range that contains it, or none;                          *)
(*   as coded: Build sorts by start and compares neighbours; Lookup is a      *)
(*     binary search for the last range that starts at or below the address.  *)
(* NetList_MC checks that the two agree for every list of up to MaxRanges     *)
(* ranges; NetListTrace holds the real code to the declarative one.           *)
EXTENDS Naturals, Sequences, FiniteSets

Valid(r) == r.s <= r.e
Overlap(r1, r2) == r1.s <= r2.e /\ r2.s <= r1.e
AllValid(rs) == \A i \in 1..Len(rs) : Valid(rs[i])
BuildOk(rs) == \A i, j \in 1..Len(rs) : i # j => ~Overlap(rs[i], rs[j])
None == "none"
LookupD(rs, a) == IF \E i \in 1..Len(rs) : rs[i].s <= a /\ a <= rs[i].e
                  THEN rs[CHOOSE i \in 1..Len(rs) : rs[i].s <= a /\ a <= rs[i].e].v
                  ELSE None

\* ---- as coded
\* sort.Slice by start: some permutation whose starts ascend (ties in any order)
IsSortOf(s, rs) == /\ Len(s) = Len(rs)
                   /\ \E f \in [1..Len(rs) -> 1..Len(rs)] :
                         /\ \A i, j \in 1..Len(rs) : i # j => f[i] # f[j]
                         /\ \A i \in 1..Len(rs) : s[i] = rs[f[i]]
                   /\ \A i \in 1..Len(s) - 1 : s[i].s <= s[i + 1].s
NeighboursOverlap(s) == \E i \in 1..Len(s) - 1 : s[i].e >= s[i + 1].s
\* sort.Search(n, ip < start[i]): the first index whose start is above the address (n if none); entry before it
LookupC(s, a) == LET above == {i \in 1..Len(s) : a < s[i].s}
                     idx == IF above = {} THEN Len(s) + 1 ELSE CHOOSE i \in above : \A j \in above : i <= j
                 IN IF idx = 1 THEN None
                    ELSE IF s[idx - 1].s <= a /\ a <= s[idx - 1].e THEN s[idx - 1].v ELSE None
=============================================================================
