------------------------------ MODULE PeerTrace ------------------------------
(* Trace validation for C17: every row of the address table instantiated with *)
(* concrete strings and passed to the real upstream.NewUpstream (the socket   *)
(* layer's Control hook / a local listener records where it connects; fake    *)
(* TLS/HTTP/QUIC servers record SNI and Host), and the certificate matrices.  *)
EXTENDS TraceBase, Peer

VARIABLES l
Init == l = 1 /\ InitMark
IsEvent(e) == l <= Len(Trace) /\ Trace[l].ev = e /\ l' = l + 1 /\ Mark(l)

\* dial {s, h, p, d, seen: [[net, host, port], ...]} : every address the socket layer was asked to connect to
Dial == /\ IsEvent("dial")
        /\ LET ev == Trace[l]  t == Target(ev.s, ev.h, ev.p, ev.d) IN
           \* a plain (UDP) upstream has two legs - UDP, and TCP for truncated replies - to one and the same place
           Report(l, IF /\ Len(ev.seen) >= 1
                        /\ \A i \in 1..Len(ev.seen) :
                              /\ (ev.seen[i][1] = t.net \/ (ev.s \in {"", "udp"} /\ ev.seen[i][1] = "tcp"))
                              /\ ev.seen[i][2] = HostIp(t.host) /\ ev.seen[i][3] = t.port
                        /\ (ev.s \in {"", "udp"} /\ t.net = "udp") => \E i \in 1..Len(ev.seen) : ev.seen[i][1] = "tcp"
                     THEN {} ELSE {"Inv_C17_Target"})

\* hello {s, h, p, d, sni, host, hostport}: what a local fake server saw (URL host is the domain name)
UrlName(tok) == IF tok = "dom" THEN "localhost" ELSE tok
Hello == /\ IsEvent("hello")
         /\ LET ev == Trace[l] IN
            Report(l, (IF UsesTls(ev.s) /\ ev.sni # UrlName(Sni(ev.s, ev.h, ev.p, ev.d)) THEN {"Inv_C17_Sni"} ELSE {})
                   \cup (IF UsesHttp(ev.s) /\ (ev.host # UrlName(Sni(ev.s, ev.h, ev.p, ev.d)) \/ ev.hostport # ev.p) THEN {"Inv_C17_HttpHost"} ELSE {}))

\* tls {s, cert, ca, skip, ok}
Tls == /\ IsEvent("tls")
       /\ Report(l, IF Trace[l].ok = TlsAccept(Trace[l].cert, Trace[l].ca, Trace[l].skip) THEN {} ELSE {"Inv_C17_TlsAccept"})

\* serve {lst, ccert, verify, served}
ServeEv == /\ IsEvent("serve")
           /\ Report(l, IF Trace[l].served = Serve(Trace[l].ccert, Trace[l].verify) THEN {} ELSE {"Inv_C17_ClientCert"})

Note == IsEvent("note") /\ Report(l, IF Trace[l].sniok /\ Trace[l].hostok THEN {} ELSE {"Inv_C17_Sni"})
Next == Dial \/ Hello \/ Tls \/ ServeEv \/ Note
Spec == Init /\ [][Next]_l
Post == Consumed
=============================================================================
