------------------------------ MODULE Ownership ------------------------------
(***************************************************************************)
(* Recycled memory is exclusively owned (C20): the typestate of a pooled   *)
(* object (byte buffers of internal/pool, dnsmsg.Msg / Question, request   *)
(* contexts).  An object is free or held; releasing poisons it and parks   *)
(* it in a quarantine; leaving the quarantine checks the poison (a write   *)
(* after release destroys it); only then can it be handed out again.       *)
(***************************************************************************)
EXTENDS Naturals, FiniteSets, TLC

CONSTANTS Obj, Actor,
          BugDoubleRelease   \* sensitivity: an actor may release an object it released before

VARIABLES st,       \* object -> "free" | "held" | "quarantine"
          owner,    \* object -> actor | "none"
          poison,   \* object -> poison pattern intact
          lastOwner, bad
vars == <<st, owner, poison, lastOwner, bad>>

Init == /\ st = [o \in Obj |-> "free"] /\ owner = [o \in Obj |-> "none"] /\ poison = [o \in Obj |-> TRUE]
        /\ lastOwner = [o \in Obj |-> "none"] /\ bad = {}

Get(a, o) == /\ st[o] = "free"
             /\ st' = [st EXCEPT ![o] = "held"] /\ owner' = [owner EXCEPT ![o] = a]
             /\ poison' = [poison EXCEPT ![o] = FALSE]        \* the holder may write
             /\ UNCHANGED <<lastOwner, bad>>
Release(a, o) == /\ st[o] = "held" /\ owner[o] = a
                 /\ st' = [st EXCEPT ![o] = "quarantine"] /\ owner' = [owner EXCEPT ![o] = "none"]
                 /\ poison' = [poison EXCEPT ![o] = TRUE] /\ lastOwner' = [lastOwner EXCEPT ![o] = a]
                 /\ UNCHANGED bad
\* the defect class: releasing again (or releasing what one does not hold)
BadRelease(a, o) == /\ BugDoubleRelease /\ lastOwner[o] = a /\ st[o] # "held"
                    /\ bad' = bad \cup {<<"double", o>>} /\ UNCHANGED <<st, owner, poison, lastOwner>>
QuarantineExit(o) == /\ st[o] = "quarantine"
                     /\ bad' = IF poison[o] THEN bad ELSE bad \cup {<<"write-after-release", o>>}
                     /\ st' = [st EXCEPT ![o] = "free"] /\ UNCHANGED <<owner, poison, lastOwner>>

Next == \/ \E a \in Actor, o \in Obj : Get(a, o) \/ Release(a, o) \/ BadRelease(a, o)
        \/ \E x \in Obj : QuarantineExit(x)
Spec == Init /\ [][Next]_vars

Inv_C20_Exclusive == \A o \in Obj : st[o] = "held" => owner[o] \in Actor
Inv_C20_NoDoubleRelease == \A x \in bad : x[1] # "double"
Inv_C20_NoWriteAfterRelease == \A x \in bad : x[1] # "write-after-release"
Inv_C20_FreeIsPoisoned == \A o \in Obj : st[o] = "quarantine" => poison[o]
=============================================================================
