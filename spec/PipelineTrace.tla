---------------------------- MODULE PipelineTrace ----------------------------
(* Trace validation for C05. Events: hooks of pipeline_conn.go (pc.*, emitted *)
(* under the connection's lock), the scripted server's receptions and sends  *)
(* (srv.send is logged before the bytes are written) and the exchanges as    *)
(* seen by the caller (ex.begin before the call, ex.end after it).            *)
EXTENDS TraceBase, FiniteSets

VARIABLES l,
          conn,      \* conn id -> [hi, holes, closed]: wire IDs assigned so far = 0..hi-1 minus holes
          exq,       \* exchange -> set of <<conn, qid>> written for it (retries use several)
          wr,        \* set of <<conn, qid>> already written
          sent,      \* set of <<conn, qid, tok>> sent by the server
          returned,  \* tokens already returned to a caller
          exid       \* exchange -> caller's original ID
tvars == <<l, conn, exq, wr, sent, returned, exid>>

MaxWireId == 65535
Init == l = 1 /\ conn = <<>> /\ exq = <<>> /\ wr = {} /\ sent = {} /\ returned = {} /\ exid = <<>> /\ InitMark
IsEvent(e) == l <= Len(Trace) /\ Trace[l].ev = e /\ l' = l + 1 /\ Mark(l)
With(f, k, v) == [x \in DOMAIN f \cup {k} |-> IF x = k THEN v ELSE f[x]]
NewConn == [hi |-> 0, holes |-> {}, closed |-> FALSE]
C(c) == IF c \in DOMAIN conn THEN conn[c] ELSE NewConn

Seg == IsEvent("seg") /\ conn' = <<>> /\ exq' = <<>> /\ wr' = {} /\ sent' = {} /\ returned' = {} /\ exid' = <<>>

Fresh(c, q) == q >= C(c).hi \/ q \in C(c).holes
PcAdd == /\ IsEvent("pc.add")
         /\ LET ev == Trace[l]  c == ev.conn  q == ev.qid  r == C(c) IN
            /\ Report(l, (IF Fresh(c, q) /\ q <= MaxWireId THEN {} ELSE {"Inv_C05_NoReuse"}))
            /\ conn' = With(conn, c, [r EXCEPT !.hi = IF q >= r.hi THEN q + 1 ELSE r.hi,
                                               !.holes = IF q >= r.hi THEN r.holes \cup (r.hi..(q - 1)) ELSE r.holes \ {q}])
         /\ UNCHANGED <<exq, wr, sent, returned, exid>>

PcWrite == /\ IsEvent("pc.write")
           /\ LET ev == Trace[l]  cq == <<ev.conn, ev.qid>> IN
              /\ Report(l, (IF cq \in wr THEN {"Inv_C05_DistinctIds"} ELSE {}))
              /\ wr' = wr \cup {cq}
              /\ exq' = With(exq, ev.ex, (IF ev.ex \in DOMAIN exq THEN exq[ev.ex] ELSE {}) \cup {cq})
           /\ UNCHANGED <<conn, sent, returned, exid>>

PcClose == /\ IsEvent("pc.close")
           /\ conn' = With(conn, Trace[l].conn, [C(Trace[l].conn) EXCEPT !.closed = TRUE])
           /\ UNCHANGED <<exq, wr, sent, returned, exid>>

\* informational events (consumed, no state)
Skip == (IsEvent("pc.lookup") \/ IsEvent("pc.send") \/ IsEvent("pc.eol") \/ IsEvent("pc.del") \/ IsEvent("srv.recv"))
        /\ UNCHANGED <<conn, exq, wr, sent, returned, exid>>

SrvSend == /\ IsEvent("srv.send")
           /\ sent' = sent \cup {<<Trace[l].conn, Trace[l].qid, Trace[l].tok>>}
           /\ UNCHANGED <<conn, exq, wr, returned, exid>>

ExBegin == /\ IsEvent("ex.begin")
           /\ exid' = With(exid, Trace[l].ex, Trace[l].id)
           /\ UNCHANGED <<conn, exq, wr, sent, returned>>

ExEnd == /\ IsEvent("ex.end")
         /\ LET ev == Trace[l]
                mine == IF ev.ex \in DOMAIN exq THEN exq[ev.ex] ELSE {}
            IN IF ev.kind = "reply"
               THEN /\ Report(l, (IF \E cq \in mine : <<cq[1], cq[2], ev.tok>> \in sent THEN {} ELSE {"Inv_C05_Match"})
                               \cup (IF ev.tok \in returned THEN {"Inv_C05_NoShare"} ELSE {})
                               \cup (IF ev.ex \in DOMAIN exid /\ exid[ev.ex] = ev.id THEN {} ELSE {"Inv_C05_IdRestored"}))
                    /\ returned' = returned \cup {ev.tok}
               ELSE UNCHANGED returned
         /\ UNCHANGED <<conn, exq, wr, sent, exid>>

Next == Seg \/ PcAdd \/ PcWrite \/ PcClose \/ Skip \/ SrvSend \/ ExBegin \/ ExEnd
Spec == Init /\ [][Next]_tvars
Post == Consumed
=============================================================================
