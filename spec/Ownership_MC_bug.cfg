SPECIFICATION Spec
CONSTANTS
  o1 = o1
  o2 = o2
  a1 = a1
  a2 = a2
  a3 = a3
  Obj <- mc_Obj
  Actor <- mc_Actor
  BugDoubleRelease = TRUE
INVARIANTS Inv_C20_Exclusive Inv_C20_NoDoubleRelease Inv_C20_NoWriteAfterRelease Inv_C20_FreeIsPoisoned
CHECK_DEADLOCK FALSE
