------------------------------ MODULE Framing ------------------------------
(***************************************************************************)
(* Stream listeners (C13): a client's stream of length-prefixed queries is *)
(* delivered in arbitrary segments; the gnet listener's reassembler        *)
(* (server_tcp_gnet_linux.go OnTraffic: buffer / readN / readingHdr over   *)
(* gnet's all-or-nothing Conn.Next) decodes each frame exactly once;       *)
(* handlers complete in any order and each response is one atomic append   *)
(* of <<length prefix, body>>; queries beyond the per-connection limit are *)
(* answered REFUSED at once.  (The bufio listeners read with io.ReadFull;  *)
(* they are the special case in which a wait never keeps partial state.)   *)
(*                                                                         *)
(* Octets are abstract: <<"h", i, k>> is octet k of frame i's prefix,      *)
(* <<"b", i, k>> octet k of its body; BodyLen[i] is what the prefix says.  *)
(***************************************************************************)
EXTENDS Naturals, Sequences, FiniteSets, TLC

CONSTANTS BodyLen,      \* sequence: body length of frame i
          Limit,        \* per-connection concurrency limit
          BugStickyHdr  \* sensitivity: readingHdr is only reset when the whole frame completes

NF == Len(BodyLen)
Frame(i) == <<<<"h", i, 1>>, <<"h", i, 2>>>> \o [k \in 1..BodyLen[i] |-> <<"b", i, k>>]
RECURSIVE Concat(_)
Concat(i) == IF i > NF THEN <<>> ELSE Frame(i) \o Concat(i + 1)
Stream == Concat(1)

VARIABLES sent,      \* octets of Stream already delivered by the network
          avail,     \* gnet's inbound buffer: delivered, not yet consumed by OnTraffic
          buf,       \* cc.buffer: <<>> = nil, else [size, data]
          readN, readingHdr,
          pending,   \* a read event is pending (data arrived since the last OnTraffic)
          decoded,   \* frames handed to the router, in order
          running,   \* handlers in flight
          out,       \* the response stream: sequence of <<i, kind>>, one atomic frame each
          closed
vars == <<sent, avail, buf, readN, readingHdr, pending, decoded, running, out, closed>>

NoBuf == [size |-> 0, data |-> <<>>, some |-> FALSE]
Init == /\ sent = 0 /\ avail = <<>> /\ buf = NoBuf /\ readN = 0 /\ readingHdr = FALSE /\ pending = FALSE
        /\ decoded = <<>> /\ running = {} /\ out = <<>> /\ closed = FALSE

\* the network delivers the next k octets as one segment
Deliver(k) == /\ ~closed /\ k >= 1 /\ sent + k <= Len(Stream)
              /\ avail' = avail \o SubSeq(Stream, sent + 1, sent + k)
              /\ sent' = sent + k /\ pending' = TRUE
              /\ UNCHANGED <<buf, readN, readingHdr, decoded, running, out, closed>>

\* gnet Conn.Next: all or nothing
NextN(a, n) == IF n <= Len(a) THEN SubSeq(a, 1, n) ELSE <<>>
Rest(a, n) == IF n <= Len(a) THEN SubSeq(a, n + 1, Len(a)) ELSE a

\* what a complete frame buffer decodes to: the frame index if it is exactly frame i's body, else "garbage"
DecodeBody(d) == IF d # <<>> /\ d[1][1] = "b" /\ d[1][3] = 1 /\ Len(d) = BodyLen[d[1][2]]
                    /\ \A k \in 1..Len(d) : d[k] = <<"b", d[1][2], k>>
                 THEN d[1][2] ELSE 0
\* length announced by a two-octet prefix buffer
PrefixLen(d) == IF Len(d) = 2 /\ d[1][1] = "h" /\ d[2] = <<"h", d[1][2], 2>> /\ d[1][3] = 1 THEN BodyLen[d[1][2]] ELSE 999

\* dispatch of a decoded message: over the limit => REFUSED at once, else a handler runs
Dispatch(i, dec, run, o) ==
    IF i = 0 THEN [dec |-> dec, run |-> run, out |-> o, close |-> TRUE]
    ELSE IF Cardinality(run) + 1 > Limit
         THEN [dec |-> Append(dec, i), run |-> run, out |-> Append(o, <<i, "refused">>), close |-> FALSE]
         ELSE [dec |-> Append(dec, i), run |-> run \cup {i}, out |-> o, close |-> FALSE]

\* one pass of the `read:` block of OnTraffic over state s = [avail, buf, readN, rh, dec, run, out, close, again]
Pass(s) ==
    IF s.buf.some
    THEN \* continuing a partial frame
         LET s1 == IF s.rh
                   THEN LET b == NextN(s.avail, s.buf.size - s.readN)
                            d == s.buf.data \o b
                            rn == s.readN + Len(b) IN
                        IF rn < 2 THEN [s EXCEPT !.avail = Rest(@, s.buf.size - s.readN), !.buf.data = d, !.readN = rn, !.again = FALSE, !.stop = TRUE]
                        ELSE [s EXCEPT !.avail = Rest(@, s.buf.size - s.readN),
                                       !.buf = [size |-> PrefixLen(d), data |-> <<>>, some |-> TRUE],
                                       !.readN = 0, !.rh = IF BugStickyHdr THEN TRUE ELSE FALSE, !.stop = FALSE]
                   ELSE [s EXCEPT !.stop = FALSE]
         IN IF s1.stop THEN s1
            ELSE LET need == s1.buf.size - s1.readN
                     b == NextN(s1.avail, need)
                     d == s1.buf.data \o b
                     rn == s1.readN + Len(b) IN
                 IF s1.rh /\ BugStickyHdr
                 THEN \* the body buffer is mistaken for a prefix buffer on the next event
                      [s1 EXCEPT !.again = FALSE, !.stop = TRUE]
                 ELSE IF rn < s1.buf.size
                 THEN [s1 EXCEPT !.avail = Rest(@, need), !.buf.data = d, !.readN = rn, !.again = FALSE, !.stop = TRUE]
                 ELSE LET r == Dispatch(DecodeBody(d), s1.dec, s1.run, s1.out) IN
                      [s1 EXCEPT !.avail = Rest(@, need), !.buf = NoBuf, !.readN = 0, !.rh = FALSE,
                                 !.dec = r.dec, !.run = r.run, !.out = r.out, !.close = r.close,
                                 !.again = (Len(Rest(s1.avail, need)) > 0 /\ ~r.close), !.stop = TRUE]
    ELSE LET hdr == NextN(s.avail, 2) IN
         IF Len(hdr) < 2
         THEN [s EXCEPT !.buf = [size |-> 2, data |-> <<>>, some |-> TRUE], !.readN = 0, !.rh = TRUE, !.again = FALSE, !.stop = TRUE]
         ELSE LET a1 == Rest(s.avail, 2)
                  ln == PrefixLen(hdr)
                  body == NextN(a1, ln) IN
              IF Len(body) < ln
              THEN [s EXCEPT !.avail = a1, !.buf = [size |-> ln, data |-> <<>>, some |-> TRUE], !.readN = 0, !.rh = FALSE, !.again = FALSE, !.stop = TRUE]
              ELSE LET r == Dispatch(DecodeBody(body), s.dec, s.run, s.out) IN
                   [s EXCEPT !.avail = Rest(a1, ln), !.dec = r.dec, !.run = r.run, !.out = r.out, !.close = r.close,
                             !.again = (Len(Rest(a1, ln)) > 0 /\ ~r.close), !.stop = TRUE]

RECURSIVE Loop(_)
Loop(s) == LET t == Pass(s) IN IF t.again THEN Loop(t) ELSE t

OnTraffic ==
    /\ pending /\ ~closed
    /\ LET s0 == [avail |-> avail, buf |-> buf, readN |-> readN, rh |-> readingHdr, dec |-> decoded, run |-> running,
                  out |-> out, close |-> FALSE, again |-> FALSE, stop |-> FALSE]
           t == Loop(s0) IN
       /\ avail' = t.avail /\ buf' = t.buf /\ readN' = t.readN /\ readingHdr' = t.rh
       /\ decoded' = t.dec /\ running' = t.run /\ out' = t.out /\ closed' = t.close
    /\ pending' = FALSE
    /\ UNCHANGED sent

\* a handler finishes (any order) and its response is appended as one frame
HandlerDone(i) == /\ i \in running
                  /\ running' = running \ {i}
                  /\ out' = Append(out, <<i, "answer">>)
                  /\ UNCHANGED <<sent, avail, buf, readN, readingHdr, pending, decoded, closed>>

Next == (\E k \in 1..Len(Stream) : Deliver(k)) \/ OnTraffic \/ (\E i \in 1..NF : HandlerDone(i))
Spec == Init /\ [][Next]_vars
FairSpec == Spec /\ WF_vars(OnTraffic) /\ \A i \in 1..NF : WF_vars(HandlerDone(i))

-----------------------------------------------------------------------------
\* each query is decoded exactly once, in stream order, and nothing else is decoded
Inv_C13_DecodedOnce == /\ ~closed
                       /\ \A j \in 1..Len(decoded) : decoded[j] = j
\* one response frame per decoded query, never two
Inv_C13_OutOnce == \A x, y \in 1..Len(out) : (x # y) => out[x][1] # out[y][1]
Inv_C13_OutForDecoded == \A x \in 1..Len(out) : out[x][1] \in {decoded[j] : j \in 1..Len(decoded)}
\* a query over the limit is refused, not dropped: it is either running or already has a response
Inv_C13_NoDrop == \A j \in 1..Len(decoded) : decoded[j] \in running \/ \E x \in 1..Len(out) : out[x][1] = decoded[j]
Inv_C13_Limit == Cardinality(running) <= Limit
\* when everything was delivered and processed every frame has its response
Quiescent == sent = Len(Stream) /\ ~pending /\ running = {}
Inv_C13_AllAnswered == Quiescent => (Len(decoded) = NF /\ Len(out) = NF)
C13_Eventually == <>(Len(out) = NF \/ sent < Len(Stream))
=============================================================================
