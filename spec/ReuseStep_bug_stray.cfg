SPECIFICATION Spec
CONSTANTS
  Ex <- mc_Ex
  NConn = 3
  MaxRetry = 1
  BugEarlyIdle = FALSE
  BugLateDialLeak = FALSE
  BugStrayDial = TRUE
INVARIANTS Inv_C06_OwnReply Inv_C06_CleanIdleStrict Inv_C06_IdleNotServing Inv_C18_NoLeak Inv_C06_NoStray
CHECK_DEADLOCK FALSE
