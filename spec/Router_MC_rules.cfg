SPECIFICATION Spec
CONSTANTS
  r1 = r1
  r2 = r2
  r3 = r3
  Req <- mc_Req2
  Names <- mc_Names3
  Sets <- mc_Sets
  RuleLists <- mc_RuleLists2
  Ttls <- mc_TtlsOne
  Rcodes <- mc_RcodesOk
  DeadlineT = 2
  MaxClock = 0
  MaxReplies = 2
  WithCache = TRUE
  WithEvict = FALSE
VIEW view
INVARIANTS TypeOK Inv_C03_Rcode Inv_C03_Header Inv_C04_Provenance Inv_C10_OnlySelected Inv_C07_KeyEq Inv_C12_RespOpt Inv_C19_Single
CHECK_DEADLOCK FALSE
