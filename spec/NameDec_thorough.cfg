SPECIFICATION Spec
CONSTANTS
  Sigma = {0, 1, 2, 63, 64, 192, 12, 97}
  MaxBody = 6
  HopLimit = 126
  Start = 12
INVARIANTS Inv_C01_InBounds Inv_C01_NameFits
PROPERTIES C01_Terminates
CHECK_DEADLOCK FALSE
