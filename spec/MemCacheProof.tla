--------------------------- MODULE MemCacheProof ---------------------------
(* Machine-checked (TLAPS) proof that MemCache's C07 clause holds for any    *)
(* number of callers, keys, entry objects, buffers and versions, not only    *)
(* for the instances TLC enumerates: a hit returns bytes that were stored    *)
(* for the key that was asked (Inv_C07_HitOwnValue).  The code's protocol is *)
(* assumed as in the repository (copy under the read lock, key re-check,     *)
(* listener under the write lock, atomic store-if-absent).                   *)
(* The inductive invariant says why the protocol works:                      *)
(*   Readers   a caller between TryRLock and RUnlock is in the entry's       *)
(*             reader set (so no writer touches the entry);                  *)
(*   CopyB     the buffer it copies from is the locked entry's value buffer  *)
(*             and the entry's key is the key asked;                         *)
(*   Content   an entry's value buffer holds a value stored for the entry's  *)
(*             key;                                                          *)
(*   StoreB    a buffer being prepared by a Store is referenced by nothing   *)
(*             else;                                                         *)
(*   BufOnce   no buffer is in two entries, or in an entry and in the pool.  *)
(* Checked with: tlapm --threads 16 MemCacheProof.tla                        *)
EXTENDS MemCache, TLAPS

ASSUME ConstAssump == /\ MaxVer \in Nat
                      /\ CopyUnderLock = TRUE /\ KeyRecheck = TRUE /\ ReleaseLocks = TRUE /\ NxAtomic = TRUE
                      /\ NoE \notin Ent /\ NoB \notin Buf /\ NoK \notin Key

PcVals == {"idle", "s_lock", "s_fill", "s_set", "g_try", "g_chk", "g_copy", "g_done"}
LocT == [k : Key \cup {NoK}, e : Ent \cup {NoE}, b : Buf \cup {NoB}, nx : BOOLEAN]
LkT == [w : {"no", "wait", "held"}, r : SUBSET Proc]

TypeInv == /\ table \in [Key -> Ent \cup {NoE}]
           /\ ek \in [Ent -> Key \cup {NoK}] /\ ev \in [Ent -> Buf \cup {NoB}]
           /\ lk \in [Ent -> LkT]
           /\ entFree \subseteq Ent /\ bufFree \subseteq Buf /\ pend \subseteq Ent /\ garb \subseteq Ent
           /\ bg \in Ent \cup {NoE}
           /\ bc \in [Buf -> Tag \cup {Junk}]
           /\ ver \in [Key -> 0..MaxVer]
           /\ pc \in [Proc -> PcVals] /\ loc \in [Proc -> LocT] /\ res \in [Proc -> Tag \cup {Junk}]

LocOk == \A p \in Proc : /\ pc[p] # "idle" => loc[p].e \in Ent /\ loc[p].k \in Key
                         /\ pc[p] \in {"s_lock", "s_fill"} => loc[p].b \in Buf
Readers == \A p \in Proc : pc[p] \in {"g_chk", "g_copy"} => p \in lk[loc[p].e].r
CopyB == \A p \in Proc : pc[p] = "g_copy" => /\ loc[p].b = ev[loc[p].e] /\ loc[p].b \in Buf
                                             /\ ek[loc[p].e] = loc[p].k
Content == \A e \in Ent : ev[e] # NoB => /\ ek[e] \in Key /\ bc[ev[e]] \in Tag
                                         /\ bc[ev[e]].k = ek[e] /\ bc[ev[e]].n <= ver[ek[e]]
StoreB == \A p \in Proc : pc[p] \in {"s_lock", "s_fill"} =>
             /\ bc[loc[p].b] \in Tag /\ bc[loc[p].b].k = loc[p].k /\ bc[loc[p].b].n <= ver[loc[p].k]
             /\ loc[p].b \notin bufFree
             /\ \A e \in Ent : ev[e] # loc[p].b
             /\ \A q \in Proc : q # p /\ pc[q] \in {"s_lock", "s_fill"} => loc[q].b # loc[p].b
BufOnce == /\ \A e1, e2 \in Ent : e1 # e2 /\ ev[e1] # NoB => ev[e1] # ev[e2]
           /\ \A e \in Ent : ev[e] # NoB => ev[e] \notin bufFree

Ind == TypeInv /\ LocOk /\ Readers /\ CopyB /\ Content /\ StoreB /\ BufOnce /\ Inv_C07_HitOwnValue

LEMMA InitInd == Init => Ind
  BY ConstAssump DEF Init, Ind, TypeInv, LocOk, Readers, CopyB, Content, StoreB, BufOnce, Inv_C07_HitOwnValue,
     PcVals, LocT, LkT, Blank, Junk, Tag, NoE, NoB, NoK

LEMMA StepInd == Ind /\ [Next]_vars => Ind'
<1> SUFFICES ASSUME Ind, [Next]_vars PROVE Ind'
  OBVIOUS
<1> USE ConstAssump DEF Ind, TypeInv, LocOk, Readers, CopyB, Content, StoreB, BufOnce, Inv_C07_HitOwnValue,
        PcVals, LocT, LkT, Blank, Junk, Tag, Goto, Miss, RUnlock
<1>1. ASSUME NEW p \in Proc, NEW k \in Key, NEW nx \in BOOLEAN, StoreBegin(p, k, nx) PROVE Ind'
  BY <1>1 DEF StoreBegin
<1>2. ASSUME NEW p \in Proc, StoreLock(p) PROVE Ind'
  BY <1>2 DEF StoreLock
<1>3. ASSUME NEW p \in Proc, StoreFill(p) PROVE Ind'
  BY <1>3 DEF StoreFill
<1>4. ASSUME NEW p \in Proc, StoreSet(p) PROVE Ind'
  BY <1>4 DEF StoreSet
<1>5. ASSUME NEW e \in Ent, Collect(e) PROVE Ind'
  BY <1>5 DEF Collect
<1>6. ASSUME NEW p \in Proc, NEW k \in Key, GetLookup(p, k) PROVE Ind'
  BY <1>6 DEF GetLookup
<1>7. ASSUME NEW p \in Proc, GetTry(p) PROVE Ind'
  BY <1>7 DEF GetTry
<1>8. ASSUME NEW p \in Proc, GetCheck(p) PROVE Ind'
  BY <1>8 DEF GetCheck
<1>9. ASSUME NEW p \in Proc, GetCopy(p) PROVE Ind'
  BY <1>9 DEF GetCopy
<1>10. ASSUME NEW p \in Proc, GetDone(p) PROVE Ind'
  BY <1>10 DEF GetDone
<1>11. ASSUME NEW k \in Key, Evict(k) PROVE Ind'
  BY <1>11 DEF Evict
<1>12. ASSUME NEW e \in Ent, NotifyLock(e) PROVE Ind'
  BY <1>12 DEF NotifyLock
<1>13. ASSUME NotifyRelease PROVE Ind'
  BY <1>13 DEF NotifyRelease
<1>14. ASSUME UNCHANGED vars PROVE Ind'
  BY <1>14 DEF vars
<1> QED
  BY <1>1, <1>2, <1>3, <1>4, <1>5, <1>6, <1>7, <1>8, <1>9, <1>10, <1>11, <1>12, <1>13, <1>14 DEF Next, CodeStep

THEOREM Safety == Spec => [](Inv_C07_HitOwnValue /\ Inv_CopySource)
<1>1. Ind => Inv_C07_HitOwnValue /\ Inv_CopySource
  BY ConstAssump DEF Ind, Inv_CopySource, CopyB, BufOnce, TypeInv, LocOk
<1> QED
  BY InitInd, StepInd, <1>1, PTL DEF Spec
=============================================================================
