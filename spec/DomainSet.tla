------------------------------ MODULE DomainSet ------------------------------
(***************************************************************************)
(* Domain sets (C11): the label trie of internal/domain_matcher/           *)
(* sub_domain.go, the full matcher and the text form of names, against the *)
(* declarative suffix semantics the property states.                       *)
(*                                                                         *)
(* A label is a sequence of octets (0..255); a name is a sequence of       *)
(* labels in wire order (leftmost label first), the root is <<>>.          *)
(***************************************************************************)
EXTENDS DomainOps, FiniteSets, SequencesExt, TLC

CONSTANTS Labels,    \* the label universe of the bounded model
          MaxDepth,  \* names of the universe have 0..MaxDepth labels
          MaxAdds,   \* insertions per behaviour
          KeyMode,   \* "exact" (repaired code) | "padded" (code before fix D5)
          Subsume    \* TRUE (repaired code) | FALSE (code before fix D4)

VARIABLES trie,        \* set of <<path, kind>>; path = sequence of keys, TLD first; kind "N" | "T"
          rootMatched, \* the "." entry was added
          full,        \* FullMatcher: set of names
          inserted,    \* history: set of entries added so far
          hist,        \* history: the sequence of additions (stimulus for replay)
          nadds

vars == <<trie, rootMatched, full, inserted, hist, nadds>>
view == <<trie, rootMatched, full, inserted, nadds>>

-----------------------------------------------------------------------------
(* Declarative semantics: see DomainOps (IsLabelSuffix, Readable, EntryMatches, Matches) *)

-----------------------------------------------------------------------------
(* Operational model: the trie as the code builds it *)

Pad24(lb) == lb \o [i \in 1..(24 - Len(lb)) |-> 0]

Key(lb) ==
    IF KeyMode = "padded"
    THEN IF Len(lb) <= 24 THEN <<"s", Pad24(lb)>> ELSE <<"l", lb>>
    ELSE IF Len(lb) <= 24 /\ lb[Len(lb)] # 0 THEN <<"s", Pad24(lb)>> ELSE <<"l", lb>>

RECURSIVE Descend(_, _, _, _)
Descend(t, path, labels, i) ==
    LET p2 == Append(path, Key(labels[i])) IN
    IF i = 1
    THEN (t \ {x \in t : IsPrefix(p2, x[1])}) \cup {<<p2, "T">>}         \* AddLeaf: drops the subtree
    ELSE IF <<p2, "N">> \in t THEN Descend(t, p2, labels, i - 1)
    ELSE IF <<p2, "T">> \in t
         THEN IF Subsume THEN t                                            \* parent already in the set
              ELSE Descend((t \ {<<p2, "T">>}) \cup {<<p2, "N">>}, p2, labels, i - 1)
    ELSE Descend(t \cup {<<p2, "N">>}, p2, labels, i - 1)

RECURSIVE Walk(_, _, _, _)
Walk(t, path, labels, i) ==
    IF i = 0 THEN FALSE
    ELSE LET p2 == Append(path, Key(labels[i])) IN
         IF <<p2, "T">> \in t THEN TRUE
         ELSE IF <<p2, "N">> \in t THEN Walk(t, p2, labels, i - 1)
         ELSE FALSE

MatchImplOf(t, rm, f, n) == rm \/ n \in f \/ Walk(t, <<>>, n, Len(n))
MatchImpl(n) == MatchImplOf(trie, rootMatched, full, n)

Names == UNION {[1..d -> Labels] : d \in 0..MaxDepth}

Init == /\ trie = {} /\ rootMatched = FALSE /\ full = {} /\ inserted = {} /\ hist = <<>> /\ nadds = 0

AddDomain(n) ==
    /\ nadds < MaxAdds
    /\ nadds' = nadds + 1
    /\ inserted' = inserted \cup {[kind |-> "domain", name |-> n]}
    /\ hist' = Append(hist, <<"domain", n>>)
    /\ full' = full
    /\ IF rootMatched THEN UNCHANGED <<trie, rootMatched>>
       ELSE IF n = <<>> THEN rootMatched' = TRUE /\ trie' = {}
       ELSE rootMatched' = FALSE /\ trie' = Descend(trie, <<>>, n, Len(n))

AddFull(n) ==
    /\ nadds < MaxAdds
    /\ nadds' = nadds + 1
    /\ inserted' = inserted \cup {[kind |-> "full", name |-> n]}
    /\ hist' = Append(hist, <<"full", n>>)
    /\ full' = full \cup {n}
    /\ UNCHANGED <<trie, rootMatched>>

Next == \E n \in Names : AddDomain(n) \/ AddFull(n)

Spec == Init /\ [][Next]_vars

-----------------------------------------------------------------------------
(* Properties *)

Inv_C11_Equiv == \A n \in Names : MatchImpl(n) = Matches(inserted, n)

\* adding an entry never stops a previously matched name from matching
C11_Monotone == [][\A n \in Names :
                     MatchImpl(n) => MatchImplOf(trie', rootMatched', full', n)]_vars

TypeOK == /\ nadds \in 0..MaxAdds
          /\ rootMatched \in BOOLEAN
          /\ \A x \in trie : x[2] \in {"N", "T"}
=============================================================================
