------------------------------- MODULE Limiter -------------------------------
(***************************************************************************)
(* Client rate limiting (C15): one token bucket per masked client subnet   *)
(* (internal/limiter/client_limiter.go over golang.org/x/time/rate) plus   *)
(* the optional global bucket of app/router/limiter.go.                    *)
(*                                                                         *)
(* Time is an integer (ticks in the bounded model, milliseconds in traces);*)
(* tokens are counted in 1/1000 so that refill is exact integer arithmetic:*)
(* Rate = milli-tokens per time unit.                                      *)
(***************************************************************************)
EXTENDS LimiterOps, TLC

CONSTANTS Addrs,      \* set of client addresses [fam |-> 4|6, o |-> octets]
          Rate,       \* milli-tokens per time unit, per client bucket
          Burst,      \* tokens
          V4Mask, V6Mask,   \* as configured (0 = omitted)
          GRate, GBurst,    \* global bucket (GBurst = 0: no global limit)
          Costs, MaxT, MaxArrivals,
          Ttl,        \* idle time after which gc() may forget a bucket (0: no collection in this instance)
          GcRefilled  \* TRUE: gc forgets a bucket only when it has refilled (forgetting is then invisible);
                      \* FALSE: it forgets every idle bucket (sensitivity: a burst larger than Rate x Ttl comes back)

VARIABLES bucket,   \* key -> [tokens (milli), last]   (absent keys are full)
          glob,     \* [tokens, last]
          now,
          seen,     \* key -> time of the last call for that key (e.lastSeen)
          adm,      \* history: sequence of admitted [k, t, n]
          arr,      \* history: every arrival <<addr, n, t>> (stimulus for replay)
          narr

vars == <<bucket, glob, now, seen, adm, arr, narr>>
view == <<bucket, glob, now, seen, narr>>
viewAdm == <<bucket, glob, now, seen, adm, narr>>

-----------------------------------------------------------------------------
Key(a) == KeyM(a, V4Mask, V6Mask)

BucketOf(k) == IF k \in DOMAIN bucket THEN bucket[k] ELSE Full(Burst, now)

\* the decision of resourceLimiter.AllowN: global first (and charged even if the client is refused)
GlobalOk(t, n) == GBurst = 0 \/ Allows(glob, GRate, GBurst, t, n)
Decision(a, t, n) == GlobalOk(t, n) /\ Allows(BucketOf(Key(a)), Rate, Burst, t, n)

Init == /\ bucket = <<>> /\ seen = <<>> /\ glob = Full(GBurst, 0) /\ now = 0 /\ adm = <<>> /\ arr = <<>> /\ narr = 0

Arrive(a, n) ==
    /\ narr < MaxArrivals
    /\ narr' = narr + 1
    /\ arr' = Append(arr, <<a, n, now>>)
    /\ LET k == Key(a) IN
       /\ glob' = IF GBurst = 0 THEN glob ELSE After(glob, GRate, GBurst, now, n)
       /\ IF GlobalOk(now, n)
          THEN /\ bucket' = [x \in DOMAIN bucket \cup {k} |->
                               IF x = k THEN After(BucketOf(k), Rate, Burst, now, n) ELSE bucket[x]]
               /\ seen' = [x \in DOMAIN seen \cup {k} |-> IF x = k THEN now ELSE seen[x]]
               /\ adm' = IF Decision(a, now, n) THEN Append(adm, [k |-> k, t |-> now, n |-> n]) ELSE adm
          ELSE UNCHANGED <<bucket, seen, adm>>
    /\ UNCHANGED now

Tick == now < MaxT /\ now' = now + 1 /\ UNCHANGED <<bucket, glob, seen, adm, arr, narr>>

\* ClientLimiter.gc: one bucket that was not used for more than Ttl is forgotten (an absent key is a full bucket)
GC(k) == /\ Ttl > 0 /\ k \in DOMAIN bucket /\ now - seen[k] > Ttl
         /\ GcRefilled => Refilled(bucket[k], Rate, Burst, now) = Burst * 1000
         /\ bucket' = [x \in DOMAIN bucket \ {k} |-> bucket[x]]
         /\ seen' = [x \in DOMAIN seen \ {k} |-> seen[x]]
         /\ UNCHANGED <<glob, now, adm, arr, narr>>

Next == Tick \/ (\E a \in Addrs, n \in Costs : Arrive(a, n)) \/ (\E k \in DOMAIN bucket : GC(k))
Spec == Init /\ [][Next]_vars

-----------------------------------------------------------------------------
(* Properties *)
Inv_C15_Budget == BudgetOfP(adm, Rate, Burst)

\* a client's bucket is touched only by arrivals of its own subnet
C15_Isolation == [][\A a \in Addrs : \A n \in Costs :
                      Arrive(a, n) => \A k \in DOMAIN bucket : k # Key(a) => bucket'[k] = bucket[k]]_vars
\* forgetting a bucket never changes a later decision: a forgotten bucket was full
C15_GcInvisible == [][\A k \in DOMAIN bucket : GC(k) => Refilled(bucket[k], Rate, Burst, now) = Burst * 1000]_vars

\* a subnet within its own budget is never refused by the client limiter
\* (stated on the model: the decision for `a` is a function of the global bucket and bucket[Key(a)] only)
TypeOK == /\ now \in 0..MaxT /\ narr \in 0..MaxArrivals
          /\ \A k \in DOMAIN bucket : bucket[k].tokens \in 0..(Burst * 1000)
=============================================================================
