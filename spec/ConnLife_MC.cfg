SPECIFICATION Spec
CONSTANTS
  NQ = 3
  Idle = 2
  Delays = {0, 1, 3, 5}
  MaxTime = 14
  Fix = TRUE
INVARIANTS TypeOK Inv_C03_NoCloseInFlight Inv_IdleBound Inv_NotEarly
CHECK_DEADLOCK FALSE
