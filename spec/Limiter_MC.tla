----------------------------- MODULE Limiter_MC -----------------------------
EXTENDS Limiter, Json

V4(a, b, c, d) == [fam |-> 4, o |-> <<a, b, c, d>>]
Z8 == <<0, 0, 0, 0, 0, 0, 0, 0>>
V6(h1, h2, h3, h4, tail) == [fam |-> 6, o |-> <<h1 \div 256, h1 % 256, h2 \div 256, h2 % 256, h3 \div 256, h3 % 256, h4 \div 256, h4 % 256>> \o tail]
Mapped(a, b, c, d) == [fam |-> 6, o |-> <<0, 0, 0, 0, 0, 0, 0, 0, 0, 0, 255, 255, a, b, c, d>>]

A1 == V4(10, 0, 1, 5)
A2 == V4(10, 0, 1, 200)           \* same /24 as A1
A3 == V4(10, 0, 2, 5)             \* other /24
A4 == Mapped(10, 0, 1, 7)         \* ::ffff:10.0.1.7 - same subnet as A1
A5 == V6(8193, 3512, 1, 1, <<0, 0, 0, 0, 0, 0, 0, 1>>)   \* 2001:db8:1:1::1
A6 == V6(8193, 3512, 1, 2, <<0, 0, 0, 0, 0, 0, 0, 1>>)   \* 2001:db8:1:2::1  same /48
A7 == V6(8193, 3512, 2, 1, <<0, 0, 0, 0, 0, 0, 0, 1>>)   \* 2001:db8:2:1::1  other /48

mc_Addrs == {A1, A2, A3, A4, A5}
mc_Addrs2 == {A1, A3}
mc_AddrsAll == {A1, A2, A3, A4, A5, A6, A7}
mc_Costs == {1, 2, 3}

EmitStim == narr = MaxArrivals => PrintT(<<"STIM", ToJson(arr)>>)

\* sanity of the masking function (evaluated once)
ASSUME Key(A1) = Key(A2) /\ Key(A1) = Key(A4) /\ Key(A1) # Key(A3)
ASSUME V6Mask = 0 => (Key(A5) = Key(A6) /\ Key(A5) # Key(A7))
=============================================================================
