SPECIFICATION FairSpec
CONSTANTS
  r1 = r1
  r2 = r2
  r3 = r3
  Req <- mc_Req2
  Names <- mc_Names1
  Sets <- mc_Sets
  RuleLists <- mc_OneList
  Ttls <- mc_TtlsOne
  Rcodes <- mc_RcodesOk
  DeadlineT = 2
  MaxClock = 3
  MaxReplies = 2
  WithCache = TRUE
  WithEvict = TRUE
INVARIANTS TypeOK Inv_C03_Rcode Inv_C03_Header Inv_C03_Deadline Inv_C04_Provenance Inv_C10_OnlySelected Inv_C07_KeyEq Inv_C08_Ttl Inv_C08_Expiry Inv_C08_NoTc Inv_C12_RespOpt Inv_C19_Single Inv_C19_PfTracked
PROPERTIES C03_Answered
CHECK_DEADLOCK FALSE
