---------------------------- MODULE MemCacheTrace ----------------------------
(* Black-box trace validation of the real cache.MemoryCache against the      *)
(* observable part of MemCache.tla: what a hit returned (MemCache!res at     *)
(* "g_done").  Every stored value names its key k and version n (the n-th    *)
(* Store call for k; `maxv` = calls started when the lookup returned), its   *)
(* stored time is k*100000+n and its expiry time is written into the value.  *)
(*   Inv_C07_HitOwnValue  is MemCache!Inv_C07_HitOwnValue on the recorded    *)
(*                        result: the value's key is the key asked and its   *)
(*                        version is one that had been stored;               *)
(*   Inv_C07_HitIntact    the value is one whole stored value, and the times *)
(*                        returned with it are that version's.               *)
(* Lookups are sampled (every anomalous one is recorded); mc.sum must report *)
(* hits, or the run exercised nothing.                                       *)
EXTENDS TraceBase, Integers
VARIABLES l, nhits
tvars == <<l, nhits>>
Init == l = 1 /\ nhits = 0 /\ InitMark
IsEvent(e) == l <= Len(Trace) /\ Trace[l].ev = e /\ l' = l + 1 /\ Mark(l)

Get == /\ IsEvent("mc.get")
       /\ LET ev == Trace[l] IN
          Report(l, (IF ev.rk = ev.k /\ ev.rn >= 1 /\ ev.rn <= ev.maxv THEN {} ELSE {"Inv_C07_HitOwnValue"})
                    \cup (IF ev.intact /\ ev.st = ev.rk * 100000 + ev.rn /\ ev.ex = ev.tagex THEN {} ELSE {"Inv_C07_HitIntact"}))
       /\ nhits' = nhits + 1
\* C08, last clause (MemCache!NxNeverDisplaces seen from outside): a plain store and a store-if-absent of one
\* fresh key were released together; after both returned the key holds the plain store's version (1), never the
\* store-if-absent's (2); 0 = miss (not expected on a cache with room, tolerated)
Pair == /\ IsEvent("mc.pair")
        /\ Report(l, IF Trace[l].got \in {0, 1} THEN {} ELSE {"Inv_C08_NxKeepsPositive"})
        /\ UNCHANGED nhits
\* C20 at the cache's interface: Store keeps nothing of its caller's key and value buffers (MemCache: the entry's
\* key and buffer are the cache's own): after the caller has overwritten both, the entry is found and intact
Keep == /\ IsEvent("mc.keep")
        /\ Report(l, IF Trace[l].hit /\ Trace[l].intact THEN {} ELSE {"Inv_C20_NoRetainedArg"})
        /\ UNCHANGED nhits
\* C07, second sentence, at the cache: simultaneous lookups of one stored key, no store or eviction meanwhile:
\* all of them hit (MemCache: GetTry fails only while a writer holds or awaits the entry's lock)
Hot == /\ IsEvent("mc.hot")
       /\ Report(l, IF Trace[l].misses = 0 /\ Trace[l].gets > 0 THEN {} ELSE {"Inv_C07_HotHit"})
       /\ UNCHANGED nhits
Sum == /\ IsEvent("mc.sum")
       /\ IF Trace[l].hits < 1000 \/ Trace[l].stores < 1000 THEN Harness(l, "too few hits or stores") ELSE TRUE
       /\ UNCHANGED nhits
Crash == IsEvent("crash") /\ Report(l, {"Inv_C07_HitOwnValue"}) /\ UNCHANGED nhits
Next == Get \/ Pair \/ Keep \/ Hot \/ Sum \/ Crash
Spec == Init /\ [][Next]_tvars
Post == Consumed
=============================================================================
