SPECIFICATION Spec
CONSTANTS
  e1 = e1
  e2 = e2
  e3 = e3
  e4 = e4
  Ex <- mc_Ex3
  MaxId = 1
  MaxSends = 3
  MaxDups = 1
  Wrap = FALSE
SYMMETRY Sym3
VIEW view
INVARIANTS TypeOK Inv_C05_Match Inv_C05_NoShare Inv_C05_DistinctIds Inv_QueueLive
PROPERTIES C05_NoReuse
CHECK_DEADLOCK FALSE
