------------------------------ MODULE TraceBase ------------------------------
(* Conventions shared by all trace specifications (DESIGN.md 2.4, 3):        *)
(*   - the recorded execution is "trace.ndjson" in the working directory;    *)
(*   - every consumed line index is stored in TLC register 1 (high-water     *)
(*     mark; trace validation runs with -workers 1);                         *)
(*   - a property guard that fails on line l is reported as                  *)
(*     <<"BAD", l, "InvName">> and the trace continues to be consumed, so    *)
(*     one run reports every rejecting event;                                *)
(*   - a line for which the specification has no action at all stops the     *)
(*     trace: CONSUMED < number of lines.                                    *)
EXTENDS Naturals, Sequences, TLC, Json

Trace == ndJsonDeserialize("trace.ndjson")

Has(r, f) == f \in DOMAIN r
Report(l, S) == \A x \in S : PrintT(<<"BAD", l, x>>)
Harness(l, what) == PrintT(<<"HARNESS", l, what>>)
Mark(l) == TLCSet(1, l)
InitMark == TLCSet(1, 0)
Consumed == PrintT(<<"CONSUMED", TLCGet(1)>>)
=============================================================================
