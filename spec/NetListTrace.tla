---------------------------- MODULE NetListTrace ----------------------------
(* Trace validation of the real internal/netlist (and of the ip-marker file  *)
(* loader in front of it) against NetList's declarative table: range lists   *)
(* enumerated by TLC (NetList_Gen) and random ones are built by the real     *)
(* code, every point of the universe is looked up.                           *)
(*   nl.build   rs (abstract ranges), via "lib" | "marker", addok (lib:      *)
(*              result of every Add), ok (Build / load succeeded)            *)
(*   nl.lookup  a (abstract point), v (label or "none")                      *)
EXTENDS TraceBase, NetList
VARIABLES l, cur
tvars == <<l, cur>>
Init == l = 1 /\ cur = <<>> /\ InitMark
IsEvent(e) == l <= Len(Trace) /\ Trace[l].ev = e /\ l' = l + 1 /\ Mark(l)

RECURSIVE Accepted(_)
Accepted(rs) == IF rs = <<>> THEN <<>>
                ELSE (IF Valid(Head(rs)) THEN <<Head(rs)>> ELSE <<>>) \o Accepted(Tail(rs))

Build == /\ IsEvent("nl.build")
         /\ LET ev == Trace[l]
                acc == Accepted(ev.rs)
                want == IF ev.via = "lib" THEN BuildOk(acc) ELSE AllValid(ev.rs) /\ BuildOk(ev.rs)
                addsOk == ev.via # "lib" \/ (Len(ev.addok) = Len(ev.rs) /\ \A i \in 1..Len(ev.rs) : ev.addok[i] = Valid(ev.rs[i]))
            IN /\ Report(l, IF addsOk /\ ev.ok = want THEN {} ELSE {"Inv_C07_NetBuild"})
               /\ cur' = IF ev.ok THEN acc ELSE <<>>
Lookup == /\ IsEvent("nl.lookup")
          /\ Report(l, IF Trace[l].v = LookupD(cur, Trace[l].a) THEN {} ELSE {"Inv_C07_NetLookup"})
          /\ UNCHANGED cur
Next == Build \/ Lookup
Spec == Init /\ [][Next]_tvars
Post == Consumed
=============================================================================
