------------------------------ MODULE WireTrace ------------------------------
(* Trace validation for the codec properties (C01, C02, C09): every recorded  *)
(* call of the real decoder / encoder is checked against the specification's  *)
(* independent decoder and the properties of (size-limited) encodings.        *)
EXTENDS TraceBase, Wire

VARIABLES l
Init == l = 1 /\ InitMark
IsEvent(e) == l <= Len(Trace) /\ Trace[l].ev = e /\ l' = l + 1 /\ Mark(l)

\* the reserved Z bit (0x40) of the header is not a header field: the proxy's Header type cannot carry it
SansZ(bits) == IF (bits \div 64) % 2 = 1 THEN bits - 64 ELSE bits

Unpack == /\ IsEvent("unpack")
          /\ LET ev == Trace[l]  d == DecMsg(ev.in) IN
             Report(l, IF ev.ok # d.ok THEN {"Inv_C01_Verdict"}
                       ELSE IF ev.ok /\ ev.msg # [d.msg EXCEPT !.bits = SansZ(@)] THEN {"Inv_C02_Decode"} ELSE {})

\* unlimited pack: content preserved, advertised length exact
PackFree(ev) == (IF ev.ok /\ RoundTripOk(ev.msg, ev.wire) THEN {} ELSE {"Inv_C02_RoundTrip"})
                \cup (IF ev.ok /\ ~ev.compress /\ ~PlainLenOk(ev.msg, ev.wire) THEN {"Inv_C02_Len"} ELSE {})
                \cup (IF ev.ok /\ Len(ev.wire) > MsgLen(ev.msg) THEN {"Inv_C02_Len"} ELSE {})
                \cup (IF ev.len # MsgLen(ev.msg) THEN {"Inv_C02_Len"} ELSE {})

\* size-limited pack (C09)
NonOpt(s) == SelectSeq(s, LAMBDA r : ~IsOpt(r))
Opts(s) == SelectSeq(s, LAMBDA r : IsOpt(r))
PackLim(ev) ==
    LET m == ev.msg  d == DecMsg(ev.wire)  lim == Limit(ev.size) IN
    IF ~ev.ok THEN {"Inv_C09_PackFails"}
    ELSE (IF Len(ev.wire) <= lim THEN {} ELSE {"Inv_C09_Limit"})
      \cup (IF d.ok /\ d.end = Len(ev.wire) THEN {} ELSE {"Inv_C09_Counts"})
      \cup (IF ~d.ok THEN {}
            ELSE LET dm == d.msg  om == Omitted(m, dm) IN
                 (IF HasTc(dm.bits) = (om \/ HasTc(m.bits)) THEN {} ELSE {"Inv_C09_TcIff"})
                 \cup (IF MsgLen(m) <= lim /\ om THEN {"Inv_C09_NoNeedlessOmit"} ELSE {})
                 \cup (IF dm.id = m.id /\ BitsSansTc(dm.bits) = BitsSansTc(m.bits) THEN {} ELSE {"Inv_C09_Header"})
                 \cup (IF dm.qd = m.qd /\ Opts(dm.ar) = Opts(m.ar) THEN {} ELSE {"Inv_C09_Keeps"})
                 \cup (IF IsSubseq(dm.an, m.an, 1, 1) /\ IsSubseq(dm.ns, m.ns, 1, 1) /\ SubBag(NonOpt(dm.ar), NonOpt(m.ar))
                       THEN {} ELSE {"Inv_C09_Order"}))

Pack == /\ IsEvent("pack")
        /\ Report(l, IF Trace[l].size = 0 THEN PackFree(Trace[l]) ELSE PackLim(Trace[l]))

\* crash / hang (a panic or stall of the code under test) have no action: the trace stops there.
Next == Unpack \/ Pack
Spec == Init /\ [][Next]_l
Post == Consumed
=============================================================================
