SPECIFICATION Spec
CONSTANTS
  Proc = {p1, p2, p3}
  Burst = 2
  MaxCalls = 8
  MaxEnt = 4
  AtomicForget = TRUE
  RetryDeletes = TRUE
INVARIANTS Inv_C15_BurstBound Inv_NoSpendOnDead
CHECK_DEADLOCK FALSE
