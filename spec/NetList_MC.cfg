SPECIFICATION Spec
CONSTANTS
  U = 4
  Labels = {"a", "b"}
  MaxRanges = 3
  Emit = FALSE
  Pick = 0
INVARIANTS Inv_C07_NetEquiv
CHECK_DEADLOCK FALSE
