---------------------------- MODULE QuicXport_MC ----------------------------
EXTENDS QuicXport
CONSTANTS e1, e2, e3
mc_Ex == {e1, e2, e3}
mc_Ex2 == {e1, e2}
sym == Permutations(mc_Ex)
=============================================================================
