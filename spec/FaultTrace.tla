------------------------------ MODULE FaultTrace ------------------------------
(* Trace validation for C14: fault scenarios per transport built by the real   *)
(* NewUpstream against fault-scripted servers on real sockets.                 *)
(*   sc.begin {sc, tr, fault}   fx.begin {ex, sc, deadline, want}              *)
(*   fx.end {ex, sc, kind}      fault {sc, kind}     sc.end {sc, dials, conns} *)
EXTENDS TraceBase, FiniteSets

Slack == 1000          \* scheduling slack granted by the property, ms
MaxDialsPerExchange == 7   \* one fresh dial plus a bounded number of retries on pooled connections

VARIABLES l, ex, killed, nex
tvars == <<l, ex, killed, nex>>
Init == l = 1 /\ ex = <<>> /\ killed = <<>> /\ nex = <<>> /\ InitMark
IsEvent(e) == l <= Len(Trace) /\ Trace[l].ev = e /\ l' = l + 1 /\ Mark(l)
With(f, k, v) == [x \in DOMAIN f \cup {k} |-> IF x = k THEN v ELSE f[x]]
Count(sc) == IF sc \in DOMAIN nex THEN nex[sc] ELSE 0

ScBegin == IsEvent("sc.begin") /\ UNCHANGED <<ex, killed, nex>>
Begin == /\ IsEvent("fx.begin") /\ ex' = With(ex, Trace[l].ex, Trace[l])
         /\ nex' = With(nex, Trace[l].sc, Count(Trace[l].sc) + 1) /\ UNCHANGED killed
Fault == IsEvent("fault") /\ killed' = With(killed, Trace[l].sc, Trace[l].t) /\ UNCHANGED <<ex, nex>>

End == /\ IsEvent("fx.end")
       /\ LET ev == Trace[l]  b == ex[ev.ex] IN
          Report(l, (IF ev.t <= b.deadline + Slack THEN {} ELSE {"Inv_C14_Deadline"})
                 \cup (IF b.want = "reply" /\ ev.kind # "reply" THEN {"Inv_C14_StaleRecovers"} ELSE {})
                 \* exchanges that were waiting on a connection when it died end promptly, not at their deadline
                 \cup (IF ev.sc \in DOMAIN killed /\ b.t < killed[ev.sc] /\ ev.t > killed[ev.sc] + Slack
                       THEN {"Inv_C14_PromptWake"} ELSE {}))
       /\ UNCHANGED <<ex, killed, nex>>

ScEnd == /\ IsEvent("sc.end")
         /\ Report(l, IF Trace[l].dials <= MaxDialsPerExchange * Count(Trace[l].sc) THEN {} ELSE {"Inv_C14_RetryBound"})
         /\ UNCHANGED <<ex, killed, nex>>

\* the bulk phase that uses up a connection's transaction IDs (its exchanges are not recorded one by one)
Bulk == IsEvent("bulk") /\ UNCHANGED <<ex, killed, nex>>
Next == Bulk \/ ScBegin \/ Begin \/ Fault \/ End \/ ScEnd
Spec == Init /\ [][Next]_tvars
Post == Consumed
=============================================================================
