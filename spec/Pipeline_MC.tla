---------------------------- MODULE Pipeline_MC ----------------------------
EXTENDS Pipeline
CONSTANTS e1, e2, e3, e4
mc_Ex3 == {e1, e2, e3}
mc_Ex4 == {e1, e2, e3, e4}
Sym3 == Permutations(mc_Ex3)
Sym4 == Permutations(mc_Ex4)
=============================================================================
