SPECIFICATION FairSpec
CONSTANTS
  NQ = 2
  Idle = 2
  Delays = {0, 1, 3, 5}
  MaxTime = 14
  Fix = TRUE
PROPERTIES C03_Answered
CHECK_DEADLOCK FALSE
