-------------------------- MODULE LimiterStepProof --------------------------
(* TLAPS proof that the repaired collector protocol of LimiterStep           *)
(* (AtomicForget: a bucket is marked dead and removed under its own lock, a  *)
(* caller that locks a dead bucket looks the key up again) keeps the burst   *)
(* bound for any number of callers, calls and re-created buckets.            *)
(* Why: every bucket other than the one in the table is full (it is dead or  *)
(* not yet created), so the cost admitted so far is what is missing from the *)
(* table's bucket.  Checked with: tlapm --threads 16 LimiterStepProof.tla    *)
EXTENDS LimiterStep, TLAPS

ASSUME ConstAssump == Burst \in Nat /\ MaxCalls \in Nat /\ MaxEnt \in Nat /\ MaxEnt >= 1 /\ AtomicForget = TRUE /\ RetryDeletes = FALSE

TypeInv == /\ table \in 0..MaxEnt /\ nent \in 0..MaxEnt
           /\ tokens \in [Ent -> 0..Burst] /\ idle \in [Ent -> BOOLEAN] /\ dead \in [Ent -> BOOLEAN]
           /\ pc \in [Proc -> {"idle", "got"}] /\ loc \in [Proc -> 0..MaxEnt]
           /\ gc = None /\ admitted \in Nat /\ calls \in Int

\* the table's bucket is one that was created and is not dead; every other bucket is full
Shape == /\ table # None => table <= nent /\ ~dead[table]
         /\ \A e \in Ent : e # table => tokens[e] = Burst
         /\ \A e \in Ent : e > nent => ~dead[e]
         /\ \A p \in Proc : pc[p] = "got" => loc[p] \in Ent /\ loc[p] <= nent /\ (loc[p] # table => dead[loc[p]])
Account == admitted = IF table = None THEN 0 ELSE Burst - tokens[table]

Ind == TypeInv /\ Shape /\ Account

LEMMA InitInd == Init => Ind
  BY ConstAssump DEF Init, Ind, TypeInv, Shape, Account, None, Ent

LEMMA StepInd == Ind /\ [Next]_vars => Ind'
<1> SUFFICES ASSUME Ind, [Next]_vars PROVE Ind'
  OBVIOUS
<1> USE ConstAssump DEF Ind, TypeInv, Shape, Account, None, Ent
<1>1. ASSUME NEW p \in Proc, Lookup(p) PROVE Ind'
  BY <1>1 DEF Lookup
<1>2. ASSUME NEW p \in Proc, Spend(p) PROVE Ind'
  BY <1>2 DEF Spend
<1>3. ASSUME GcDecide PROVE Ind'
  BY <1>3 DEF GcDecide
<1>4. ASSUME GcDelete PROVE Ind'
  BY <1>4 DEF GcDelete
<1>5. ASSUME UNCHANGED vars PROVE Ind'
  BY <1>5 DEF vars
<1> QED
  BY <1>1, <1>2, <1>3, <1>4, <1>5 DEF Next

THEOREM Safety == Spec => [](Inv_C15_BurstBound /\ Inv_NoSpendOnDead)
<1>1. Ind => Inv_C15_BurstBound /\ Inv_NoSpendOnDead
  BY ConstAssump DEF Ind, TypeInv, Shape, Account, Inv_C15_BurstBound, Inv_NoSpendOnDead, None, Ent
<1> QED
  BY InitInd, StepInd, <1>1, PTL DEF Spec
=============================================================================
