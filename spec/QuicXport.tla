------------------------------ MODULE QuicXport ------------------------------
(***************************************************************************)
(* The QUIC upstream transport (internal/upstream/transport/               *)
(* quic_transport.go) as coded: one shared connection `t.c`, a             *)
(* single-flight dial (`t.dialingCall`) that every exchange without a      *)
(* usable connection joins, the retry rule of exchangePayload (retry only  *)
(* when the failing connection was not dialled for this exchange, at most  *)
(* MaxRetry times, only while the context is live) and Close.              *)
(*                                                                         *)
(* One action per critical section of the code:                            *)
(*   GetConn(e)     getConn under t.m: closed / reuse / join / start dial  *)
(*   DialLocked(k)  runDialingCall under t.m after DialContext returned    *)
(*   Signal(k)      runDialingCall: call.c, call.err set; close(call.done) *)
(*   WaitDone(e)    dialingQuicCall.wait returns (done or ctx)             *)
(*   Try(e)         exchangeConn on the chosen connection + retry decision *)
(*   Close          Close under t.m                                        *)
(* Environment: ConnDie(c) (peer closes / idle time-out), Deadline(e).     *)
(*                                                                         *)
(* C14: retries are bounded, happen only on reused connections, and an     *)
(*      exchange that meets only stale connections succeeds when fresh     *)
(*      connections work.  C18: after Close nothing stays open (also a     *)
(*      connection whose dial completes later) and no exchange is left     *)
(*      waiting for anything but its own progress (liveness FailFast).     *)
(***************************************************************************)
EXTENDS Naturals, FiniteSets, TLC

CONSTANTS Ex,            \* exchanges
          NConn,         \* connection identities 1..NConn (one per dial)
          MaxRetry,      \* 5 in the code
          DialMayFail,   \* the environment may fail dials
          ServerFaults,  \* exchanges on live connections may fail and fresh connections may die (faulty server)
          Deadlines,     \* contexts may expire
          BugNoSignal,   \* sensitivity (D15): the closed branch of runDialingCall does not complete the call
          BugRetryFresh, \* sensitivity: failures on fresh connections are retried too
          BugLateLeak    \* sensitivity: the closed branch does not close the late connection

Conn == 1..NConn
VARIABLES closed,     \* t.closed
          cur,        \* t.c : 0 = nil
          call,       \* t.dialingCall : 0 = nil, else the call id (= id of the connection it dials)
          cst,        \* call state per id: "none" | "dialing" | "locked" | "done"
          cres,       \* call result per id: "none" | "conn" | "err" | "closed"
          conn,       \* connection state: "none" | "alive" | "dead" | "closed"
          pc, ccall, cconn, fresh, retry, res, ctxdone,
          ffail       \* history: the exchange failed on a connection dialled for it
vars == <<closed, cur, call, cst, cres, conn, pc, ccall, cconn, fresh, retry, res, ctxdone, ffail>>

Init == /\ closed = FALSE /\ cur = 0 /\ call = 0
        /\ cst = [k \in Conn |-> "none"] /\ cres = [k \in Conn |-> "none"]
        /\ conn = [c \in Conn |-> "none"]
        /\ pc = [e \in Ex |-> "idle"] /\ ccall = [e \in Ex |-> 0] /\ cconn = [e \in Ex |-> 0]
        /\ fresh = [e \in Ex |-> FALSE] /\ retry = [e \in Ex |-> 0]
        /\ res = [e \in Ex |-> "none"] /\ ctxdone = [e \in Ex |-> FALSE] /\ ffail = [e \in Ex |-> FALSE]

Unused == {k \in Conn : cst[k] = "none"}
Finish(e, r) == /\ pc' = [pc EXCEPT ![e] = "done"] /\ res' = [res EXCEPT ![e] = r]

Start(e) == /\ pc[e] = "idle" /\ pc' = [pc EXCEPT ![e] = "getconn"]
            /\ UNCHANGED <<closed, cur, call, cst, cres, conn, ccall, cconn, fresh, retry, res, ctxdone, ffail>>

\* getConn, one critical section
GetConn(e) ==
    /\ pc[e] = "getconn"
    /\ IF closed
       THEN Finish(e, "closed") /\ UNCHANGED <<cur, call, cst, ccall, cconn, fresh>>
       ELSE IF cur # 0 /\ conn[cur] = "alive"
       THEN /\ cconn' = [cconn EXCEPT ![e] = cur] /\ fresh' = [fresh EXCEPT ![e] = FALSE]
            /\ pc' = [pc EXCEPT ![e] = "try"] /\ UNCHANGED <<cur, call, cst, ccall, res>>
       ELSE IF call # 0
       THEN /\ cur' = 0 /\ ccall' = [ccall EXCEPT ![e] = call]
            /\ pc' = [pc EXCEPT ![e] = "wait"] /\ UNCHANGED <<call, cst, cconn, fresh, res>>
       ELSE \E k \in Unused :          \* the next dial: identities are handed out in order
            /\ \A y \in Unused : k <= y
            /\ cur' = 0 /\ call' = k /\ cst' = [cst EXCEPT ![k] = "dialing"]
            /\ ccall' = [ccall EXCEPT ![e] = k]
            /\ pc' = [pc EXCEPT ![e] = "wait"] /\ UNCHANGED <<cconn, fresh, res>>
    /\ UNCHANGED <<closed, cres, conn, retry, ctxdone, ffail>>

\* runDialingCall after DialContext returned ok / not ok, under t.m
DialLocked(k, ok) ==
    /\ cst[k] = "dialing"
    /\ (~ok) => ((DialMayFail /\ Unused # {}) \/ closed)   \* t.ctx is cancelled by Close: the dial may fail then
    /\ call' = 0
    /\ cst' = [cst EXCEPT ![k] = "locked"]
    /\ IF closed
       THEN /\ conn' = [conn EXCEPT ![k] = IF ok THEN (IF BugLateLeak THEN "alive" ELSE "closed") ELSE "none"]
            /\ cres' = [cres EXCEPT ![k] = "closed"]
            /\ UNCHANGED cur
       ELSE /\ conn' = [conn EXCEPT ![k] = IF ok THEN "alive" ELSE "none"]
            /\ cur' = IF ok THEN k ELSE 0
            /\ cres' = [cres EXCEPT ![k] = IF ok THEN "conn" ELSE "err"]
    /\ UNCHANGED <<closed, pc, ccall, cconn, fresh, retry, res, ctxdone, ffail>>

\* close(call.done)
Signal(k) == /\ cst[k] = "locked"
             /\ ~(BugNoSignal /\ cres[k] = "closed")
             /\ cst' = [cst EXCEPT ![k] = "done"]
             /\ UNCHANGED <<closed, cur, call, cres, conn, pc, ccall, cconn, fresh, retry, res, ctxdone, ffail>>

\* dialingQuicCall.wait
WaitDone(e) ==
    /\ pc[e] = "wait"
    /\ \/ /\ cst[ccall[e]] = "done"
          /\ IF cres[ccall[e]] = "conn"
             THEN /\ cconn' = [cconn EXCEPT ![e] = ccall[e]] /\ fresh' = [fresh EXCEPT ![e] = TRUE]
                  /\ pc' = [pc EXCEPT ![e] = "try"] /\ UNCHANGED res
             ELSE /\ Finish(e, IF cres[ccall[e]] = "closed" THEN "closed" ELSE "dialerr")
                  /\ UNCHANGED <<cconn, fresh>>
       \/ /\ ctxdone[e] /\ Finish(e, "ctx") /\ UNCHANGED <<cconn, fresh>>
    /\ UNCHANGED <<closed, cur, call, cst, cres, conn, ccall, retry, ctxdone, ffail>>

\* exchangeConn + the retry decision of exchangePayload.  late: a reply that was read before the connection
\* went away may be handed over afterwards (used by the trace specification: the hook fires after the return)
TryP(e, late) ==
    /\ pc[e] = "try"
    /\ \E ok \in BOOLEAN :
        /\ ok => (conn[cconn[e]] = "alive" \/ late)
        /\ (~ok /\ conn[cconn[e]] = "alive") => (ctxdone[e] \/ ServerFaults)
        /\ ffail' = [ffail EXCEPT ![e] = @ \/ (~ok /\ fresh[e])]
        /\ IF ok THEN Finish(e, "ok") /\ UNCHANGED retry
           ELSE IF (~fresh[e] \/ BugRetryFresh) /\ retry[e] < MaxRetry /\ ~ctxdone[e]
           THEN /\ retry' = [retry EXCEPT ![e] = @ + 1] /\ pc' = [pc EXCEPT ![e] = "getconn"] /\ UNCHANGED res
           ELSE Finish(e, IF ctxdone[e] THEN "ctx" ELSE "connerr") /\ UNCHANGED retry
    /\ UNCHANGED <<closed, cur, call, cst, cres, conn, ccall, cconn, fresh, ctxdone>>
Try(e) == TryP(e, FALSE)

Close == /\ ~closed /\ closed' = TRUE
         /\ conn' = IF cur # 0 /\ conn[cur] = "alive" THEN [conn EXCEPT ![cur] = "closed"] ELSE conn
         /\ UNCHANGED <<cur, call, cst, cres, pc, ccall, cconn, fresh, retry, res, ctxdone, ffail>>

\* the peer closes the connection / it idles out
\* (bounded model: the last connection identity stays usable; without ServerFaults only connections that
\* no exchange holds as freshly dialled die - "the server closed it while idle")
ConnDie(c) == /\ conn[c] = "alive" /\ Unused # {}
              /\ ServerFaults \/ ~\E e \in Ex : \/ (pc[e] = "try" /\ cconn[e] = c /\ fresh[e])
                                                 \/ (pc[e] = "wait" /\ ccall[e] = c)
              /\ conn' = [conn EXCEPT ![c] = "dead"]
              /\ UNCHANGED <<closed, cur, call, cst, cres, pc, ccall, cconn, fresh, retry, res, ctxdone, ffail>>

Deadline(e) == /\ Deadlines /\ ~ctxdone[e] /\ pc[e] \notin {"idle", "done"}
               /\ ctxdone' = [ctxdone EXCEPT ![e] = TRUE]
               /\ UNCHANGED <<closed, cur, call, cst, cres, conn, pc, ccall, cconn, fresh, retry, res, ffail>>

Next == \/ \E e \in Ex : Start(e) \/ GetConn(e) \/ WaitDone(e) \/ Try(e) \/ Deadline(e)
        \/ \E k \in Conn, ok \in BOOLEAN : DialLocked(k, ok)
        \/ \E k \in Conn : Signal(k) \/ ConnDie(k)
        \/ Close
Spec == Init /\ [][Next]_vars
\* the code's own progress: every step except Start, Close and the environment's ConnDie / Deadline
FairSpec == /\ Spec
            /\ \A e \in Ex : WF_vars(GetConn(e)) /\ WF_vars(WaitDone(e)) /\ WF_vars(Try(e))
            /\ \A k \in Conn : WF_vars(\E ok \in BOOLEAN : DialLocked(k, ok)) /\ WF_vars(Signal(k))

-----------------------------------------------------------------------------
TypeOK == /\ cur \in 0..NConn /\ call \in 0..NConn
          /\ \A e \in Ex : retry[e] \in 0..MaxRetry
\* one dial at a time, and t.dialingCall names it
Inv_SingleFlight == /\ Cardinality({k \in Conn : cst[k] = "dialing"}) <= 1
                    /\ \A k \in Conn : cst[k] = "dialing" <=> call = k
\* C14: retry only after a failure on a reused connection, a bounded number of times
Inv_C14_RetryBound == \A e \in Ex : retry[e] <= MaxRetry
Inv_C14_FreshReported == /\ \A e \in Ex : res[e] = "connerr" => (fresh[e] \/ retry[e] = MaxRetry)
                         /\ \A e \in Ex : ffail[e] => pc[e] = "done"    \* reported, not retried
\* C14: with working fresh connections a stale shared connection never fails an exchange
\* (NConn <= MaxRetry + 1 keeps the retry budget from running out on reused connections)
Inv_C14_StaleSurvives == (~DialMayFail /\ ~ServerFaults /\ ~Deadlines /\ NConn <= MaxRetry + 1)
                           => \A e \in Ex : res[e] \in {"none", "ok"} \/ closed
\* nothing but Close makes an exchange fail with the closed error
Inv_C18_ClosedOnlyIfClosed == \A e \in Ex : res[e] = "closed" => closed
\* C18: after Close, once no dial is pending, no connection of the transport is open
Inv_C18_NoLeak == (closed /\ \A k \in Conn : cst[k] # "dialing") => \A c \in Conn : conn[c] # "alive"
\* the shared connection is never replaced while alive (a replaced live connection would leak)
NoOverwrite == [][\A c \in Conn : (cur = c /\ cur' # c /\ conn[c] = "alive") => FALSE]_vars
\* C18 liveness: after Close every exchange ends by the code's own steps (no Deadline needed)
Busy(e) == pc[e] \in {"getconn", "wait", "try"}
C18_FailFast == \A e \in Ex : (closed /\ Busy(e)) ~> ~Busy(e)
\* C14 liveness: every started exchange ends
C14_Ends == \A e \in Ex : Busy(e) ~> ~Busy(e)
=============================================================================
