SPECIFICATION RSpec
CONSTANTS
  Ex <- REx
  NConn = 3
  MaxRetry = 5
  DialMayFail = TRUE
  ServerFaults = TRUE
  Deadlines = TRUE
  BugNoSignal = FALSE
  BugRetryFresh = FALSE
  BugLateLeak = FALSE
INVARIANTS Inv_SingleFlight Inv_C14_RetryBound Inv_C14_FreshReported Inv_C18_ClosedOnlyIfClosed Inv_C18_NoLeak
CHECK_DEADLOCK FALSE
