SPECIFICATION RSpec
CONSTANTS
  Ex <- REx
  NConn = 3
  MaxRetry = 6
  BugEarlyIdle = FALSE
  BugLateDialLeak = FALSE
  BugStrayDial = FALSE
CHECK_DEADLOCK FALSE
