------------------------------ MODULE Lifecycle ------------------------------
(***************************************************************************)
(* Shutdown and start-up (C18).                                            *)
(* Part 1 - a transport's close protocol: a closed flag, the set of        *)
(* connections the transport tracks, connections that exist, dials in      *)
(* flight (whose completion may come after Close: the late connection      *)
(* must be closed by whoever completes the dial) and exchanges.            *)
(* Part 2 - router start-up with a failing listener at position k:         *)
(* everything started before must be released, the error returned, never   *)
(* a panic (a nil closer must never be called).                            *)
(***************************************************************************)
EXTENDS Naturals, FiniteSets, Sequences, TLC

CONSTANTS Conn, Ex,
          LateDialClosed,   \* TRUE: the dial completion checks `closed` (the code); FALSE: sensitivity
          NServers          \* listeners in the configuration (part 2)

VARIABLES closed, tracked, open, dialing, exst, closing,
          started, failedAt, closers, outcome
vars == <<closed, tracked, open, dialing, exst, closing, started, failedAt, closers, outcome>>

Init == /\ closed = FALSE /\ tracked = {} /\ open = {} /\ dialing = {} /\ closing = FALSE
        /\ exst = [e \in Ex |-> "idle"]
        /\ started = 0 /\ failedAt \in 0..NServers /\ closers = <<>> /\ outcome = "none"

-----------------------------------------------------------------------------
(* Part 1 *)
DialStart(e, c) == /\ exst[e] = "idle" /\ ~closed /\ c \notin open /\ c \notin dialing
                   /\ dialing' = dialing \cup {c} /\ exst' = [exst EXCEPT ![e] = "wait"]
                   /\ UNCHANGED <<closed, tracked, open, closing, started, failedAt, closers, outcome>>
\* the dial completes (possibly after Close): register, or close the late connection
DialDone(c) == /\ c \in dialing /\ dialing' = dialing \ {c}
               /\ IF closed /\ LateDialClosed THEN UNCHANGED <<open, tracked>>
                  ELSE open' = open \cup {c} /\ tracked' = tracked \cup {c}
               /\ UNCHANGED <<closed, exst, closing, started, failedAt, closers, outcome>>
ExchangeAfterClose(e) == /\ exst[e] = "idle" /\ closed /\ exst' = [exst EXCEPT ![e] = "failed"]
                         /\ UNCHANGED <<closed, tracked, open, dialing, closing, started, failedAt, closers, outcome>>
\* Close: mark, close every tracked connection, cancel; in-flight exchanges fail
Close == /\ ~closed /\ closed' = TRUE
         /\ open' = open \ tracked /\ tracked' = {}
         /\ exst' = [e \in Ex |-> IF exst[e] = "wait" THEN "failed" ELSE exst[e]]
         /\ UNCHANGED <<dialing, closing, started, failedAt, closers, outcome>>
CloseAgain == closed /\ UNCHANGED vars

Inv_C18_NoLeak == (closed /\ dialing = {}) => open = {}
Inv_C18_FailFast == closed => \A e \in Ex : exst[e] # "wait"

-----------------------------------------------------------------------------
(* Part 2: run() starts the listeners in order; listener failedAt (0 = none) fails *)
StartNext == /\ outcome = "none" /\ started < NServers
             /\ IF started + 1 = failedAt
                THEN \* the failing listener has no closer; everything started before is closed, an error is returned
                     outcome' = "error" /\ closers' = <<>> /\ UNCHANGED started
                ELSE started' = started + 1 /\ closers' = Append(closers, "closer") /\ UNCHANGED outcome
             /\ UNCHANGED <<closed, tracked, open, dialing, exst, closing, failedAt>>
StartDone == /\ outcome = "none" /\ started = NServers /\ outcome' = "running"
             /\ UNCHANGED <<closed, tracked, open, dialing, exst, closing, started, failedAt, closers>>
Inv_C18_StartErr == /\ outcome # "panic"
                    /\ (outcome = "error" => closers = <<>>)          \* nothing stays bound
                    /\ (outcome = "running" => failedAt = 0)
                    /\ \A i \in 1..Len(closers) : closers[i] # "nil"

Next == \/ \E e \in Ex, c \in Conn : DialStart(e, c)
        \/ \E c \in Conn : DialDone(c)
        \/ \E e \in Ex : ExchangeAfterClose(e)
        \/ Close \/ CloseAgain \/ StartNext \/ StartDone
Spec == Init /\ [][Next]_vars
=============================================================================
