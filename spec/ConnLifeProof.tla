--------------------------- MODULE ConnLifeProof ---------------------------
(* TLAPS proof that the repaired idle timer of ConnLife (Fix = TRUE: a timer *)
(* that fires while queries are in flight is re-armed) never closes a        *)
(* connection under a query, for any number of queries, any idle time-out    *)
(* and any upstream delays.  Checked with: tlapm ConnLifeProof.tla           *)
EXTENDS ConnLife, TLAPS

ASSUME ConstAssump == NQ \in Nat /\ Idle \in Nat /\ Delays \subseteq Nat /\ MaxTime \in Nat /\ Fix = TRUE

States == {"unsent", "inflight", "answered", "lost"}
TypeInv == /\ now \in Nat /\ conn \in {"open", "closed"} /\ deadline \in Nat
           /\ q \in [Q -> [st : States, sent : Nat, due : Nat]]
NoLost == \A i \in Q : q[i].st # "lost"
Ind == TypeInv /\ NoLost

LEMMA InitInd == Init => Ind
  BY ConstAssump DEF Init, Ind, TypeInv, NoLost, Q, States

LEMMA StepInd == Ind /\ [Next]_vars => Ind'
<1> SUFFICES ASSUME Ind, [Next]_vars PROVE Ind'
  OBVIOUS
<1> USE ConstAssump DEF Ind, TypeInv, NoLost, Q, States
<1>1. ASSUME NEW i \in Q, NEW d \in Delays, Send(i, d) PROVE Ind'
  BY <1>1 DEF Send
<1>2. ASSUME NEW i \in Q, Finish(i) PROVE Ind'
  BY <1>2 DEF Finish, Due, InFlight
<1>3. ASSUME Fire PROVE Ind'
  <2>1. CASE InFlight # {}
    BY <1>3, <2>1 DEF Fire
  <2>2. CASE InFlight = {}
    <3>1. \A i \in Q : q[i].st # "inflight"
      BY <2>2 DEF InFlight
    <3>2. q' = [i \in Q |-> q[i]]
      BY <1>3, <2>2, <3>1 DEF Fire
    <3> QED
      BY <1>3, <2>2, <3>1, <3>2 DEF Fire
  <2> QED
    BY <2>1, <2>2
<1>4. ASSUME Tick PROVE Ind'
  BY <1>4 DEF Tick
<1>5. ASSUME UNCHANGED vars PROVE Ind'
  BY <1>5 DEF vars
<1> QED
  BY <1>1, <1>2, <1>3, <1>4, <1>5 DEF Next

THEOREM Safety == Spec => []Inv_C03_NoCloseInFlight
<1>1. Ind => Inv_C03_NoCloseInFlight
  BY DEF Ind, NoLost, Inv_C03_NoCloseInFlight
<1> QED
  BY InitInd, StepInd, <1>1, PTL DEF Spec
=============================================================================
