SPECIFICATION Spec
CONSTANTS
  NEx = 2
  NConn = 2
  MaxId = 1
  MaxStream = 2
  MaxRetry = 1
  MaxSends = 2
  BugRetryFresh = FALSE
  BugNoRetire = FALSE
  BugLateLeak = TRUE
VIEW view
INVARIANTS TypeOK Inv_C05_Match Inv_C05_NoShare Inv_C05_DistinctIds Inv_C14_RetryBound Inv_C14_Retired Inv_C18_NoLeak Inv_Streams Inv_QueueLive Inv_IdleNoStreams
PROPERTIES C05_NoReuse C14_FreshReported C18_FailAfterClose
CHECK_DEADLOCK FALSE
