SPECIFICATION RSpec
CONSTANTS
  NEx = 3
  NConn = 3
  MaxId = 2
  MaxStream = 2
  MaxRetry = 5
  MaxSends = 6
  BugRetryFresh = FALSE
  BugNoRetire = FALSE
  BugLateLeak = FALSE
  RareN = 6
  VeryRareN = 30
CHECK_DEADLOCK FALSE
