------------------------------ MODULE ConnLife ------------------------------
(***************************************************************************)
(* Life of one client connection on a stream listener (TCP, DoT, gnet-TCP; *)
(* the DoQ listener's accept loop has the same shape): queries arrive,     *)
(* each is handled concurrently and answered after the upstream's delay,   *)
(* and an idle timer - armed whenever a query has been read - closes the   *)
(* connection (app/router/server_tcp.go handleConn: SetReadDeadline before *)
(* every read; server_tcp_gnet_linux.go: time.AfterFunc reset in           *)
(* OnTraffic; server_quic.go: AcceptStream with a time-out).               *)
(* The timer only hears about queries arriving, not about responses        *)
(* leaving.  Fix = TRUE is the repaired code (/repo 9e99cb6): a timer that *)
(* fires while queries are in flight is re-armed; Fix = FALSE is the code  *)
(* as found, which closes the connection - and loses the responses - when  *)
(* the upstream is slower than the idle time-out.                          *)
(* Time is discrete; Tick is urgent-blocked while a response or the timer  *)
(* is due.                                                                 *)
(***************************************************************************)
EXTENDS Naturals, FiniteSets, Sequences, TLC

CONSTANTS NQ,        \* queries the client may send on this connection
          Idle,      \* idle time-out in ticks
          Delays,    \* upstream delays in ticks
          MaxTime,
          Fix

Q == 1..NQ
VARIABLES now, conn,      \* "open" | "closed"
          deadline,       \* when the idle timer fires
          q,              \* per query: [st, sent, due]   st: "unsent" | "inflight" | "answered" | "lost"
          lastAct,        \* last time something happened on the connection (query read / response written)
          closedAt,
          stim            \* history: the client's script, for replay
vars == <<now, conn, deadline, q, lastAct, closedAt, stim>>

Init == /\ now = 0 /\ conn = "open" /\ deadline = Idle
        /\ q = [i \in Q |-> [st |-> "unsent", sent |-> 0, due |-> 0]]
        /\ lastAct = 0 /\ closedAt = 0 /\ stim = <<>>

InFlight == {i \in Q : q[i].st = "inflight"}
Due == {i \in InFlight : q[i].due = now}

\* the client sends its next query; the server reads it at once: handler started, timer re-armed
Send(i, d) ==
    /\ conn = "open" /\ q[i].st = "unsent" /\ \A j \in Q : j < i => q[j].st # "unsent"
    /\ now < deadline     \* a query that arrives as the timer fires may be lost: outside the property (RFC 7766 6.2.3)
    /\ q' = [q EXCEPT ![i] = [st |-> "inflight", sent |-> now, due |-> now + d]]
    /\ deadline' = now + Idle
    /\ lastAct' = now
    /\ stim' = Append(stim, [at |-> now, delay |-> d])
    /\ UNCHANGED <<now, conn, closedAt>>

\* the upstream answered: the response is written to the connection
Finish(i) ==
    /\ conn = "open" /\ i \in Due
    /\ q' = [q EXCEPT ![i].st = "answered"]
    /\ lastAct' = now
    /\ UNCHANGED <<now, conn, deadline, closedAt, stim>>

\* the idle timer fires
Fire ==
    /\ conn = "open" /\ now = deadline /\ Due = {}
    /\ IF Fix /\ InFlight # {}
       THEN /\ deadline' = now + Idle
            /\ UNCHANGED <<conn, q, closedAt>>
       ELSE /\ conn' = "closed" /\ closedAt' = now
            /\ q' = [i \in Q |-> IF q[i].st = "inflight" THEN [q[i] EXCEPT !.st = "lost"] ELSE q[i]]
            /\ UNCHANGED deadline
    /\ UNCHANGED <<now, lastAct, stim>>

Tick == /\ conn = "open" /\ now < MaxTime /\ Due = {} /\ now # deadline
        /\ now' = now + 1
        /\ UNCHANGED <<conn, deadline, q, lastAct, closedAt, stim>>

Next == (\E i \in Q, d \in Delays : Send(i, d)) \/ (\E i \in Q : Finish(i)) \/ Fire \/ Tick
Spec == Init /\ [][Next]_vars
FairSpec == Spec /\ WF_vars(Next)

\* C03: while the client keeps the connection open no query is lost: the proxy never closes under a query
Inv_C03_NoCloseInFlight == \A i \in Q : q[i].st # "lost"
\* ... and the timer still does its job: an idle connection is closed, no later than Idle after the last activity
Inv_IdleBound == (conn = "open" /\ InFlight = {}) => now <= lastAct + Idle
Inv_NotEarly == conn = "closed" => closedAt >= lastAct + (IF Fix THEN 0 ELSE 0) /\ closedAt + 0 >= deadline
\* every query that was sent is answered (the upstream always answers here)
C03_Answered == \A i \in Q : (q[i].st = "inflight") ~> (q[i].st = "answered")
TypeOK == now \in 0..MaxTime /\ conn \in {"open", "closed"}

=============================================================================
