SPECIFICATION Spec
CONSTANTS
  NQ = 3
  Idle = 2
  Delays = {0, 1, 3, 5}
  MaxTime = 14
  Fix = TRUE
INVARIANTS Emit
CHECK_DEADLOCK FALSE
