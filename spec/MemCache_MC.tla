---------------------------- MODULE MemCache_MC ----------------------------
EXTENDS MemCache
CONSTANTS e1, e2, e3, b1, b2, b3, p1, p2, p3
mc_Key == {"k1", "k2"}
mc_Proc == {p1, p2}
mc_Proc3 == {p1, p2, p3}
mc_Ent == {e1, e2, e3}
mc_Buf == {b1, b2, b3}
mc_Ent2 == {e1, e2}
mc_Buf2 == {b1, b2}
Sym == Permutations(mc_Ent) \cup Permutations(mc_Buf) \cup Permutations(mc_Proc)
Sym3 == Permutations(mc_Ent) \cup Permutations(mc_Buf) \cup Permutations(mc_Proc3)
=============================================================================
