SPECIFICATION Spec
CONSTANTS
  MaxAn = 2
  MaxAr = 0
  KeyWithLen = FALSE
INVARIANTS Inv_C02_RoundTripPlain Inv_C02_RoundTripCompressed Inv_C02_Len Inv_CompressedNotLonger
CHECK_DEADLOCK FALSE
