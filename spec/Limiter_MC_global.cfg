SPECIFICATION Spec
CONSTANTS
  Addrs <- mc_Addrs
  Rate = 1000
  Burst = 2
  V4Mask = 0
  V6Mask = 0
  GRate = 2000
  GBurst = 3
  Costs <- mc_Costs
  MaxT = 3
  Ttl = 0
  GcRefilled = TRUE
  MaxArrivals = 4
VIEW viewAdm
INVARIANTS TypeOK Inv_C15_Budget
PROPERTIES C15_Isolation
CHECK_DEADLOCK FALSE
