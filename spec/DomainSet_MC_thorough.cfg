SPECIFICATION Spec
CONSTANTS
  Labels <- mc_Labels3
  MaxDepth = 3
  MaxAdds = 4
  KeyMode <- mc_Exact
  Subsume = TRUE
VIEW view
INVARIANTS TypeOK Inv_C11_Equiv
PROPERTIES C11_Monotone
CHECK_DEADLOCK FALSE
