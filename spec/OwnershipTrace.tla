---------------------------- MODULE OwnershipTrace ----------------------------
(* Trace validation for C20: ownership events of pooled objects recorded by   *)
(* the verif pool hook (buf events) and the object hooks (obj events) during the stress  *)
(* and transport runs.  Normal get/release events are recorded for a sample    *)
(* of objects (typestate per object is independent); anomalies reported by     *)
(* the pool hook itself (release of something not held, broken poison, a held  *)
(* buffer handed out) are always recorded.  A race detector report is an       *)
(* event without a specification action.                                       *)
EXTENDS TraceBase, FiniteSets

VARIABLES l, held
Init == l = 1 /\ held = {} /\ InitMark
IsEvent(e) == l <= Len(Trace) /\ Trace[l].ev = e /\ l' = l + 1 /\ Mark(l)

Seg == IsEvent("seg") /\ held' = {}

Get == /\ IsEvent("own.get")
       /\ LET ev == Trace[l]  k == <<ev.kind, ev.id>> IN
          /\ Report(l, IF k \in held \/ ev.washeld THEN {"Inv_C20_NoLiveHandout"} ELSE {})
          /\ held' = held \cup {k}

Release == /\ IsEvent("own.release")
           /\ LET ev == Trace[l]  k == <<ev.kind, ev.id>> IN
              /\ Report(l, IF ~ev.held THEN {"Inv_C20_NoDoubleRelease"}
                           ELSE IF ev.sampled /\ k \notin held THEN {"Inv_C20_NoDoubleRelease"} ELSE {})
              /\ held' = held \ {k}

QExit == /\ IsEvent("own.qexit")
         /\ Report(l, IF Trace[l].intact THEN {} ELSE {"Inv_C20_NoWriteAfterRelease"})
         /\ UNCHANGED held

\* poison octets (0xDB runs) seen on the wire by a peer: something was read after it was released
PoisonSeen == IsEvent("own.poison") /\ Report(l, {"Inv_C20_NoReadAfterRelease"}) /\ UNCHANGED held

Next == Seg \/ Get \/ Release \/ QExit \/ PoisonSeen
Spec == Init /\ [][Next]_<<l, held>>
Post == Consumed
=============================================================================
