---------------------------- MODULE DomainSet_MC ----------------------------
EXTENDS DomainSet, Json

L25 == [i \in 1..25 |-> 120]             \* a label longer than the 24-octet short-key limit
mc_Labels3 == {<<97>>, <<98>>, <<97, 0>>}      \* "a", "b", "a\0"
mc_Labels4 == {<<97>>, <<98>>, <<97, 0>>, L25}
mc_Exact == "exact"
mc_Padded == "padded"

\* stimulus export: one insertion history per distinct abstract state (VIEW hides hist)
EmitStim == PrintT(<<"STIM", ToJson(hist)>>)
ASSUME PrintT(<<"UNIVERSE", ToJson(SetToSeq(Names))>>)
=============================================================================
