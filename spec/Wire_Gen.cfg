SPECIFICATION Spec
CONSTANTS
  MaxAn = 2
  MaxAr = 0
  KeyWithLen = TRUE
INVARIANTS EmitStim
CHECK_DEADLOCK FALSE
