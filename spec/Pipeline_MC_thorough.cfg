SPECIFICATION Spec
CONSTANTS
  e1 = e1
  e2 = e2
  e3 = e3
  e4 = e4
  Ex <- mc_Ex4
  MaxId = 2
  MaxSends = 4
  MaxDups = 1
  Wrap = FALSE
SYMMETRY Sym4
VIEW view
INVARIANTS TypeOK Inv_C05_Match Inv_C05_NoShare Inv_C05_DistinctIds Inv_QueueLive
CHECK_DEADLOCK FALSE
