SPECIFICATION Spec
CONSTANTS
  Labels <- mc_Labels3
  MaxDepth = 2
  MaxAdds = 2
  KeyMode <- mc_Padded
  Subsume = FALSE
VIEW view
INVARIANTS TypeOK Inv_C11_Equiv
PROPERTIES C11_Monotone
CHECK_DEADLOCK FALSE
