------------------------------ MODULE Pipeline ------------------------------
(***************************************************************************)
(* One multiplexed upstream connection (C05, parts of C14/C18):            *)
(* internal/upstream/transport/pipeline_conn.go.                           *)
(*                                                                         *)
(* One action per critical section of the code:                            *)
(*   AddQueue      addQueueC  (under m)        assigns the wire ID          *)
(*   Write/WriteFail  write()                  no lock                      *)
(*   Lookup        readLoop: getQueueC (under m.RLock)                      *)
(*   Send          readLoop: non-blocking send on the waiter's channel      *)
(*   ReturnReply / ReturnCtx / ReturnConnErr   the select in exchange()     *)
(*   DeleteQueue   deferred deleteQueueC (under m), retires the connection  *)
(*   CloseWithErr  closeWithErr                                             *)
(* The server is an adversary: it may send a reply for ANY wire ID at any   *)
(* time (unsolicited, early, late, duplicate); the network may duplicate    *)
(* and drop.                                                                *)
(***************************************************************************)
EXTENDS Naturals, FiniteSets, TLC

CONSTANTS Ex,        \* exchanges
          MaxId,     \* wire IDs are 0..MaxId (65535 in the code)
          MaxSends,  \* server sends
          MaxDups,
          Wrap       \* FALSE: the code (EoL when the ID space is used up); TRUE: a wrapping counter (sensitivity)

NoTok == 0
NoEx == "noex"
None == [qid |-> 0, tok |-> NoTok, ch |-> NoEx, some |-> FALSE]

VARIABLES nextQid,   \* 0..MaxId+1
          queue,     \* waiter table: function qid -> exchange (its channel)
          chan,      \* per exchange: 1-buffered channel content (NoTok = empty)
          ex,        \* per exchange: [st, qid, got, res]
          inflight,  \* replies on the wire: set of <<qid, tok>>
          looked,    \* read loop between getQueueC and the channel send
          closed,
          srvSent,   \* history: every <<qid, tok>> the server sent
          ntok, ndup

vars == <<nextQid, queue, chan, ex, inflight, looked, closed, srvSent, ntok, ndup>>
view == <<nextQid, queue, chan, ex, inflight, looked, closed, ntok, ndup>>

Ids == 0..MaxId
Tokens == 1..MaxSends

Init == /\ nextQid = 0 /\ queue = <<>> /\ chan = [e \in Ex |-> NoTok]
        /\ ex = [e \in Ex |-> [st |-> "idle", qid |-> 0, got |-> NoTok, res |-> "none"]]
        /\ inflight = {} /\ looked = None /\ closed = FALSE /\ srvSent = {} /\ ntok = 0 /\ ndup = 0

Without(f, k) == [x \in DOMAIN f \ {k} |-> f[x]]
With(f, k, v) == [x \in DOMAIN f \cup {k} |-> IF x = k THEN v ELSE f[x]]

\* addQueueC does not look at `closed`: an exchange may register on a dead connection and
\* is then thrown out by the failing write or by the connection context.
AddQueue(e) ==
    /\ ex[e].st = "idle"
    /\ IF nextQid > MaxId /\ ~Wrap
       THEN /\ ex' = [ex EXCEPT ![e].st = "done", ![e].res = "eol"]
            /\ UNCHANGED <<nextQid, queue>>
       ELSE LET q == nextQid % (MaxId + 1) IN
            /\ ex' = [ex EXCEPT ![e].st = "added", ![e].qid = q]
            /\ queue' = With(queue, q, e)
            /\ nextQid' = IF Wrap THEN (nextQid + 1) % (MaxId + 1) ELSE nextQid + 1
    /\ UNCHANGED <<chan, inflight, looked, closed, srvSent, ntok, ndup>>

Write(e) ==
    /\ ex[e].st = "added" /\ ~closed
    /\ ex' = [ex EXCEPT ![e].st = "written"]
    /\ UNCHANGED <<nextQid, queue, chan, inflight, looked, closed, srvSent, ntok, ndup>>

\* write error: on a closed connection always; on an open one the datagram may be refused
\* (EMSGSIZE) without closing anything.
WriteFail(e) ==
    /\ ex[e].st = "added"
    /\ ex' = [ex EXCEPT ![e].st = "ret", ![e].res = "werr"]
    /\ UNCHANGED <<nextQid, queue, chan, inflight, looked, closed, srvSent, ntok, ndup>>

ServerSend(q) ==
    /\ ntok < MaxSends /\ ~closed
    /\ ntok' = ntok + 1
    /\ inflight' = inflight \cup {<<q, ntok + 1>>}
    /\ srvSent' = srvSent \cup {<<q, ntok + 1>>}
    /\ UNCHANGED <<nextQid, queue, chan, ex, looked, closed, ndup>>

Drop(m) == /\ m \in inflight /\ inflight' = inflight \ {m}
           /\ UNCHANGED <<nextQid, queue, chan, ex, looked, closed, srvSent, ntok, ndup>>

\* the read loop reads one reply and looks the waiter up under the read lock;
\* dup = TRUE leaves a copy on the wire (network duplication)
Lookup(m, dup) ==
    /\ m \in inflight /\ ~looked.some /\ ~closed
    /\ (dup => ndup < MaxDups)
    /\ ndup' = IF dup THEN ndup + 1 ELSE ndup
    /\ inflight' = IF dup THEN inflight ELSE inflight \ {m}
    /\ looked' = [qid |-> m[1], tok |-> m[2], some |-> TRUE,
                  ch |-> IF m[1] \in DOMAIN queue THEN queue[m[1]] ELSE NoEx]
    /\ UNCHANGED <<nextQid, queue, chan, ex, closed, srvSent, ntok>>

\* ... and, after releasing it, offers the reply to that waiter's channel without blocking
Send ==
    /\ looked.some
    /\ chan' = IF looked.ch # NoEx /\ chan[looked.ch] = NoTok
               THEN [chan EXCEPT ![looked.ch] = looked.tok] ELSE chan
    /\ looked' = None
    /\ UNCHANGED <<nextQid, queue, ex, inflight, closed, srvSent, ntok, ndup>>

ReturnReply(e) ==
    /\ ex[e].st = "written" /\ chan[e] # NoTok
    /\ ex' = [ex EXCEPT ![e].st = "ret", ![e].res = "reply", ![e].got = chan[e]]
    /\ UNCHANGED <<nextQid, queue, chan, inflight, looked, closed, srvSent, ntok, ndup>>

ReturnCtx(e) ==
    /\ ex[e].st = "written"
    /\ ex' = [ex EXCEPT ![e].st = "ret", ![e].res = "ctx"]
    /\ UNCHANGED <<nextQid, queue, chan, inflight, looked, closed, srvSent, ntok, ndup>>

ReturnConnErr(e) ==
    /\ ex[e].st = "written" /\ closed
    /\ ex' = [ex EXCEPT ![e].st = "ret", ![e].res = "connerr"]
    /\ UNCHANGED <<nextQid, queue, chan, inflight, looked, closed, srvSent, ntok, ndup>>

DeleteQueue(e) ==
    /\ ex[e].st = "ret"
    /\ LET q2 == IF ex[e].qid \in DOMAIN queue /\ queue[ex[e].qid] = e THEN Without(queue, ex[e].qid) ELSE queue IN
       /\ queue' = q2
       /\ closed' = (closed \/ (nextQid > MaxId /\ DOMAIN q2 = {}))
    /\ ex' = [ex EXCEPT ![e].st = "done"]
    /\ UNCHANGED <<nextQid, chan, inflight, looked, srvSent, ntok, ndup>>

CloseWithErr ==
    /\ ~closed /\ closed' = TRUE
    /\ UNCHANGED <<nextQid, queue, chan, ex, inflight, looked, srvSent, ntok, ndup>>

Next == \/ \E e \in Ex : AddQueue(e) \/ Write(e) \/ WriteFail(e) \/ ReturnReply(e) \/ ReturnCtx(e)
                         \/ ReturnConnErr(e) \/ DeleteQueue(e)
        \/ \E q \in Ids : ServerSend(q)
        \/ \E m \in inflight : Drop(m) \/ Lookup(m, TRUE) \/ Lookup(m, FALSE)
        \/ Send \/ CloseWithErr

Spec == Init /\ [][Next]_vars

-----------------------------------------------------------------------------
Registered(e) == ex[e].st \in {"added", "written", "ret"} \/ (ex[e].st = "done" /\ ex[e].res # "eol")

\* a returned reply was sent by the server with the wire ID assigned to this exchange
Inv_C05_Match == \A e \in Ex : ex[e].got # NoTok => <<ex[e].qid, ex[e].got>> \in srvSent
\* no reply satisfies two exchanges
Inv_C05_NoShare == \A a, b \in Ex : (a # b /\ ex[a].got # NoTok) => ex[a].got # ex[b].got
\* a wire ID is never reused during the connection's life
Inv_C05_DistinctIds == \A a, b \in Ex : (a # b /\ Registered(a) /\ Registered(b)) => ex[a].qid # ex[b].qid
C05_NoReuse == [][nextQid' >= nextQid]_vars
\* the waiter table only holds live exchanges
Inv_QueueLive == \A q \in DOMAIN queue : ex[queue[q]].st \in {"added", "written", "ret"} /\ ex[queue[q]].qid = q
TypeOK == /\ nextQid \in 0..(MaxId + 1) /\ closed \in BOOLEAN /\ ntok \in 0..MaxSends
          /\ DOMAIN queue \subseteq Ids
=============================================================================
