SPECIFICATION Spec
CONSTANTS
  Kind = "pipeline"
  Deadline = 2
  MaxClock = 4
  MaxRetry = 2
  SendBufFull = FALSE
  WriteDeadline = TRUE
INVARIANTS Inv_C14_Deadline Inv_C14_RetryBound Inv_C14_StaleNotFatal
CHECK_DEADLOCK FALSE
