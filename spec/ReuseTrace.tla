----------------------------- MODULE ReuseTrace -----------------------------
(* Trace validation for C06: hooks of reuse_transport.go (rc.* under the      *)
(* connection's lock or from the single worker that owns the connection,     *)
(* rt.* under the transport's lock), the scripted server's view per          *)
(* connection, and the exchanges as seen by the callers.                      *)
EXTENDS TraceBase, FiniteSets

VARIABLES l,
          cs,      \* conn -> [out, dirty, serving, closed, srvOut]
          tokEx,   \* token -> exchange whose query the server answered with it
          exid
tvars == <<l, cs, tokEx, exid>>

Init == l = 1 /\ cs = <<>> /\ tokEx = <<>> /\ exid = <<>> /\ InitMark
IsEvent(e) == l <= Len(Trace) /\ Trace[l].ev = e /\ l' = l + 1 /\ Mark(l)
With(f, k, v) == [x \in DOMAIN f \cup {k} |-> IF x = k THEN v ELSE f[x]]
New == [out |-> 0, dirty |-> FALSE, serving |-> FALSE, closed |-> FALSE, srvOut |-> 0]
C(c) == IF c \in DOMAIN cs THEN cs[c] ELSE New
Clean(c) == C(c).out = 0 /\ ~C(c).dirty

Seg == IsEvent("seg") /\ cs' = <<>> /\ tokEx' = <<>> /\ exid' = <<>>

ExitIdle == /\ IsEvent("rc.exitIdle")
            /\ LET ev == Trace[l] IN
               /\ Report(l, IF ~ev.closed /\ C(ev.conn).serving THEN {"Inv_C06_Exclusive"} ELSE {})
               /\ cs' = With(cs, ev.conn, [C(ev.conn) EXCEPT !.serving = IF ev.closed THEN @ ELSE TRUE])
            /\ UNCHANGED <<tokEx, exid>>

GetIdle == /\ IsEvent("rt.getIdle")
           /\ Report(l, IF Clean(Trace[l].conn) THEN {} ELSE {"Inv_C06_CleanIdle"})
           /\ UNCHANGED <<cs, tokEx, exid>>

Wrote == /\ IsEvent("rc.wrote")
         /\ LET ev == Trace[l] IN
            /\ Report(l, IF Clean(ev.conn) THEN {} ELSE {"Inv_C06_OneOutstanding"})
            /\ cs' = With(cs, ev.conn, [C(ev.conn) EXCEPT !.out = IF ev.ok THEN @ + 1 ELSE @,
                                                        !.dirty = IF ev.ok THEN @ ELSE TRUE])
         /\ UNCHANGED <<tokEx, exid>>

Read == /\ IsEvent("rc.read")
        /\ LET ev == Trace[l] IN
           cs' = With(cs, ev.conn, [C(ev.conn) EXCEPT !.out = IF ev.ok /\ @ > 0 THEN @ - 1 ELSE @,
                                                       !.dirty = IF ev.ok THEN @ ELSE TRUE])
        /\ UNCHANGED <<tokEx, exid>>

EnterIdle == /\ IsEvent("rc.enterIdle")
             /\ Report(l, IF Clean(Trace[l].conn) THEN {} ELSE {"Inv_C06_CleanIdle"})
             /\ cs' = With(cs, Trace[l].conn, [C(Trace[l].conn) EXCEPT !.serving = FALSE])
             /\ UNCHANGED <<tokEx, exid>>

Release == /\ IsEvent("rt.release")
           /\ Report(l, IF Trace[l].ok /\ ~Clean(Trace[l].conn) /\ ~C(Trace[l].conn).closed THEN {"Inv_C06_CleanIdle"} ELSE {})
           /\ UNCHANGED <<cs, tokEx, exid>>

Closed == /\ (IsEvent("rc.close") \/ (IsEvent("rc.closeIfIdle") /\ Trace[l].did))
          /\ cs' = With(cs, Trace[l].conn, [C(Trace[l].conn) EXCEPT !.closed = TRUE])
          /\ UNCHANGED <<tokEx, exid>>

Skip == /\ (IsEvent("rt.register") \/ IsEvent("rt.close") \/ IsEvent("srv.abort")
            \/ (IsEvent("rc.closeIfIdle") /\ ~Trace[l].did))
        /\ UNCHANGED <<cs, tokEx, exid>>

SrvRecv == /\ IsEvent("srv.recv")
           /\ LET ev == Trace[l] IN
              /\ Report(l, (IF C(ev.conn).srvOut = 0 THEN {} ELSE {"Inv_C06_OneOutstanding"})
                            \* what the server reads is the query of an exchange that has begun
                            \cup (IF ev.ex \in DOMAIN exid /\ exid[ev.ex] = ev.qid THEN {} ELSE {"Inv_C06_StrayQuery"}))
              /\ cs' = With(cs, ev.conn, [C(ev.conn) EXCEPT !.srvOut = @ + 1])
           /\ UNCHANGED <<tokEx, exid>>

SrvSend == /\ IsEvent("srv.send")
           /\ LET ev == Trace[l] IN
              /\ cs' = With(cs, ev.conn, [C(ev.conn) EXCEPT !.srvOut = IF @ > 0 THEN @ - 1 ELSE 0])
              /\ tokEx' = With(tokEx, ev.tok, ev.ex)
           /\ UNCHANGED exid

ExBegin == IsEvent("ex.begin") /\ exid' = With(exid, Trace[l].ex, Trace[l].id) /\ UNCHANGED <<cs, tokEx>>

ExEnd == /\ IsEvent("ex.end")
         /\ LET ev == Trace[l] IN
            Report(l, IF ev.kind = "reply"
                      THEN (IF ev.tok \in DOMAIN tokEx /\ tokEx[ev.tok] = ev.ex /\ ev.rq = ev.ex THEN {} ELSE {"Inv_C06_OwnReply"})
                           \cup (IF ev.ex \in DOMAIN exid /\ exid[ev.ex] = ev.id THEN {} ELSE {"Inv_C06_OwnId"})
                      ELSE {})
         /\ UNCHANGED <<cs, tokEx, exid>>

\* a payload that no two-octet length prefix can frame is refused
OverEnd == /\ IsEvent("over.end")
           /\ Report(l, IF Trace[l].refused /\ ~Trace[l].reply THEN {} ELSE {"Inv_C06_OversizeRefused"})
           /\ UNCHANGED <<cs, tokEx, exid>>

Next == OverEnd \/ Seg \/ ExitIdle \/ GetIdle \/ Wrote \/ Read \/ EnterIdle \/ Release \/ Closed \/ Skip
        \/ SrvRecv \/ SrvSend \/ ExBegin \/ ExEnd
Spec == Init /\ [][Next]_tvars
Post == Consumed
=============================================================================
