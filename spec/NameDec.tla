------------------------------- MODULE NameDec -------------------------------
(***************************************************************************)
(* The name decoder of internal/dnsmsg (NameBuilder.unpack) as an explicit *)
(* step machine over an arbitrary octet string: one action per iteration   *)
(* of its loop.  Checked exhaustively for every input over a small         *)
(* alphabet chosen to contain every interesting octet class (end marker,   *)
(* short labels, maximal label, reserved prefix, pointer octets):          *)
(*   - every octet access is inside the input (no read out of bounds),     *)
(*   - the loop terminates on every input, including pointer loops.        *)
(* HopLimit = 0 removes the limit on followed pointers (sensitivity).      *)
(***************************************************************************)
EXTENDS Naturals, Sequences, FiniteSets, TLC, Json

CONSTANTS Sigma, MaxBody, HopLimit, Start

VARIABLES b, pc, cur, hops, nlen, oob
vars == <<b, pc, cur, hops, nlen, oob>>

Hdr == [i \in 1..Start |-> 0]
Bodies == UNION {[1..n -> Sigma] : n \in 0..MaxBody}
Init == /\ b \in {Hdr \o x : x \in Bodies}
        /\ pc = "loop" /\ cur = Start /\ hops = 0 /\ nlen = 0 /\ oob = FALSE

InRange(i) == i >= 0 /\ i < Len(b)
\* reading offset i (0-based); an access outside the input is recorded
Rd(i) == IF InRange(i) THEN b[i + 1] ELSE 0

Step ==
    /\ pc = "loop"
    /\ IF cur >= Len(b) THEN pc' = "err" /\ UNCHANGED <<cur, hops, nlen, oob>>
       ELSE LET c == Rd(cur) IN
            IF c = 0 THEN pc' = "done" /\ UNCHANGED <<cur, hops, nlen, oob>>
            ELSE IF c < 64
                 THEN IF cur + 1 + c > Len(b) \/ nlen + 1 + c + 1 > 255
                      THEN pc' = "err" /\ UNCHANGED <<cur, hops, nlen, oob>>
                      ELSE /\ oob' = (oob \/ ~InRange(cur + 1) \/ ~InRange(cur + c))   \* the label octets copied
                           /\ cur' = cur + 1 + c /\ nlen' = nlen + 1 + c /\ UNCHANGED <<pc, hops>>
            ELSE IF c >= 192
                 THEN IF cur + 1 >= Len(b) \/ (HopLimit > 0 /\ hops + 1 > HopLimit)
                      THEN pc' = "err" /\ UNCHANGED <<cur, hops, nlen, oob>>
                      ELSE /\ oob' = (oob \/ ~InRange(cur + 1))
                           /\ cur' = (c - 192) * 256 + Rd(cur + 1)
                           /\ hops' = (IF HopLimit > 0 THEN hops + 1 ELSE 1) /\ UNCHANGED <<pc, nlen>>
            ELSE pc' = "err" /\ UNCHANGED <<cur, hops, nlen, oob>>
    /\ UNCHANGED b

Spec == Init /\ [][Step]_vars /\ WF_vars(Step)

EmitInput == (cur = Start /\ hops = 0 /\ nlen = 0 /\ pc = "loop") => PrintT(<<"IN", ToJson(b)>>)
Inv_C01_InBounds == ~oob
Inv_C01_NameFits == nlen <= 254
C01_Terminates == <>(pc \in {"done", "err"})
=============================================================================
