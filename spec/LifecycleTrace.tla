---------------------------- MODULE LifecycleTrace ----------------------------
(* Trace validation for C18 (upstream side): per upstream kind and close        *)
(* scenario the driver records exchanges (phase before / during / after the     *)
(* first Close), both Close calls, and a census of the process's sockets and    *)
(* of the connections the scripted server still sees.                           *)
EXTENDS TraceBase, FiniteSets

ClosePrompt == 2000     \* Close returns promptly
FailFast == 1000        \* in-flight exchanges end, later ones fail, within this many ms

VARIABLES l, ex, closeAt, closeEnd
tvars == <<l, ex, closeAt, closeEnd>>
Init == l = 1 /\ ex = <<>> /\ closeAt = <<>> /\ closeEnd = <<>> /\ InitMark
IsEvent(e) == l <= Len(Trace) /\ Trace[l].ev = e /\ l' = l + 1 /\ Mark(l)
With(f, k, v) == [x \in DOMAIN f \cup {k} |-> IF x = k THEN v ELSE f[x]]

Begin == IsEvent("life.begin") /\ UNCHANGED <<ex, closeAt, closeEnd>>
FxBegin == IsEvent("fx.begin") /\ ex' = With(ex, Trace[l].ex, Trace[l]) /\ UNCHANGED <<closeAt, closeEnd>>

CloseBegin == /\ IsEvent("close.begin")
              /\ closeAt' = IF Trace[l].n = 1 THEN With(closeAt, Trace[l].sc, Trace[l].t) ELSE closeAt
              /\ UNCHANGED <<ex, closeEnd>>
CloseEnd == /\ IsEvent("close.end")
            /\ LET ev == Trace[l] IN
               /\ Report(l, (IF ev.returned /\ ev.panic = "" THEN {} ELSE {"Inv_C18_CloseReturns"})
                         \cup (IF ev.sc \in DOMAIN closeAt /\ ev.n = 1 /\ ev.t - closeAt[ev.sc] > ClosePrompt THEN {"Inv_C18_CloseReturns"} ELSE {}))
               /\ closeEnd' = IF ev.n = 1 THEN With(closeEnd, ev.sc, ev.t) ELSE closeEnd
            /\ UNCHANGED <<ex, closeAt>>

FxEnd == /\ IsEvent("fx.end")
         /\ LET ev == Trace[l]  b == ex[ev.ex] IN
            Report(l, (IF ev.kind = "panic" THEN {"Inv_C18_NoCrash"} ELSE {})
                   \* exchanges in flight at Close fail instead of hanging
                   \cup (IF ev.phase = "during" /\ ev.sc \in DOMAIN closeEnd /\ ev.t > closeEnd[ev.sc] + FailFast THEN {"Inv_C18_FailFast"} ELSE {})
                   \* exchanges after Close fail, and fast
                   \cup (IF ev.phase = "after" /\ (ev.kind = "reply" \/ ev.t - b.t > FailFast) THEN {"Inv_C18_FailAfterClose"} ELSE {}))
         /\ UNCHANGED <<ex, closeAt, closeEnd>>

Census == /\ IsEvent("census")
          /\ Report(l, IF Trace[l].fds <= Trace[l].basefds /\ Trace[l].srvconns = 0 THEN {} ELSE {"Inv_C18_NoLeak"})
          /\ UNCHANGED <<ex, closeAt, closeEnd>>

\* router start-up with a failing listener: an error, never a panic, and what was started is released
Boot18 == /\ IsEvent("boot18")
          /\ LET ev == Trace[l] IN
             Report(l, IF ~ev.started /\ ~ev.panicked /\ ev.rebound THEN {} ELSE {"Inv_C18_StartErr"})
          /\ UNCHANGED <<ex, closeAt, closeEnd>>
\* closing the whole router: prompt, no crash, idempotent, every listening socket released
RClose == /\ IsEvent("rclose")
          /\ LET ev == Trace[l] IN
             Report(l, (IF ev.panic = "" /\ ev.dur <= ClosePrompt THEN {} ELSE {"Inv_C18_CloseReturns"})
                    \cup (IF ev.rebound /\ ev.fds <= ev.basefds THEN {} ELSE {"Inv_C18_NoLeak"})
                    \* ... and not a moment later: when Close has returned every listening address is free
                    \cup (IF ev.boundatreturn = <<>> THEN {} ELSE {"Inv_C18_NoListenerAtReturn"})
                    \* queries that were in flight (their upstream silent) are over soon after Close, not at their time-out
                    \cup (IF ev.infllate = <<>> THEN {} ELSE {"Inv_C18_InFlightEnds"}))
          /\ UNCHANGED <<ex, closeAt, closeEnd>>

\* the bulk phase that uses up a connection's transaction IDs (its exchanges are not recorded one by one)
Bulk == IsEvent("bulk") /\ UNCHANGED <<ex, closeAt, closeEnd>>
Next == Bulk \/ Boot18 \/ RClose \/ Begin \/ FxBegin \/ CloseBegin \/ CloseEnd \/ FxEnd \/ Census
Spec == Init /\ [][Next]_tvars
Post == Consumed
=============================================================================
