SPECIFICATION TSpec
CONSTANTS
  Ex <- TraceEx
  NConn = 24
  MaxRetry = 5
  DialMayFail = TRUE
  ServerFaults = TRUE
  Deadlines = TRUE
  BugNoSignal = FALSE
  BugRetryFresh = FALSE
  BugLateLeak = FALSE
POSTCONDITION Post
CHECK_DEADLOCK FALSE
