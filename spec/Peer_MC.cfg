SPECIFICATION Spec
INVARIANTS Emit Inv_PortExplicitOrDefault Inv_NetByScheme
CHECK_DEADLOCK FALSE
