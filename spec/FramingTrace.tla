---------------------------- MODULE FramingTrace ----------------------------
(* Trace validation for C13: per client connection the queries that were      *)
(* pipelined (c13.conn) and the complete return stream as read (c13.ret).     *)
(* The return stream is parsed by the specification itself.                   *)
EXTENDS TraceBase, Wire, FiniteSets

VARIABLES l, conns
Init == l = 1 /\ conns = <<>> /\ InitMark
IsEvent(e) == l <= Len(Trace) /\ Trace[l].ev = e /\ l' = l + 1 /\ Mark(l)
With(f, k, v) == [x \in DOMAIN f \cup {k} |-> IF x = k THEN v ELSE f[x]]

\* split the stream into frames; ok = FALSE when it ends inside a frame
RECURSIVE Frames(_, _, _)
Frames(b, off, acc) ==
    IF off = Len(b) THEN [ok |-> TRUE, frames |-> acc]
    ELSE IF off + 2 > Len(b) THEN [ok |-> FALSE, frames |-> acc]
    ELSE LET n == U16At(b, off) IN
         IF off + 2 + n > Len(b) THEN [ok |-> FALSE, frames |-> acc]
         ELSE Frames(b, off + 2 + n, Append(acc, Slice(b, off + 2, n)))

LowerB(x) == IF x >= 65 /\ x <= 90 THEN x + 32 ELSE x
LowerN(n) == [i \in 1..Len(n) |-> [j \in 1..Len(n[i]) |-> LowerB(n[i][j])]]

Conn == IsEvent("c13.conn") /\ conns' = With(conns, Trace[l].conn, Trace[l])
Skip == (IsEvent("cfg") \/ IsEvent("up.recv") \/ IsEvent("up.send") \/ IsEvent("rt.req") \/ IsEvent("rt.rule")
         \/ IsEvent("rt.fwd") \/ IsEvent("rt.done") \/ IsEvent("cache.get") \/ IsEvent("lim.cl")) /\ UNCHANGED conns

Ret == /\ IsEvent("c13.ret")
       /\ LET ev == Trace[l]
              c == conns[ev.conn]
              fr == Frames(ev.bytes, 0, <<>>)
              decs == [i \in 1..Len(fr.frames) |-> DecMsg(fr.frames[i])]
              allDec == \A i \in 1..Len(decs) : decs[i].ok
              idOf(i) == decs[i].msg.id
              nq == Len(c.ids)
              \* every query answered exactly once (IDs are unique per connection)
              \* (mode "stall": the client paused inside a frame for longer than the idle time-out; the proxy may
              \* have closed the connection, so responses may be missing - but none is doubled or made up)
              once == \A j \in 1..nq : LET k == Cardinality({i \in 1..Len(decs) : idOf(i) = c.ids[j]})
                                        IN IF c.mode = "stall" THEN k <= 1 ELSE k = 1
              noExtra == \A i \in 1..Len(decs) : \E j \in 1..nq : idOf(i) = c.ids[j]
              \* the response to query j echoes its question (interleaved octets would not)
              echo == \A i \in 1..Len(decs) : \A j \in 1..nq :
                         idOf(i) = c.ids[j] => (Len(decs[i].msg.qd) = 1 /\ LowerN(decs[i].msg.qd[1].name) = LowerN(c.names[j]))
              rc(i) == decs[i].msg.bits % 16
              rcOk == \A i \in 1..Len(decs) : rc(i) = 0 \/ (rc(i) = 5 /\ nq > c.limit)
          IN Report(l, (IF fr.ok THEN {} ELSE {"Inv_C13_OutFrames"})
                    \cup (IF allDec THEN {} ELSE {"Inv_C13_OutFrames"})
                    \cup (IF allDec /\ once /\ noExtra THEN {} ELSE {"Inv_C13_DecodedOnce"})
                    \cup (IF allDec /\ echo THEN {} ELSE {"Inv_C13_Interleaved"})
                    \cup (IF allDec /\ rcOk THEN {} ELSE {"Inv_C13_Refused"}))
       /\ UNCHANGED conns

Next == Conn \/ Skip \/ Ret
Spec == Init /\ [][Next]_<<l, conns>>
Post == Consumed
=============================================================================
