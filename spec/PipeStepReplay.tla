--------------------------- MODULE PipeStepReplay ---------------------------
(* Behaviours of PipeStep for replay into the real PipelineTransport: TLC runs *)
(* in simulation mode and prints, for every state of a random behaviour, all   *)
(* outgoing edges (<<"E", state, action, successor>>, the state projected on   *)
(* what the harness can observe); lib/ppaths.py chains them into behaviours.   *)
(* Steps the code takes without passing a gate are urgent here and are merged  *)
(* into the step that caused them: a waiter of a dial wakes as soon as the     *)
(* dial is over (Wake) or its context ends (WaitCtx).                          *)
EXTENDS PipeStep, Json, Randomization

CONSTANTS RareN, VeryRareN   \* how seldom the environment's faults are taken (1 in N evaluations)

Open(c) == cst[c] = "open"
Proj == [tclosed |-> tclosed, cst |-> cst,
         pool |-> [c \in Conn |-> IF Open(c) THEN pool[c] ELSE "x"],
         streams |-> [c \in Conn |-> IF Open(c) /\ pool[c] = "busy" THEN streams[c] ELSE 0],
         \* callers inside pool.Get waiting for a dial (the pool's streamQueue counters; the harness sees their sum)
         dqsum |-> IF tclosed THEN 0 ELSE Cardinality({e \in Ex : ex[e].pc = "wait" /\ cst[ex[e].c] = "dialing"}),
         nextqid |-> nextQid, reserved |-> reserved,
         nqueue |-> [c \in Conn |-> Cardinality(DOMAIN queue[c])],
         rl |-> [c \in Conn |-> rl[c].some],
         pc |-> [e \in Ex |-> ex[e].pc],
         c |-> [e \in Ex |-> IF ex[e].pc \in {"add", "write", "sel", "del", "rel"} THEN ex[e].c ELSE 0],
         qid |-> [e \in Ex |-> IF ex[e].pc \in {"write", "sel", "del"} THEN ex[e].qid ELSE 0],
         retry |-> [e \in Ex |-> ex[e].retry],
         err |-> [e \in Ex |-> IF ex[e].pc \in {"del", "rel"} THEN ex[e].err ELSE "none"],
         res |-> [e \in Ex |-> ex[e].res],
         got |-> [e \in Ex |-> IF ex[e].res = "reply" THEN ex[e].got ELSE 0],
         ctxdone |-> ctxdone,
         chfull |-> [e \in Ex |-> chan[e] # 0 /\ ex[e].pc \in {"write", "sel"}],
         \* not observable by the harness; here so that two states of a behaviour never look the same
         hid |-> [wire |-> wire, rl |-> rl, chan |-> chan, dq |-> dq, lastdial |-> lastdial, dcancel |-> dcancel,
                  ntok |-> ntok, fresh |-> [e \in Ex |-> ex[e].fresh], att |-> [e \in Ex |-> ex[e].att],
                  pool |-> pool, streams |-> streams]]
Edge(a) == PrintT(<<"E", ToJson(Proj), ToJson(a), ToJson(Proj')>>)

Urgent(e) == ex[e].pc = "wait" /\ (DialOver(ex[e].c) \/ ctxdone[e])
SomeUrgent == \E e \in Ex : Urgent(e)
FirstUrgent(e) == Urgent(e) /\ \A d \in Ex : Urgent(d) => e <= d

CodeStep == \/ \E e \in Ex : Get(e) \/ AddQueue(e) \/ Del(e) \/ Rel(e)
            \/ \E e \in Ex, k \in {"reply", "ctx", "conn"} : Ret(e, k)
            \/ \E e \in Ex : Write(e, TRUE)
            \/ \E c \in Conn : Send(c) \/ (\E m \in wire[c] : Lookup(c, m))
Rare == RandomElement(1..RareN) = 1 \/ ~ENABLED CodeStep
Often == RandomElement(1..2) = 1 \/ ~ENABLED CodeStep
VeryRare == RandomElement(1..VeryRareN) = 1 \/ ~ENABLED CodeStep

RNext ==
  IF SomeUrgent
  THEN \E e \in Ex : FirstUrgent(e) /\ \/ (Wake(e) /\ Edge([a |-> "Wake", e |-> e]))
                                       \/ (WaitCtx(e) /\ Edge([a |-> "WaitCtx", e |-> e]))
  ELSE \/ \E e \in Ex : \/ ((e = 1 \/ Often) /\ Start(e) /\ Edge([a |-> "Start", e |-> e]))
                        \/ (Get(e) /\ Edge([a |-> "Get", e |-> e]))
                        \/ (AddQueue(e) /\ Edge([a |-> "AddQueue", e |-> e]))
                        \/ (Del(e) /\ Edge([a |-> "Del", e |-> e]))
                        \/ (Rel(e) /\ Edge([a |-> "Rel", e |-> e]))
                        \/ (VeryRare /\ Deadline(e) /\ Edge([a |-> "Deadline", e |-> e]))
                        \/ (Write(e, TRUE) /\ Edge([a |-> "Write", e |-> e, ok |-> TRUE]))
                        \/ (Rare /\ Write(e, FALSE) /\ Edge([a |-> "Write", e |-> e, ok |-> FALSE]))
                        \/ \E k \in {"reply", "ctx", "conn"} : (Ret(e, k) /\ Edge([a |-> "Ret", e |-> e, k |-> k]))
       \/ \E c \in Conn : \/ (DialDone(c, TRUE) /\ Edge([a |-> "DialDone", c |-> c, ok |-> TRUE]))
                          \/ (Rare /\ DialDone(c, FALSE) /\ Edge([a |-> "DialDone", c |-> c, ok |-> FALSE]))
                          \* the server mostly answers what was asked (so that exchanges get somewhere), and now and then
                          \* sends something nobody is waiting for
                          \/ \E q \in Ids : ((IF q \in DOMAIN queue[c] THEN Often ELSE VeryRare)
                                               /\ ServerSend(c, q) /\ Edge([a |-> "ServerSend", c |-> c, q |-> q, tok |-> ntok + 1]))
                          \/ \E m \in wire[c] : (Lookup(c, m) /\ Edge([a |-> "Lookup", c |-> c, q |-> m[1], tok |-> m[2]]))
                          \/ (Send(c) /\ Edge([a |-> "Send", c |-> c]))
                          \/ (VeryRare /\ ReadErr(c) /\ Edge([a |-> "ReadErr", c |-> c]))
       \/ (VeryRare /\ Close /\ Edge([a |-> "Close"]))
RSpec == Init /\ [][RNext]_vars
=============================================================================
