SPECIFICATION Spec
CONSTANTS
  BodyLen <- mc_Body3
  Limit = 1
  BugStickyHdr = FALSE
INVARIANTS Inv_C13_DecodedOnce Inv_C13_OutOnce Inv_C13_OutForDecoded Inv_C13_NoDrop Inv_C13_Limit Inv_C13_AllAnswered
CHECK_DEADLOCK FALSE
