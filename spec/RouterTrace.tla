----------------------------- MODULE RouterTrace -----------------------------
(***************************************************************************)
(* Trace validation for the router-level properties (C03, C04, C07, C08,   *)
(* C10, C12, C19): one trace per router instance, recorded by routerdrv.   *)
(*   cfg        the configuration the instance was started with            *)
(*   cl.send    a client is about to send a query (harness)                *)
(*   cl.recv    a client received a response, parsed by an independent     *)
(*              DNS implementation (harness)                               *)
(*   cl.none    a client received nothing usable (time-out, HTTP status)   *)
(*   up.recv / up.send   the scripted upstreams' view (harness)            *)
(*   rt.*, cache.*, pf.*  hook events from router.go / cache.go            *)
(* Router semantics (Decide, FirstMatch, Lifetime, Aged, EcsOption, ...)   *)
(* come from Router.tla; domain-set matching from DomainSet.tla.           *)
(***************************************************************************)
EXTENDS TraceBase, FiniteSets, DomainLines, RouterOps, Wire, LimiterOps

VARIABLES l,
          cfg,       \* [rules, sets (tag -> entries), ecs, cache, maxttl]
          q,         \* qn -> cl.send record
          answered,  \* set of qn with a response
          upsent,    \* tok -> up.send record
          upq,       \* set of <<up, lname, cls, typ>> received by upstreams
          stores,    \* key -> sequence of store records (newest last)
          pf,        \* set of prefetch keys reserved
          fwd,       \* lname -> set of client addresses forwarded for (rt.fwd)
          seen,      \* tok -> the shape of the first response that carried it
          outst,     \* <<name, cls, typ>> -> upstream exchanges received and not yet answered
          ladm       \* limiter: recent admitted charges [k, t, n] (C15 live part)
tvars == <<l, cfg, q, answered, upsent, upq, stores, pf, fwd, seen, outst, ladm>>

NoCfg == [rules |-> <<>>, sets |-> <<>>, ecs |-> FALSE, cache |-> FALSE, maxttl |-> 0, markers |-> <<>>, clients |-> <<>>, limit |-> 0, burst |-> 0, v4mask |-> 0, v6mask |-> 0]
Init == l = 1 /\ cfg = NoCfg /\ q = <<>> /\ answered = {} /\ upsent = <<>> /\ upq = {} /\ stores = <<>> /\ pf = {} /\ fwd = <<>> /\ seen = <<>> /\ outst = <<>> /\ ladm = <<>> /\ InitMark
IsEvent(e) == l <= Len(Trace) /\ Trace[l].ev = e /\ l' = l + 1 /\ Mark(l)
With(f, k, v) == [x \in DOMAIN f \cup {k} |-> IF x = k THEN v ELSE f[x]]

\* ---------------------------------------------------------------- configuration
SetEntries(lines) == UNION {LineEntries(lines[i]) \cup RxEntries(lines[i]) : i \in 1..Len(lines)}
Cfg == /\ IsEvent("cfg")
       /\ LET ev == Trace[l] IN
          cfg' = [rules |-> ev.rules,
                  sets |-> [t \in {ev.settags[i] : i \in 1..Len(ev.settags)} |->
                              SetEntries(ev.setlines[CHOOSE i \in 1..Len(ev.settags) : ev.settags[i] = t])],
                  ecs |-> ev.ecs, cache |-> ev.cache, maxttl |-> ev.maxttl, markers |-> ev.markers,
                  clients |-> ev.clients, limit |-> ev.limit, burst |-> ev.burst, v4mask |-> ev.v4mask, v6mask |-> ev.v6mask]
       /\ q' = <<>> /\ answered' = {} /\ upsent' = <<>> /\ upq' = {} /\ stores' = <<>> /\ pf' = {} /\ fwd' = <<>> /\ seen' = <<>> /\ outst' = <<>> /\ ladm' = <<>>

Dec(n) == Decide(cfg.rules, cfg.sets, n)

\* ---------------------------------------------------------------- clients
ClSend == /\ IsEvent("cl.send")
          /\ q' = With(q, Trace[l].qn, Trace[l])
          /\ UNCHANGED <<cfg, answered, upsent, upq, stores, pf, fwd, seen, outst, ladm>>

Supported(s) == ~s.qr /\ s.rd /\ s.opcode = 0 /\ s.nq = 1

\* rcodes the upstream legitimately produced for this question at upstream u (reply kind)
ReplyRcodes(u, n, c, t) == {upsent[k].rcode : k \in {k \in DOMAIN upsent :
                               upsent[k].up = u /\ upsent[k].name = n /\ upsent[k].cls = c /\ upsent[k].typ = t
                               /\ upsent[k].kind = "reply"}}
Failed(u, n, c, t) == \E k \in DOMAIN upsent : upsent[k].up = u /\ upsent[k].name = n /\ upsent[k].cls = c /\ upsent[k].typ = t
                               /\ upsent[k].kind # "reply"

SharedConnFault(u, t0) == \E k \in DOMAIN upsent : upsent[k].up = u /\ upsent[k].proto = "tcp"
                                /\ upsent[k].kind \in {"garbage", "close"} /\ upsent[k].t + 100 >= t0
ExpectedRcodes(s) ==
    IF ~Supported(s) THEN {4}
    ELSE LET n == LowerName(s.name)  d == Dec(n) IN
         IF d.kind = "reject" THEN {d.rcode}
         ELSE IF d.kind = "refused" THEN {5}
         ELSE ReplyRcodes(d.up, n, s.cls, s.typ)
              \cup (IF Failed(d.up, n, s.cls, s.typ) \/ ReplyRcodes(d.up, n, s.cls, s.typ) = {} THEN {2} ELSE {})
              \cup (IF cfg.limit > 0 /\ Has(s, "mayrefuse") /\ s.mayrefuse THEN {5} ELSE {})   \* refused by the rate limiter
              \* a stream connection to this upstream was broken (garbage / close for ANY question) while this
              \* query was in flight: on a multiplexed connection that fails every exchange waiting on it
              \cup (IF SharedConnFault(d.up, s.t) THEN {2} ELSE {})

HeaderOk(s, ev) == /\ ev.id = s.id /\ ev.opcode = s.opcode /\ ev.qr /\ ev.ra /\ ev.rd = s.rd
                   /\ ev.nq <= 1
                   /\ (ev.nq = 1 => (s.nq >= 1 /\ LowerName(ev.name) = LowerName(s.name) /\ ev.cls = s.cls /\ ev.typ = s.typ))

Zero32 == <<0, 0>>
OptOk(s, ev) == /\ ev.nopt <= 1
                /\ (~s.opt => ev.nopt = 0)
                /\ (Supported(s) /\ s.opt => ev.nopt = 1)
                /\ (ev.nopt = 1 => (ev.optcls = ProxyUdpSize /\ ev.optttl = Zero32 /\ ev.optrdlen = 0))

\* every answer token was produced by the decided upstream for this response's own question
ProvOk(s, ev) == \A i \in 1..Len(ev.an) :
                    LET a == ev.an[i] IN
                    a.tok # 0 =>
                       /\ a.tok \in DOMAIN upsent
                       /\ LET u == upsent[a.tok]  n == LowerName(s.name)  d == Dec(n) IN
                          u.name = n /\ u.cls = s.cls /\ u.typ = s.typ /\ d.kind = "forward" /\ u.up = d.up

\* C08: served TTLs never exceed the upstream TTL minus whole seconds since the store
\* (cl.send precedes the lookup, the hook's stored instant is the proxy's own)
TtlOk(s, ev) == \A i \in 1..Len(ev.an) :
                   LET a == ev.an[i] IN
                   (a.tok # 0 /\ a.tok \in DOMAIN upsent /\ i <= Len(upsent[a.tok].ttls)) =>
                      LET up == upsent[a.tok].ttls[i]
                          st == StoreOfTok(stores, a.tok)
                          el == IF st.found /\ s.t > st.stored + 2 THEN (s.t - st.stored - 2) \div 1000 ELSE 0
                      IN Le32(a.ttl, <<0, IF up > el THEN up - el ELSE 1>>)

\* C08: nothing is served from cache later than lifetime + 2 s after it was stored
ExpiryOk(s, ev) == \A i \in 1..Len(ev.an) :
                      LET a == ev.an[i] IN
                      (a.tok # 0 /\ a.tok \in DOMAIN upsent) =>
                         LET st == StoreOfTok(stores, a.tok) IN
                         st.found => s.t <= st.stored + LifetimeMs(upsent[a.tok], cfg.maxttl) + ClockGran + 5

\* C07: client group = label of the unique configured range containing the address (v4 = v4-mapped)
To16(a) == IF a.fam = 4 THEN <<0, 0, 0, 0, 0, 0, 0, 0, 0, 0, 255, 255>> \o a.o ELSE a.o
RECURSIVE LeFrom(_, _, _)
LeFrom(a, b, i) == IF i > Len(a) THEN TRUE ELSE IF a[i] < b[i] THEN TRUE ELSE IF a[i] > b[i] THEN FALSE ELSE LeFrom(a, b, i + 1)
LeSeq(a, b) == LeFrom(a, b, 1)
Group(a) == IF a.fam = 0 THEN <<>>
            ELSE LET x == To16(a)
                     hit == {i \in 1..Len(cfg.markers) : LeSeq(cfg.markers[i].lo, x) /\ LeSeq(x, cfg.markers[i].hi)}
                 IN IF hit = {} THEN <<>> ELSE cfg.markers[CHOOSE i \in hit : TRUE].label

RespTok(ev) == IF Len(ev.an) > 0 THEN ev.an[1].tok ELSE ev.soatok
Shape(ev) == [rcode |-> ev.rcode, aa |-> ev.aa, tc |-> ev.tc, nan |-> ev.nan, nns |-> ev.nns,
              toks |-> [i \in 1..Len(ev.an) |-> <<ev.an[i].tok, ev.an[i].sub>>], soatok |-> ev.soatok]
\* apart from ID and TTL ageing a cached response equals the response first relayed for that upstream answer
UnchangedOk(ev) == RespTok(ev) = 0 \/ RespTok(ev) \notin DOMAIN seen \/ seen[RespTok(ev)].shape = Shape(ev)

AllStores == UNION {{stores[k][i] : i \in 1..Len(stores[k])} : k \in DOMAIN stores}
\* a completed store for this request's key with more than 1 s of lifetime left and outside the refresh window
MustHitCandidates(s) == {st \in AllStores :
        /\ st.name = LowerName(s.name) /\ st.cls = s.cls /\ st.typ = s.typ /\ st.mark = Group(s.src) /\ ~st.tc
        /\ st.tok # 0      \* record-less answers carry no token: a hit cannot be told from a fresh answer by the client
        /\ st.stored + 50 < s.t /\ s.t + 1000 + 50 < st.expire
        /\ 4 * (st.expire - s.t - 50) > (st.expire - st.stored)}
MustHitOk(s, ev) == (cfg.cache /\ Supported(s) /\ MustHitCandidates(s) # {}) =>
        (RespTok(ev) # 0 /\ RespTok(ev) \in DOMAIN upsent /\ upsent[RespTok(ev)].t < s.t)

\* the same, seen from outside (no store hook): an upstream answer for this key was relayed to a client of the
\* same group, is cacheable, and more than 1 s of its lifetime remains (and the refresh window has not begun):
\* a store that silently failed or was skipped shows up as a repeat that is not served from the cache.
\* (Stated "with ample capacity": only the scenarios without eviction pressure are checked against it.)
RelayedLive(s) == {k \in DOMAIN seen :
        /\ k \in DOMAIN upsent /\ seen[k].mark = Group(s.src)
        /\ upsent[k].name = LowerName(s.name) /\ upsent[k].cls = s.cls /\ upsent[k].typ = s.typ
        /\ upsent[k].kind = "reply" /\ ~upsent[k].tc
        /\ LET L == LifetimeMs(upsent[k], cfg.maxttl) IN
           /\ upsent[k].t + 150 < s.t /\ s.t + 1000 + 50 < upsent[k].t + L
           /\ 4 * (upsent[k].t + L - s.t - 50) > L}
MustHitBBOk(s, ev) == (cfg.cache /\ Supported(s) /\ RelayedLive(s) # {}) =>
        (RespTok(ev) # 0 /\ RespTok(ev) \in DOMAIN upsent /\ upsent[RespTok(ev)].t < s.t)

KeyStores(s) == {st \in AllStores : st.name = LowerName(s.name) /\ st.cls = s.cls /\ st.typ = s.typ /\ st.mark = Group(s.src) /\ ~st.tc}
LivePositive(s) == {st \in KeyStores(s) : st.rcode = 0 /\ st.stored + 50 < s.t /\ s.t + 1000 + 50 < st.expire}
FromCache(s, ev) == RespTok(ev) # 0 /\ RespTok(ev) \in DOMAIN upsent /\ upsent[RespTok(ev)].t < s.t
\* C08: truncated or failed exchanges are never cached; an error never displaces a live positive entry
NoBadCacheOk(s, ev) == FromCache(s, ev) => (~upsent[RespTok(ev)].tc /\ upsent[RespTok(ev)].kind = "reply")
NoDisplaceOk(s, ev) == (cfg.cache /\ Supported(s) /\ LivePositive(s) # {}) => ev.rcode = 0
\* C19: a hit is answered at once; after a successful refresh hits see the renewed entry
NoDelayOk(s, ev) == FromCache(s, ev) => ev.t - s.t <= Slack
RenewedOk(s, ev) == FromCache(s, ev) =>
    LET mine == StoreOfTok(stores, RespTok(ev)) IN
    mine.found => ~\E st \in KeyStores(s) : st.rcode = 0 /\ st.stored > mine.stored /\ st.stored + 50 < s.t /\ s.t + 50 < st.expire

\* the same from outside (no store hook): when every client of this question is in one group, an answer served
\* from the cache is the newest cacheable positive answer the upstream gave for it (300 ms for the refresh to land)
SameGroupOnly(s) == \A x \in DOMAIN q : (LowerName(q[x].name) = LowerName(s.name) /\ q[x].cls = s.cls /\ q[x].typ = s.typ)
                                          => Group(q[x].src) = Group(s.src)
RenewedBBOk(s, ev) == (FromCache(s, ev) /\ SameGroupOnly(s)) =>
    ~\E k \in DOMAIN upsent :
        /\ upsent[k].name = LowerName(s.name) /\ upsent[k].cls = s.cls /\ upsent[k].typ = s.typ
        /\ upsent[k].kind = "reply" /\ upsent[k].rcode = 0 /\ ~upsent[k].tc /\ ~upsent[k].nodata
        \* newer by more than the request deadline: not a concurrent miss whose store happened to come first
        /\ upsent[k].t > upsent[RespTok(ev)].t + Deadline /\ upsent[k].t + 300 < s.t
        /\ s.t + 50 < upsent[k].t + LifetimeMs(upsent[k], cfg.maxttl)

\* C15: a query answered REFUSED by the limiter (the rules would have forwarded it) never reached an upstream
RefusedNotForwarded(s, ev) ==
    (cfg.limit > 0 /\ Supported(s) /\ ev.rcode = 5 /\ Dec(LowerName(s.name)).kind = "forward") =>
        ~\E x \in upq : x[2] = LowerName(s.name)

\* C09 at the listeners: a UDP response fits max(512, advertised size), any other at most 65535 octets;
\* records are missing iff TC is set (the scripted upstream says how many answer records it sent)
UdpLimit(s) == IF s.opt /\ s.optsize > 512 THEN s.optsize ELSE 512
SizeOk(s, ev) == ev.size <= (IF ev.lst \in {"udp", "udpth", "udpmr"} THEN UdpLimit(s) ELSE 65535)
UpAnswerCount(u) == IF u.rcode = 0 /\ ~u.nodata THEN Len(u.ttls) + u.ntxt ELSE 0
TruncOk(s, ev) == (RespTok(ev) # 0 /\ RespTok(ev) \in DOMAIN upsent /\ ~upsent[RespTok(ev)].tc) =>
                     (ev.tc = (ev.nan < UpAnswerCount(upsent[RespTok(ev)])))
\* nothing is omitted when the message's uncompressed encoding (with the proxy's 11-octet OPT if the query had one)
\* fits the limit of this transport
NoNeedlessOmitOk(s, ev) == (RespTok(ev) # 0 /\ RespTok(ev) \in DOMAIN upsent /\ ~upsent[RespTok(ev)].tc /\ Has(upsent[RespTok(ev)], "ulen")
                            /\ upsent[RespTok(ev)].ulen + (IF s.opt THEN 11 ELSE 0) <= (IF ev.lst \in {"udp", "udpth", "udpmr"} THEN UdpLimit(s) ELSE 65535))
                           => (~ev.tc /\ ev.nan = UpAnswerCount(upsent[RespTok(ev)]))

\* a client whose own subnet stays within its budget is never refused because of other subnets' traffic
IsolationOk(s, ev) == (cfg.limit > 0 /\ Supported(s) /\ ~(Has(s, "mayrefuse") /\ s.mayrefuse) /\ Dec(LowerName(s.name)).kind = "forward")
                         => ev.rcode # 5

ClRecv == /\ IsEvent("cl.recv")
          /\ LET ev == Trace[l]  s == q[ev.qn] IN
             /\ Report(l, (IF ev.qn \in answered THEN {"Inv_C03_AtMostOne"} ELSE {})
                       \cup (IF ~ev.ok THEN {"Inv_C03_Decodable"}
                             ELSE (IF HeaderOk(s, ev) THEN {} ELSE {"Inv_C03_Header"})
                               \cup (IF ev.rcode \in ExpectedRcodes(s) THEN {} ELSE {"Inv_C03_Rcode"})
                               \cup (IF ev.t - s.t <= Deadline + Slack THEN {} ELSE {"Inv_C03_Deadline"})
                               \cup (IF OptOk(s, ev) THEN {} ELSE {"Inv_C12_RespOpt"})
                               \cup (IF ProvOk(s, ev) THEN {} ELSE {"Inv_C04_Provenance"})
                               \cup (IF TtlOk(s, ev) THEN {} ELSE {"Inv_C08_Ttl"})
                               \cup (IF ExpiryOk(s, ev) THEN {} ELSE {"Inv_C08_Expiry"})
                               \cup (IF UnchangedOk(ev) THEN {} ELSE {"Inv_C07_Unchanged"})
                               \cup (IF MustHitOk(s, ev) THEN {} ELSE {"Inv_C07_MustHit"})
                               \cup (IF MustHitBBOk(s, ev) THEN {} ELSE {"Inv_C07_MustHitRelayed"})
                               \cup (IF NoBadCacheOk(s, ev) THEN {} ELSE {"Inv_C08_NoBadCache"})
                               \cup (IF NoDisplaceOk(s, ev) THEN {} ELSE {"Inv_C08_NoDisplace"})
                               \cup (IF RefusedNotForwarded(s, ev) THEN {} ELSE {"Inv_C15_Refused"})
                               \cup (IF IsolationOk(s, ev) THEN {} ELSE {"Inv_C15_Isolation"})
                               \cup (IF SizeOk(s, ev) THEN {} ELSE {"Inv_C09_ListenerLimit"})
                               \cup (IF TruncOk(s, ev) THEN {} ELSE {"Inv_C09_TcIff"})
                               \cup (IF NoNeedlessOmitOk(s, ev) THEN {} ELSE {"Inv_C09_NoNeedlessOmit"})
                               \cup (IF NoDelayOk(s, ev) THEN {} ELSE {"Inv_C19_NoDelay"})
                               \cup (IF RenewedOk(s, ev) THEN {} ELSE {"Inv_C19_Renewed"})
                               \cup (IF RenewedBBOk(s, ev) THEN {} ELSE {"Inv_C19_RenewedRelayed"})))
             /\ answered' = answered \cup {ev.qn}
             /\ seen' = IF ev.ok /\ RespTok(ev) # 0 /\ RespTok(ev) \notin DOMAIN seen THEN With(seen, RespTok(ev), [shape |-> Shape(ev), mark |-> Group(s.src)]) ELSE seen
          /\ UNCHANGED <<cfg, q, upsent, upq, stores, pf, fwd, outst, ladm>>

\* no usable response: a violation for a decodable query (QR=0) unless the scenario says the
\* client was expected to be refused at connection level (field "mayrefuse" of the send)
ClNone == /\ IsEvent("cl.none")
          /\ LET ev == Trace[l]  s == q[ev.qn] IN
             Report(l, IF ~s.qr /\ ~(Has(s, "mayrefuse") /\ s.mayrefuse) THEN {"Inv_C03_Answered"} ELSE {})
          /\ UNCHANGED <<cfg, q, answered, upsent, upq, stores, pf, fwd, seen, outst, ladm>>

\* ---------------------------------------------------------------- upstreams
AskedBy(n, c, t) == \E k \in DOMAIN q : IF Has(q[k], "name") THEN LowerName(q[k].name) = n /\ q[k].cls = c /\ q[k].typ = t /\ Supported(q[k]) ELSE FALSE

EcsOk(ev) ==
    IF ~cfg.ecs THEN ~ev.ecs
    ELSE LET srcs == IF ev.name \in DOMAIN fwd THEN fwd[ev.name] ELSE {} IN
         \* the option must be the truncation of one of the client addresses this name was forwarded for
         IF ev.ecs THEN \E a \in srcs : a.fam # 0 /\ EcsOption(a) = [fam |-> ev.ecsfam, src |-> ev.ecssrc, scope |-> ev.ecsscope, addr |-> ev.ecsaddr]
         ELSE \E a \in srcs : a.fam = 0

\* the same from outside (no forward hook): the option is the truncation of the address of a client that asked
\* for this name - also on a background refresh, which is made on behalf of the client whose hit started it
Askers(n) == {q[k].src : k \in {k \in DOMAIN q : Has(q[k], "name") /\ LowerName(q[k].name) = n}}
EcsClientOk(ev) ==
    IF ~cfg.ecs \/ Askers(ev.name) = {} THEN TRUE
    ELSE IF ev.ecs THEN \E a \in Askers(ev.name) : a.fam # 0 /\ EcsOption(a) = [fam |-> ev.ecsfam, src |-> ev.ecssrc, scope |-> ev.ecsscope, addr |-> ev.ecsaddr]
         ELSE \E a \in Askers(ev.name) : a.fam = 0

Outst(k) == IF k \in DOMAIN outst THEN outst[k] ELSE 0
\* a cache entry for this question is live (with more than the clock granularity left) at time t
LiveEntryAt(n, c, ty, t) == \E st \in AllStores : st.name = n /\ st.cls = c /\ st.typ = ty /\ ~st.tc
                                                  /\ st.stored + 50 < t /\ t + 1000 + 50 < st.expire

UpRecv == /\ IsEvent("up.recv")
          /\ LET ev == Trace[l]  d == Dec(ev.name) IN
             /\ Report(l, (IF d.kind = "forward" /\ d.up = ev.up THEN {} ELSE {"Inv_C10_OnlySelected"})
                       \cup (IF ev.nq = 1 /\ ev.rd /\ ~ev.qr /\ ev.opcode = 0 /\ ev.name = LowerName(ev.name)
                                /\ AskedBy(ev.name, ev.cls, ev.typ) /\ ev.nan = 0 /\ ev.nns = 0
                             THEN {} ELSE {"Inv_C10_ExactQuestion"})
                       \cup (IF ev.nopt = 1 /\ ev.nar = 1 /\ (\A i \in 1..Len(ev.optcodes) : ev.optcodes[i] = 8) /\ Len(ev.optcodes) <= 1
                             THEN {} ELSE {"Inv_C12_UpOpt"})
                       \cup (IF EcsOk(ev) THEN {} ELSE {"Inv_C12_Ecs"})
                       \cup (IF EcsClientOk(ev) THEN {} ELSE {"Inv_C12_EcsClient"})
                       \* (a question is its name in any letter case)
                       \cup (IF LiveEntryAt(LowerName(ev.name), ev.cls, ev.typ, ev.t) /\ Outst(<<LowerName(ev.name), ev.cls, ev.typ>>) >= 1
                             THEN {"Inv_C19_SingleUp"} ELSE {}))
             /\ upq' = upq \cup {<<ev.up, ev.name, ev.cls, ev.typ>>}
             /\ outst' = With(outst, <<LowerName(ev.name), ev.cls, ev.typ>>, Outst(<<LowerName(ev.name), ev.cls, ev.typ>>) + 1)
          /\ UNCHANGED <<cfg, q, answered, upsent, stores, pf, fwd, seen, ladm>>

UpSend == /\ IsEvent("up.send")
          /\ upsent' = With(upsent, Trace[l].tok, Trace[l])
          /\ LET k == <<LowerName(Trace[l].name), Trace[l].cls, Trace[l].typ>> IN
             outst' = With(outst, k, IF Outst(k) > 0 THEN Outst(k) - 1 ELSE 0)
          /\ UNCHANGED <<cfg, q, answered, upq, stores, pf, fwd, seen, ladm>>

\* ---------------------------------------------------------------- hooks
RtRule == /\ IsEvent("rt.rule")
          /\ Report(l, IF Trace[l].idx = FirstMatch(cfg.rules, cfg.sets, Trace[l].name) THEN {} ELSE {"Inv_C10_FirstMatch"})
          /\ UNCHANGED <<cfg, q, answered, upsent, upq, stores, pf, fwd, seen, outst, ladm>>

RtFwd == /\ IsEvent("rt.fwd")
         /\ LET ev == Trace[l] IN
            fwd' = With(fwd, ev.name, (IF ev.name \in DOMAIN fwd THEN fwd[ev.name] ELSE {}) \cup {ev.remote})
         /\ UNCHANGED <<cfg, q, answered, upsent, upq, stores, pf, seen, outst, ladm>>

\* a request for which no rule matched must not carry a rule index
RtDone == /\ IsEvent("rt.done")
          /\ UNCHANGED <<cfg, q, answered, upsent, upq, stores, pf, fwd, seen, outst, ladm>>
RtReq == IsEvent("rt.req") /\ UNCHANGED <<cfg, q, answered, upsent, upq, stores, pf, fwd, seen, outst, ladm>>

\* C07: the key under which the cache is consulted / filled is a function of exactly
\* (name, class, type, client group)
CacheGet == /\ IsEvent("cache.get")
            /\ LET ev == Trace[l]
                   hitsOk == ~ev.hit \/ (\E k \in DOMAIN stores : \E i \in 1..Len(stores[k]) :
                                            stores[k][i].stored = ev.stored /\ stores[k][i].name = ev.name
                                            /\ stores[k][i].cls = ev.cls /\ stores[k][i].typ = ev.typ /\ stores[k][i].mark = ev.mark)
               IN Report(l, (IF ev.key = KeyBytes(ev.name, ev.cls, ev.typ, ev.mark) THEN {} ELSE {"Inv_C07_Key"})
                         \cup (IF hitsOk THEN {} ELSE {"Inv_C07_KeyEq"})
                         \cup (IF ev.mark = Group(ev.remote) THEN {} ELSE {"Inv_C07_Group"}))
            /\ UNCHANGED <<cfg, q, answered, upsent, upq, stores, pf, fwd, seen, outst, ladm>>

CacheStore == /\ IsEvent("cache.store")
              /\ LET ev == Trace[l] IN
                 /\ Report(l, (IF ev.key = KeyBytes(ev.name, ev.cls, ev.typ, ev.mark) THEN {} ELSE {"Inv_C07_Key"})
                           \cup (IF ev.tc THEN {"Inv_C08_NoStoreTc"} ELSE {})
                           \cup (IF ev.tok \in DOMAIN upsent /\ ev.expire - ev.stored <= Max2(LifetimeMs(upsent[ev.tok], cfg.maxttl), 1000) + 5
                                 THEN {} ELSE IF ev.tok \in DOMAIN upsent THEN {"Inv_C08_Lifetime"} ELSE {})
                           \* a record-less answer carries no token: it is the newest answer an upstream gave for this
                           \* question (only when all of them agree on the lifetime, so that a concurrent other answer
                           \* cannot be mistaken for it)
                           \cup (IF ev.tok = 0
                                 THEN LET ks == {k \in DOMAIN upsent : upsent[k].name = ev.name /\ upsent[k].cls = ev.cls /\ upsent[k].typ = ev.typ
                                                                        /\ upsent[k].kind = "reply" /\ ~upsent[k].tc}
                                          ls == {LifetimeMs(upsent[k], cfg.maxttl) : k \in ks}
                                      IN IF Cardinality(ls) = 1 /\ ev.expire - ev.stored > Max2(CHOOSE x \in ls : TRUE, 1000) + 5
                                         THEN {"Inv_C08_Lifetime"} ELSE {}
                                 ELSE {})
                           \cup (IF ev.neg = (ev.rcode # 0) THEN {} ELSE {"Inv_C08_NoDisplace"})
                           \* a stored answer was produced by an upstream for exactly this question
                           \cup (IF ev.tok # 0 /\ ~(ev.tok \in DOMAIN upsent /\ upsent[ev.tok].name = ev.name
                                                    /\ upsent[ev.tok].cls = ev.cls /\ upsent[ev.tok].typ = ev.typ)
                                 THEN {"Inv_C07_StoreOwnKey"} ELSE {}))
                 /\ stores' = With(stores, ev.key, (IF ev.key \in DOMAIN stores THEN stores[ev.key] ELSE <<>>) \o <<ev>>)
              /\ UNCHANGED <<cfg, q, answered, upsent, upq, pf, fwd, seen, outst, ladm>>
CacheStored == IsEvent("cache.stored") /\ UNCHANGED <<cfg, q, answered, upsent, upq, stores, pf, fwd, seen, outst, ladm>>

\* C19: at most one refresh in flight per (question, client group)
PfReserve == /\ IsEvent("pf.reserve")
             /\ LET ev == Trace[l] IN
                /\ Report(l, IF ev.ok /\ ev.key \in pf THEN {"Inv_C19_Single"}
                             ELSE IF ~ev.ok /\ ev.key \notin pf THEN {"Inv_C19_SpuriousDup"} ELSE {})
                /\ pf' = IF ev.ok THEN pf \cup {ev.key} ELSE pf
             /\ UNCHANGED <<cfg, q, answered, upsent, upq, stores, fwd, seen, outst, ladm>>
PfDone == /\ IsEvent("pf.done")
          /\ pf' = pf \ {Trace[l].key}
          /\ UNCHANGED <<cfg, q, answered, upsent, upq, stores, fwd, seen, outst, ladm>>

\* C10: a configuration naming an unknown upstream / domain-set tag, repeating a tag or containing an
\* unknown key is rejected at start-up
ValidConfig(ev) == ~(ev.unkfwd \/ ev.unkset \/ ev.dupup \/ ev.dupset \/ ev.unkkey)
Boot == /\ IsEvent("boot")
        /\ Report(l, IF Trace[l].started = ValidConfig(Trace[l]) THEN {} ELSE {"Inv_C10_StrictConfig"})
        /\ UNCHANGED <<cfg, q, answered, upsent, upq, stores, pf, fwd, seen, outst, ladm>>

\* C01: input that cannot be decoded is rejected in the listener's way; decodable input is answered
RawSend == IsEvent("raw.send") /\ q' = With(q, Trace[l].qn, Trace[l]) /\ UNCHANGED <<cfg, answered, upsent, upq, stores, pf, fwd, seen, outst, ladm>>
RejectKinds(lst) == IF lst = "udp" THEN {"none"}
                    ELSE IF lst \in {"tcp", "gnet", "tls", "quic"} THEN {"closed", "none"}
                    ELSE {"http400"}
RawOut == /\ IsEvent("raw.out")
          /\ LET ev == Trace[l]  s == q[ev.qn]
                 exact == s.framelen = Len(s.in)
                 dec == DecMsg(s.in).ok
                 expected == IF ~exact THEN {"closed", "none", "resp"}     \* a lying length prefix desynchronises the stream: any non-crash outcome
                             ELSE IF dec THEN {"resp"} ELSE RejectKinds(ev.lst)
             IN Report(l, IF ev.outcome \in expected THEN {} ELSE {"Inv_C01_Reject"})
          /\ UNCHANGED <<cfg, q, answered, upsent, upq, stores, pf, fwd, seen, outst, ladm>>

\* C15 (live): the limiter is charged for the client's own masked subnet, and what it admits per subnet
\* stays within burst + rate x window (real time, 3 ms tolerance for millisecond stamps)
RECURSIVE SumTailL(_, _, _)
SumTailL(s, k, i) == IF i > Len(s) THEN 0 ELSE (IF s[i].k = k THEN s[i].n ELSE 0) + SumTailL(s, k, i + 1)
EffB == IF cfg.burst <= 0 THEN cfg.limit ELSE cfg.burst
BudgetNewestL(s) == LET j == Len(s) IN
    \A i \in 1..j : s[i].k = s[j].k =>
        SumTailL(s, s[j].k, i) * 1000 <= EffB * 1000 + cfg.limit * (s[j].t - s[i].t + 3)
TruncL(s) == IF Len(s) > 40 THEN SubSeq(s, Len(s) - 39, Len(s)) ELSE s
LimCl == /\ IsEvent("lim.cl")
         /\ LET ev == Trace[l]
                isClient == \E i \in 1..Len(cfg.clients) : cfg.clients[i] = ev.addr
                k == KeyM(ev.addr, cfg.v4mask, cfg.v6mask)
                \* the instant of the admission is the event's own stamp (taken under the bucket's lock), not the
                \* time the caller handed to the limiter: a stale argument must not move the window
                adm2 == IF ev.res THEN Append(ladm, [k |-> k, t |-> ev.t, n |-> ev.n]) ELSE ladm
            IN /\ Report(l, (IF isClient THEN {} ELSE {"Inv_C15_ChargedAddress"})
                         \cup (IF ev.key = k THEN {} ELSE {"Inv_C15_Key"})
                         \cup (IF ev.res /\ ~BudgetNewestL(adm2) THEN {"Inv_C15_Budget"} ELSE {}))
               /\ ladm' = TruncL(adm2)
         /\ UNCHANGED <<cfg, q, answered, upsent, upq, stores, pf, fwd, seen, outst>>

\* a burst of identical queries handed to the router at the same instant (their own events are not recorded):
\* every one of them got a positive answer
Burst == /\ IsEvent("burst")
         /\ Report(l, IF Trace[l].bad = 0 THEN {} ELSE {"Inv_C19_BurstServed"})
         /\ UNCHANGED <<cfg, q, answered, upsent, upq, stores, pf, fwd, seen, outst, ladm>>
Other == (IsEvent("note") \/ IsEvent("up.recv.bad") \/ IsEvent("rawhttp.send") \/ IsEvent("rawhttp.out"))
         /\ UNCHANGED <<cfg, q, answered, upsent, upq, stores, pf, fwd, seen, outst, ladm>>

Next == Cfg \/ ClSend \/ ClRecv \/ ClNone \/ UpRecv \/ UpSend \/ RtRule \/ RtFwd \/ RtDone \/ RtReq
        \/ LimCl \/ RawSend \/ RawOut \/ Boot \/ CacheGet \/ CacheStore \/ CacheStored \/ PfReserve \/ PfDone \/ Burst \/ Other
Spec == Init /\ [][Next]_tvars
Post == Consumed
=============================================================================
