----------------------------- MODULE DomainLines -----------------------------
(* The domain-file line syntax of internal/domain_matcher (loader_helper.go,  *)
(* mix.go): '#' comments, trimming, optional "domain:"/"full:"/"regexp:" type  *)
(* prefix, dotted names, ASCII case folding.  Shared by DomainTrace and        *)
(* RouterTrace.                                                                *)
EXTENDS Naturals, Sequences

(* the loader's line syntax *)
IsSpace(b) == b \in {32, 9, 11, 12, 13}
RECURSIVE IndexFrom(_, _, _)
IndexFrom(s, c, i) == IF i > Len(s) THEN 0 ELSE IF s[i] = c THEN i ELSE IndexFrom(s, c, i + 1)
IndexOf(s, c) == IndexFrom(s, c, 1)
CutAt(s, c) == LET i == IndexOf(s, c) IN IF i = 0 THEN s ELSE SubSeq(s, 1, i - 1)
RECURSIVE TrimL(_)
TrimL(s) == IF s # <<>> /\ IsSpace(Head(s)) THEN TrimL(Tail(s)) ELSE s
RECURSIVE TrimR(_)
TrimR(s) == IF s # <<>> /\ IsSpace(s[Len(s)]) THEN TrimR(SubSeq(s, 1, Len(s) - 1)) ELSE s
Trim(s) == TrimR(TrimL(s))
LowerB(b) == IF b >= 65 /\ b <= 90 THEN b + 32 ELSE b
LowerS(s) == [i \in 1..Len(s) |-> LowerB(s[i])]
RECURSIVE SplitDots(_)
SplitDots(s) == LET i == IndexOf(s, 46) IN
                IF i = 0 THEN <<LowerS(s)>> ELSE <<LowerS(SubSeq(s, 1, i - 1))>> \o SplitDots(SubSeq(s, i + 1, Len(s)))
ParseName(exp) == LET e == IF exp # <<>> /\ exp[Len(exp)] = 46 THEN SubSeq(exp, 1, Len(exp) - 1) ELSE exp
                  IN IF e = <<>> THEN <<>> ELSE SplitDots(e)

sDomain == <<100, 111, 109, 97, 105, 110>>
sFull   == <<102, 117, 108, 108>>
sRegexp == <<114, 101, 103, 101, 120, 112>>

RECURSIVE QuoteRe(_)
QuoteRe(t) == IF t = <<>> THEN <<>>
              ELSE (IF Head(t) \in {46, 92} THEN <<92, Head(t)>> ELSE <<Head(t)>>) \o QuoteRe(Tail(t))

Typ(b) == LET i == IndexOf(b, 58) IN IF i = 0 THEN <<>> ELSE SubSeq(b, 1, i - 1)
Exp(b) == LET i == IndexOf(b, 58) IN IF i = 0 THEN b ELSE SubSeq(b, i + 1, Len(b))
\* entries of a plain line (no regexp entries)
LineEntries(line) ==
    LET b == Trim(CutAt(line, 35)) IN
    IF b = <<>> THEN {}
    ELSE IF Typ(b) \in {<<>>, sDomain} THEN {[kind |-> "domain", name |-> ParseName(Exp(b))]}
    ELSE IF Typ(b) = sFull THEN {[kind |-> "full", name |-> ParseName(Exp(b))]}
    ELSE {}

\* A regexp entry of the shape ^literal$ whose literal consists of a-z, 0-9, '-' and escaped dots matches exactly
\* that (lower-case) name: for names asked in lower case it is a "full" entry.  Other regular expressions are
\* beyond this model (the scenarios that use this operator ask for nothing that they could match).
RECURSIVE LitOk(_)
LitOk(t) == IF t = <<>> THEN TRUE
            ELSE IF Head(t) = 92 THEN Len(t) >= 2 /\ t[2] = 46 /\ LitOk(SubSeq(t, 3, Len(t)))
            ELSE (Head(t) \in 97..122 \/ Head(t) \in 48..57 \/ Head(t) = 45) /\ LitOk(Tail(t))
RECURSIVE UnqRe(_)
UnqRe(t) == IF t = <<>> THEN <<>>
            ELSE IF Head(t) = 92 THEN <<t[2]>> \o UnqRe(SubSeq(t, 3, Len(t)))
            ELSE <<Head(t)>> \o UnqRe(Tail(t))
RxEntries(line) ==
    LET b == Trim(CutAt(line, 35))  e == Exp(b) IN
    IF b # <<>> /\ Typ(b) = sRegexp /\ Len(e) >= 3 /\ e[1] = 94 /\ e[Len(e)] = 36 /\ LitOk(SubSeq(e, 2, Len(e) - 1))
    THEN {[kind |-> "full", name |-> ParseName(UnqRe(SubSeq(e, 2, Len(e) - 1)))]}
    ELSE {}
=============================================================================
