--------------------------- MODULE QuicXportTrace ---------------------------
(* Trace validation of the QUIC transport against QuicXport: every qt hook  *)
(* event is one QuicXport action, taken with the logged arguments; the model  *)
(* must be able to take it (otherwise the line is unconsumable) and the       *)
(* successor state must agree with the logged outcome.  The death of a        *)
(* connection and the expiry of a context are not logged: they are inferred   *)
(* (ConnDie / Deadline as silent steps right before the event that reveals    *)
(* them).  The model's invariants are evaluated in every successor state,     *)
(* and the callers' view (qx events) is checked against the model's results and    *)
(* against the clock (C14 deadline, C18 fail-fast, close returns, census).    *)
EXTENDS QuicXport, TraceBase

VARIABLES l, dl, closeT
tvars == <<vars, l, dl, closeT>>
Slack == 1000
TraceEx == 1..24

IsEvent(e) == l <= Len(Trace) /\ Trace[l].ev = e /\ l' = l + 1 /\ Mark(l)
Peek(e) == l <= Len(Trace) /\ Trace[l].ev = e
ev == Trace[l]

TInit == Init /\ l = 1 /\ dl = [e \in Ex |-> 0] /\ closeT = 0 /\ InitMark

\* model invariants in the successor state
Chk == Report(l, (IF Inv_SingleFlight' THEN {} ELSE {"Inv_C14_SingleFlight"})
                 \cup (IF Inv_C14_RetryBound' /\ Inv_C14_FreshReported' THEN {} ELSE {"Inv_C14_Retry"})
                 \cup (IF Inv_C18_ClosedOnlyIfClosed' THEN {} ELSE {"Inv_C18_ClosedOnlyIfClosed"})
                 \cup (IF Inv_C18_NoLeak' THEN {} ELSE {"Inv_C18_NoLeak"}))

Reset == /\ closed' = FALSE /\ cur' = 0 /\ call' = 0
         /\ cst' = [k \in Conn |-> "none"] /\ cres' = [k \in Conn |-> "none"] /\ conn' = [c \in Conn |-> "none"]
         /\ pc' = [e \in Ex |-> "idle"] /\ ccall' = [e \in Ex |-> 0] /\ cconn' = [e \in Ex |-> 0]
         /\ fresh' = [e \in Ex |-> FALSE] /\ retry' = [e \in Ex |-> 0]
         /\ res' = [e \in Ex |-> "none"] /\ ctxdone' = [e \in Ex |-> FALSE] /\ ffail' = [e \in Ex |-> FALSE]
         /\ dl' = [e \in Ex |-> 0] /\ closeT' = 0

\* a new scenario: the previous one must have ended orderly
TSeg == /\ IsEvent("seg")
        /\ Report(l, (IF \E e \in Ex : Busy(e) THEN {"Inv_C18_AllEnded"} ELSE {})
                     \cup (IF \E k \in Conn : cst[k] \in {"dialing", "locked"} THEN {"Inv_C18_DialEnded"} ELSE {}))
        /\ Reset

KnownEx == IF ev.ex \in Ex THEN TRUE ELSE Harness(l, "unknown exchange") /\ FALSE

TStart == IsEvent("qt.start") /\ KnownEx /\ Start(ev.ex) /\ UNCHANGED <<dl, closeT>>

\* silent: the shared connection died (revealed by a getConn that does not reuse it)
TDie == /\ Peek("qt.getconn") /\ ev.kind \in {"dial", "join"} /\ cur # 0 /\ conn[cur] = "alive"
        /\ ConnDie(cur) /\ UNCHANGED <<l, dl, closeT>>
\* silent: the context expired (revealed by a wait that returns on ctx or a try that saw it done)
TExpire == /\ \/ (Peek("qt.wait") /\ ~ev.done)
              \/ (Peek("qt.try") /\ ev.ctxdone)
           /\ ev.ex \in Ex /\ ~ctxdone[ev.ex]
           /\ Deadline(ev.ex) /\ UNCHANGED <<l, dl, closeT>>

TGet == /\ IsEvent("qt.getconn") /\ KnownEx
        /\ GetConn(ev.ex)
        /\ IF ev.kind = "closed" THEN res'[ev.ex] = "closed"
           ELSE IF ev.kind = "reuse" THEN pc'[ev.ex] = "try" /\ cconn'[ev.ex] = ev.conn
           ELSE IF ev.kind = "join" THEN pc'[ev.ex] = "wait" /\ ccall'[ev.ex] = ev.call /\ call' = call
           ELSE pc'[ev.ex] = "wait" /\ ccall'[ev.ex] = ev.call /\ call # call' /\ call' = ev.call
        /\ Chk /\ UNCHANGED <<dl, closeT>>

TDialed == /\ IsEvent("qt.dialed") /\ ev.call \in Conn
           /\ ev.closed = closed /\ ev.ok = ev.hasconn
           /\ DialLocked(ev.call, ev.ok)
           /\ Chk /\ UNCHANGED <<dl, closeT>>

TSignal == IsEvent("qt.signal") /\ ev.call \in Conn /\ Signal(ev.call) /\ Chk /\ UNCHANGED <<dl, closeT>>

TWait == /\ IsEvent("qt.wait") /\ KnownEx /\ ccall[ev.ex] = ev.call
         /\ WaitDone(ev.ex)
         /\ IF ev.done THEN cst[ev.call] = "done" /\ res'[ev.ex] # "ctx" ELSE res'[ev.ex] = "ctx"
         /\ Chk /\ UNCHANGED <<dl, closeT>>

TTry == /\ IsEvent("qt.try") /\ KnownEx /\ cconn[ev.ex] = ev.conn /\ fresh[ev.ex] = ev.fresh
        /\ TryP(ev.ex, TRUE)
        /\ IF ev.ok THEN res'[ev.ex] = "ok"
           ELSE IF ev.again THEN pc'[ev.ex] = "getconn" /\ retry'[ev.ex] = ev.retry
           ELSE res'[ev.ex] \in {"ctx", "connerr"} /\ retry[ev.ex] = ev.retry
        /\ Chk /\ UNCHANGED <<dl, closeT>>

TClose == /\ IsEvent("qt.close") /\ ev.conn = cur /\ Close /\ closeT' = ev.t /\ Chk /\ UNCHANGED dl

\* the caller's view
TBegin == /\ IsEvent("qx.begin") /\ KnownEx /\ dl' = [dl EXCEPT ![ev.ex] = ev.deadline] /\ UNCHANGED <<vars, closeT>>
TEnd == /\ IsEvent("qx.end") /\ KnownEx
        /\ Report(l, (IF pc[ev.ex] = "done" /\ ((ev.kind = "reply") <=> (res[ev.ex] = "ok"))
                          /\ ((ev.cls = "closed") <=> (res[ev.ex] = "closed")) THEN {} ELSE {"Inv_C14_Result"})
                     \cup (IF ev.t <= dl[ev.ex] + Slack THEN {} ELSE {"Inv_C14_Deadline"})
                     \cup (IF closeT > 0 /\ ev.t > closeT + Slack THEN {"Inv_C18_FailFast"} ELSE {}))
        /\ UNCHANGED <<vars, dl, closeT>>
TCloseEnd == /\ IsEvent("qx.close.end")
             /\ Report(l, (IF ev.returned THEN {} ELSE {"Inv_C18_CloseReturns"})
                          \cup (IF ev.returned /\ ~closed THEN {"Inv_C18_CloseMarks"} ELSE {}))
             /\ UNCHANGED <<vars, dl, closeT>>
TCensus == /\ IsEvent("qx.census")
           /\ Report(l, IF ev.srvconns = 0 THEN {} ELSE {"Inv_C18_NoLeak"})
           /\ UNCHANGED <<vars, dl, closeT>>
TSkip == IsEvent("qx.close.begin") /\ UNCHANGED <<vars, dl, closeT>>

TNext == TSeg \/ TStart \/ TDie \/ TExpire \/ TGet \/ TDialed \/ TSignal \/ TWait \/ TTry \/ TClose
         \/ TBegin \/ TEnd \/ TCloseEnd \/ TCensus \/ TSkip
TSpec == TInit /\ [][TNext]_tvars
Post == Consumed
=============================================================================
