----------------------------- MODULE LimiterOps -----------------------------
(* Pure operators of the rate limiter model, parameterised so that both the  *)
(* bounded model (constants) and the trace specification (per-trace          *)
(* configuration) use the same definitions.                                  *)
EXTENDS Naturals, Sequences, FiniteSets

Pow2(k) == 2 ^ k
EffMask4(m) == IF m <= 0 \/ m > 32 THEN 24 ELSE m
EffMask6(m) == IF m <= 0 \/ m > 128 THEN 48 ELSE m

IsMapped(a) == a.fam = 6 /\ (\A i \in 1..10 : a.o[i] = 0) /\ a.o[11] = 255 /\ a.o[12] = 255
Unmap(a) == IF IsMapped(a) THEN [fam |-> 4, o |-> <<a.o[13], a.o[14], a.o[15], a.o[16]>>] ELSE a

\* keep the leading m bits of the octet string
MaskOctets(o, m) == [i \in 1..Len(o) |->
                        IF 8 * i <= m THEN o[i]
                        ELSE IF 8 * (i - 1) >= m THEN 0
                        ELSE LET keep == m - 8 * (i - 1)
                                 unit == Pow2(8 - keep)
                             IN (o[i] \div unit) * unit]

KeyM(a, v4, v6) == LET u == Unmap(a) IN
          IF u.fam = 4 THEN [fam |-> 4, o |-> MaskOctets(u.o, EffMask4(v4))]
          ELSE [fam |-> 6, o |-> MaskOctets(u.o, EffMask6(v6))]

(* one bucket: tokens in 1/1000, r = milli-tokens per time unit, b = burst in tokens *)
Full(b, t) == [tokens |-> b * 1000, last |-> t]
Min(a, b) == IF a < b THEN a ELSE b
Refilled(bk, r, b, t) == Min(b * 1000, bk.tokens + r * (IF t > bk.last THEN t - bk.last ELSE 0))
Allows(bk, r, b, t, n) == n <= b /\ n * 1000 <= Refilled(bk, r, b, t)
After(bk, r, b, t, n) == IF Allows(bk, r, b, t, n)
                         THEN [tokens |-> Refilled(bk, r, b, t) - n * 1000, last |-> t]
                         ELSE bk

RECURSIVE SumK(_, _, _, _)
SumK(s, k, i, j) == IF i > j THEN 0 ELSE (IF s[i].k = k THEN s[i].n ELSE 0) + SumK(s, k, i + 1, j)

\* over any window the cost admitted for one subnet is at most burst + rate x window
BudgetOfP(s, r, b) == \A i \in 1..Len(s) : \A j \in i..Len(s) :
                  s[i].k = s[j].k => SumK(s, s[i].k, i, j) * 1000 <= b * 1000 + r * (s[j].t - s[i].t)
=============================================================================
