-------------------------------- MODULE Reuse --------------------------------
(***************************************************************************)
(* One-at-a-time upstream connections (C06, parts of C14/C18):             *)
(* internal/upstream/transport/reuse_transport.go.                         *)
(*                                                                         *)
(* A connection is used by one worker goroutine at a time; the worker      *)
(* outlives its caller (the caller may leave on ctx while the worker still *)
(* writes/reads), then releases the connection: close on error, otherwise  *)
(* enterIdle (under the connection's lock) followed by insertion into the  *)
(* transport's idle set (under the transport's lock) - two steps, so the   *)
(* idle timer can fire in between.  The server sends one reply per query,  *)
(* in order, possibly late, or aborts the connection.                      *)
(***************************************************************************)
EXTENDS Naturals, Sequences, FiniteSets, TLC

CONSTANTS Conn, Ex, MaxRetry,
          BugEarlyRelease   \* sensitivity only: the caller that gives up hands the connection back at once

None == "none"

VARIABLES cst,      \* conn -> "free" | "serving" | "idle" | "closed"   (free = not dialled yet)
          out,      \* conn -> queries written whose reply was not read yet
          dirty,    \* conn -> a read failed / the stream position is unknown
          pipe,     \* conn -> sequence of exchanges whose replies the server still owes / has in flight
          aborted,  \* conn -> server side gone
          idleSet, allSet, tclosed,
          wk,       \* conn -> worker: [st: none|towrite|toread|rel_ok|rel_err|insert, ex, got]
          ex,       \* exchange -> [st: new|wait|done, conn, fresh, retries, res, got]
          box       \* exchange -> result channel content: [full, ok, got]

vars == <<cst, out, dirty, pipe, aborted, idleSet, allSet, tclosed, wk, ex, box>>

NoWk == [st |-> None, ex |-> None, got |-> None]
EmptyBox == [full |-> FALSE, ok |-> FALSE, got |-> None]

Init == /\ cst = [c \in Conn |-> "free"] /\ out = [c \in Conn |-> 0] /\ dirty = [c \in Conn |-> FALSE]
        /\ pipe = [c \in Conn |-> <<>>] /\ aborted = [c \in Conn |-> FALSE]
        /\ idleSet = {} /\ allSet = {} /\ tclosed = FALSE
        /\ wk = [c \in Conn |-> NoWk]
        /\ ex = [e \in Ex |-> [st |-> "new", conn |-> None, fresh |-> FALSE, retries |-> 0, res |-> None, got |-> None]]
        /\ box = [e \in Ex |-> EmptyBox]

\* getIdleConn: under t.m, takes any connection of the idle set; exitIdle skips closed ones
GetIdleSkip(e, c) ==
    /\ ex[e].st = "new" /\ ~tclosed /\ c \in idleSet /\ cst[c] = "closed"
    /\ idleSet' = idleSet \ {c} /\ allSet' = allSet \ {c}
    /\ UNCHANGED <<cst, out, dirty, pipe, aborted, tclosed, wk, ex, box>>

GetIdle(e, c) ==
    /\ ex[e].st = "new" /\ ~tclosed /\ c \in idleSet /\ cst[c] = "idle"
    /\ idleSet' = idleSet \ {c}
    /\ cst' = [cst EXCEPT ![c] = "serving"]
    /\ wk' = [wk EXCEPT ![c] = [st |-> "towrite", ex |-> e, got |-> None]]
    /\ ex' = [ex EXCEPT ![e].st = "wait", ![e].conn = c, ![e].fresh = FALSE]
    /\ box' = [box EXCEPT ![e] = EmptyBox]
    /\ UNCHANGED <<out, dirty, pipe, aborted, allSet, tclosed>>

\* asyncDial: only when no idle connection was found
Dial(e, c) ==
    /\ ex[e].st = "new" /\ ~tclosed /\ idleSet = {} /\ cst[c] = "free"
    /\ cst' = [cst EXCEPT ![c] = "serving"]
    /\ allSet' = allSet \cup {c}
    /\ wk' = [wk EXCEPT ![c] = [st |-> "towrite", ex |-> e, got |-> None]]
    /\ ex' = [ex EXCEPT ![e].st = "wait", ![e].conn = c, ![e].fresh = TRUE]
    /\ box' = [box EXCEPT ![e] = EmptyBox]
    /\ UNCHANGED <<out, dirty, pipe, aborted, idleSet, tclosed>>

ClosedErr(e) ==
    /\ ex[e].st = "new" /\ tclosed
    /\ ex' = [ex EXCEPT ![e].st = "done", ![e].res = "closed"]
    /\ UNCHANGED <<cst, out, dirty, pipe, aborted, idleSet, allSet, tclosed, wk, box>>

WorkerWrite(c) ==
    /\ wk[c].st = "towrite"
    /\ IF aborted[c] \/ cst[c] = "closed"
       THEN /\ wk' = [wk EXCEPT ![c].st = "rel_err"] /\ UNCHANGED <<out, pipe>>
       ELSE /\ out' = [out EXCEPT ![c] = @ + 1]
            /\ pipe' = [pipe EXCEPT ![c] = Append(@, wk[c].ex)]
            /\ wk' = [wk EXCEPT ![c].st = "toread"]
    /\ UNCHANGED <<cst, dirty, aborted, idleSet, allSet, tclosed, ex, box>>

WorkerReadOk(c) ==
    /\ wk[c].st = "toread" /\ pipe[c] # <<>> /\ ~aborted[c] /\ cst[c] # "closed"
    /\ wk' = [wk EXCEPT ![c].st = "rel_ok", ![c].got = Head(pipe[c])]
    /\ pipe' = [pipe EXCEPT ![c] = Tail(@)]
    /\ out' = [out EXCEPT ![c] = @ - 1]
    /\ UNCHANGED <<cst, dirty, aborted, idleSet, allSet, tclosed, ex, box>>

\* response timeout, abort, garbage: the stream is no longer at a frame boundary
WorkerReadErr(c) ==
    /\ wk[c].st = "toread"
    /\ wk' = [wk EXCEPT ![c].st = "rel_err"]
    /\ dirty' = [dirty EXCEPT ![c] = TRUE]
    /\ UNCHANGED <<cst, out, pipe, aborted, idleSet, allSet, tclosed, ex, box>>

ServerAbort(c) ==
    /\ cst[c] \in {"serving", "idle"} /\ ~aborted[c]
    /\ aborted' = [aborted EXCEPT ![c] = TRUE]
    /\ UNCHANGED <<cst, out, dirty, pipe, idleSet, allSet, tclosed, wk, ex, box>>

\* the worker hands the result to the (buffered) channel, then releases the connection
ReleaseErr(c) ==
    /\ wk[c].st = "rel_err"
    /\ box' = [box EXCEPT ![wk[c].ex] = [full |-> TRUE, ok |-> FALSE, got |-> None]]
    /\ cst' = [cst EXCEPT ![c] = "closed"]
    /\ allSet' = allSet \ {c}
    /\ wk' = [wk EXCEPT ![c] = NoWk]
    /\ UNCHANGED <<out, dirty, pipe, aborted, idleSet, tclosed, ex>>

EnterIdle(c) ==
    /\ wk[c].st = "rel_ok"
    /\ box' = [box EXCEPT ![wk[c].ex] = [full |-> TRUE, ok |-> TRUE, got |-> wk[c].got]]
    /\ cst' = [cst EXCEPT ![c] = IF cst[c] = "closed" THEN "closed" ELSE "idle"]
    /\ wk' = [wk EXCEPT ![c].st = "insert"]
    /\ UNCHANGED <<out, dirty, pipe, aborted, idleSet, allSet, tclosed, ex>>

IdleInsert(c) ==
    /\ wk[c].st = "insert"
    /\ IF tclosed THEN cst' = [cst EXCEPT ![c] = "closed"] /\ UNCHANGED idleSet
       ELSE idleSet' = idleSet \cup {c} /\ UNCHANGED cst
    /\ wk' = [wk EXCEPT ![c] = NoWk]
    /\ UNCHANGED <<out, dirty, pipe, aborted, allSet, tclosed, ex, box>>

IdleTimer(c) ==
    /\ cst[c] = "idle"
    /\ cst' = [cst EXCEPT ![c] = "closed"]
    /\ UNCHANGED <<out, dirty, pipe, aborted, idleSet, allSet, tclosed, wk, ex, box>>

CallerTake(e) ==
    /\ ex[e].st = "wait" /\ box[e].full
    /\ IF box[e].ok
       THEN ex' = [ex EXCEPT ![e].st = "done", ![e].res = "reply", ![e].got = box[e].got]
       ELSE IF ~ex[e].fresh /\ ex[e].retries <= MaxRetry
            THEN ex' = [ex EXCEPT ![e].st = "new", ![e].retries = @ + 1]
            ELSE ex' = [ex EXCEPT ![e].st = "done", ![e].res = "err"]
    /\ UNCHANGED <<cst, out, dirty, pipe, aborted, idleSet, allSet, tclosed, wk, box>>

\* the caller's ctx ends first: it returns, the worker keeps the connection until it is done
CallerGivesUp(e) ==
    /\ ex[e].st = "wait"
    /\ ex' = [ex EXCEPT ![e].st = "done", ![e].res = "ctx"]
    /\ IF BugEarlyRelease /\ cst[ex[e].conn] = "serving"
       THEN idleSet' = idleSet \cup {ex[e].conn} /\ cst' = [cst EXCEPT ![ex[e].conn] = "idle"]
       ELSE UNCHANGED <<idleSet, cst>>
    /\ UNCHANGED <<out, dirty, pipe, aborted, allSet, tclosed, wk, box>>

TransportClose ==
    /\ ~tclosed /\ tclosed' = TRUE
    /\ cst' = [c \in Conn |-> IF c \in allSet THEN "closed" ELSE cst[c]]
    /\ UNCHANGED <<out, dirty, pipe, aborted, idleSet, allSet, wk, ex, box>>

Next == \/ \E e \in Ex, c \in Conn : GetIdleSkip(e, c) \/ GetIdle(e, c) \/ Dial(e, c)
        \/ \E e \in Ex : ClosedErr(e) \/ CallerTake(e) \/ CallerGivesUp(e)
        \/ \E c \in Conn : WorkerWrite(c) \/ WorkerReadOk(c) \/ WorkerReadErr(c) \/ ServerAbort(c)
                          \/ ReleaseErr(c) \/ EnterIdle(c) \/ IdleInsert(c) \/ IdleTimer(c)
        \/ TransportClose

Spec == Init /\ [][Next]_vars

-----------------------------------------------------------------------------
Inv_C06_OneOutstanding == \A c \in Conn : out[c] <= 1
Inv_C06_CleanIdle == \A c \in Conn : (cst[c] = "idle" \/ (c \in idleSet /\ cst[c] # "closed")) =>
                                        (out[c] = 0 /\ ~dirty[c] /\ wk[c].st \in {None, "insert"})
Inv_C06_IdleNotServing == \A c \in idleSet : cst[c] \in {"idle", "closed"}
Inv_C06_OwnReply == \A e \in Ex : ex[e].res = "reply" => ex[e].got = e
Inv_C18_NoLeak == (tclosed /\ \A c \in Conn : wk[c].st = None) => \A c \in Conn : cst[c] \in {"free", "closed"}
TypeOK == /\ idleSet \subseteq Conn /\ allSet \subseteq Conn /\ tclosed \in BOOLEAN
=============================================================================
