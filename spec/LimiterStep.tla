----------------------------- MODULE LimiterStep -----------------------------
(* The client limiter's bucket table (internal/limiter/client_limiter.go) at *)
(* the grain of its critical sections, for ONE client subnet within one      *)
(* instant (no refill): callers look the bucket up (LoadOrCompute), then     *)
(* lock it and spend; the collector examines the bucket under its lock and   *)
(* removes it from the table.  A bucket that is forgotten comes back full,   *)
(* so it may only be forgotten when that cannot be observed: it is full and  *)
(* nobody is about to spend from it.                                         *)
(*   AtomicForget = TRUE   the collector marks the bucket dead and removes   *)
(*                         it while it holds the bucket's lock; a caller     *)
(*                         that locks a dead bucket looks the key up again   *)
(*   AtomicForget = FALSE  decision under the lock, removal after it (any    *)
(*                         distance apart): a caller can spend from the      *)
(*                         bucket in between, and the spent bucket is lost   *)
(* C15: the cost admitted for the subnet within the instant never exceeds    *)
(* the burst.                                                                *)
EXTENDS Integers, FiniteSets
CONSTANTS Proc, Burst, MaxCalls, MaxEnt, AtomicForget,
          RetryDeletes   \* sensitivity: a caller that finds its bucket dead also removes the key before it looks again

None == 0
Ent == 1..MaxEnt
VARIABLES table,     \* the entry stored under the subnet's key, or None
          tokens,    \* Ent -> tokens left
          idle,      \* Ent -> nobody has called since the collection age (lastSeen is old)
          dead,      \* Ent -> forgotten by the collector (AtomicForget only)
          nent,      \* entries created so far
          pc, loc,   \* callers: "idle" | "locked-out" ... ; the entry they hold a pointer to
          gc,        \* the collector: None, or the entry it has decided to forget
          admitted, calls
vars == <<table, tokens, idle, dead, nent, pc, loc, gc, admitted, calls>>

Init == /\ table = 1 /\ nent = 1
        /\ tokens = [e \in Ent |-> Burst] /\ idle = [e \in Ent |-> e = 1] /\ dead = [e \in Ent |-> FALSE]
        /\ pc = [p \in Proc |-> "idle"] /\ loc = [p \in Proc |-> None]
        /\ gc = None /\ admitted = 0 /\ calls = 0

\* AllowN, first half: LoadOrCompute
Lookup(p) ==
    /\ pc[p] = "idle" /\ calls < MaxCalls
    /\ IF table = None
       THEN /\ nent < MaxEnt
            /\ nent' = nent + 1 /\ table' = nent + 1 /\ loc' = [loc EXCEPT ![p] = nent + 1]
       ELSE /\ loc' = [loc EXCEPT ![p] = table] /\ UNCHANGED <<nent, table>>
    /\ pc' = [pc EXCEPT ![p] = "got"] /\ calls' = calls + 1
    /\ UNCHANGED <<tokens, idle, dead, gc, admitted>>

\* AllowN, second half: under the bucket's lock
Spend(p) ==
    LET e == loc[p] IN
    /\ pc[p] = "got"
    /\ IF AtomicForget /\ dead[e]
       THEN /\ pc' = [pc EXCEPT ![p] = "idle"] /\ calls' = calls - 1     \* look the key up again
            /\ table' = IF RetryDeletes THEN None ELSE table   \* Delete(key) removes whatever bucket is there by now
            /\ UNCHANGED <<tokens, idle, admitted>>
       ELSE /\ idle' = [idle EXCEPT ![e] = FALSE]
            /\ IF tokens[e] > 0 THEN tokens' = [tokens EXCEPT ![e] = @ - 1] /\ admitted' = admitted + 1
                                ELSE UNCHANGED <<tokens, admitted>>
            /\ pc' = [pc EXCEPT ![p] = "idle"] /\ UNCHANGED <<calls, table>>
    /\ loc' = [loc EXCEPT ![p] = None]
    /\ UNCHANGED <<dead, nent, gc>>

\* gc, under the bucket's lock: idle for longer than the collection age and full again
GcDecide ==
    /\ gc = None /\ table # None /\ idle[table] /\ tokens[table] = Burst
    /\ IF AtomicForget
       THEN dead' = [dead EXCEPT ![table] = TRUE] /\ table' = None /\ UNCHANGED gc
       ELSE gc' = table /\ UNCHANGED <<dead, table>>
    /\ UNCHANGED <<tokens, idle, nent, pc, loc, admitted, calls>>
\* ... and the removal (Delete(key) removes whatever is stored under the key)
GcDelete ==
    /\ gc # None
    /\ table' = None /\ gc' = None
    /\ UNCHANGED <<tokens, idle, dead, nent, pc, loc, admitted, calls>>

Next == (\E p \in Proc : Lookup(p) \/ Spend(p)) \/ GcDecide \/ GcDelete
Spec == Init /\ [][Next]_vars

Inv_C15_BurstBound == admitted <= Burst
\* a bucket is never spent from after it has been forgotten
Inv_NoSpendOnDead == \A e \in Ent : dead[e] => tokens[e] = Burst
=============================================================================
