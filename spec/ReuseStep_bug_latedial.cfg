SPECIFICATION Spec
CONSTANTS
  Ex <- mc_Ex
  NConn = 3
  MaxRetry = 1
  BugEarlyIdle = FALSE
  BugLateDialLeak = TRUE
  BugStrayDial = FALSE
INVARIANTS Inv_C06_OwnReply Inv_C06_CleanIdleStrict Inv_C06_IdleNotServing Inv_C18_NoLeak
CHECK_DEADLOCK FALSE
