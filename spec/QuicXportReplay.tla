--------------------------- MODULE QuicXportReplay ---------------------------
(* Behaviours of QuicXport for replay into the real transport: the complete    *)
(* labelled state graph of a small instance is printed edge by edge            *)
(* (<<"EDGE", state, action, successor>> as JSON); the harness walks it and    *)
(* drives the real QuicTransport through blocking hooks (verifhook.Gate), an   *)
(* injected dialer and scripted connections, comparing the projected state     *)
(* after every step.                                                           *)
EXTENDS QuicXport, Json

St == [closed |-> closed, cur |-> cur, call |-> call, cst |-> cst, cres |-> cres, conn |-> conn,
       pc |-> pc, ccall |-> ccall, cconn |-> cconn, fresh |-> fresh, retry |-> retry, res |-> res,
       ctxdone |-> ctxdone]
Edge(a) == PrintT(<<"EDGE", ToJson(St), ToJson(a), ToJson(St')>>)

RNext == \/ \E e \in Ex : \/ (Start(e) /\ Edge([a |-> "Start", e |-> e]))
                           \/ (GetConn(e) /\ Edge([a |-> "GetConn", e |-> e]))
                           \/ (WaitDone(e) /\ Edge([a |-> "WaitDone", e |-> e]))
                           \/ (Try(e) /\ Edge([a |-> "Try", e |-> e, ok |-> res'[e] = "ok"]))
                           \/ (Deadline(e) /\ Edge([a |-> "Deadline", e |-> e]))
         \/ \E k \in Conn, ok \in BOOLEAN : (DialLocked(k, ok) /\ Edge([a |-> "DialLocked", k |-> k, ok |-> ok]))
         \/ \E k \in Conn : \/ (Signal(k) /\ Edge([a |-> "Signal", k |-> k]))
                            \/ (ConnDie(k) /\ Edge([a |-> "ConnDie", k |-> k]))
         \/ (Close /\ Edge([a |-> "Close"]))
REx == 1..2
RSpec == Init /\ [][RNext]_vars
RInitPrint == PrintT(<<"INIT", ToJson(St)>>)
=============================================================================
