------------------------------- MODULE Router -------------------------------
(***************************************************************************)
(* The router as a system (C03, C04, C07, C08, C10, C12, C19):             *)
(* app/router/router.go (handleServerReq, handleReqMsg, handleReq,         *)
(* forward, asyncSingleFlightPrefetch) and app/router/cache.go.            *)
(*                                                                         *)
(* One action per step of the code that other requests can interleave      *)
(* with: the client's send, the router's decision (NOTIMP filter, first    *)
(* matching rule, cache lookup, prefetch reservation), the upstream's      *)
(* reply or failure, the 6 s deadline, the store, eviction, the clock.     *)
(* The upstream is an adversary: it may answer any outstanding exchange    *)
(* with any rcode / TTL / TC, fail it, or stay silent for ever.            *)
(***************************************************************************)
EXTENDS RouterOps, TLC

CONSTANTS Req,          \* request identifiers
          Names,        \* query names (sequences of labels, lower case)
          Sets,         \* domain set tag -> set of entries
          RuleLists,    \* the rule lists a behaviour may start with
          Ttls,         \* TTLs an upstream may put on its answer (ticks = seconds)
          Rcodes,       \* rcodes an upstream may return
          DeadlineT,    \* request deadline in ticks
          MaxClock, MaxReplies,
          WithCache, WithEvict

None == [some |-> FALSE]

VARIABLES now, rules,
          req,      \* r -> [st, name, rd, opt, sent, resp]
          cache,    \* name -> None | [some, tok, rcode, ttl, stored, expire]
          pf,       \* names with a refresh reserved
          xch,      \* outstanding upstream exchanges: set of [id, up, name, pfx]
          prod,     \* history: tok -> [up, name, rcode, ttl, t, tc]
          ntok

vars == <<now, rules, req, cache, pf, xch, prod, ntok>>
view == <<now, rules, req, cache, pf, xch, ntok>>

Idle == [st |-> "idle", name |-> <<>>, rd |-> TRUE, opt |-> FALSE, sent |-> 0, resp |-> None]

Init == /\ now = 0 /\ rules \in RuleLists
        /\ req = [r \in Req |-> Idle]
        /\ cache = [n \in Names |-> None] /\ pf = {} /\ xch = {} /\ prod = <<>> /\ ntok = 0

Dec(n) == Decide(rules, Sets, n)

Send(r, n, rd, opt) ==
    /\ req[r].st = "idle"
    /\ now + DeadlineT <= MaxClock \/ MaxClock = 0   \* bounding artefact: the deadline of every request lies inside the explored clock range
    /\ req' = [req EXCEPT ![r] = [st |-> "recv", name |-> n, rd |-> rd, opt |-> opt, sent |-> now, resp |-> None]]
    /\ UNCHANGED <<now, rules, cache, pf, xch, prod, ntok>>

Resp(r, rcode, tok, ttl, cached) ==
    [some |-> TRUE, rcode |-> rcode, tok |-> tok, ttl |-> ttl, cached |-> cached,
     rd |-> req[r].rd, opt |-> req[r].opt /\ req[r].rd]   \* OPT is added for supported queries only

Aged(ttl, dt) == IF ttl > dt THEN ttl - dt ELSE 1
Live(e) == e.some /\ now < e.expire
NeedPrefetch(e) == 4 * (e.expire - now) < (e.expire - e.stored)

\* handleReqMsg + handleReq up to the point where the request either has its response or waits for the upstream
DecideStep(r) ==
    /\ req[r].st = "recv"
    /\ LET n == req[r].name  d == Dec(n) IN
       IF ~req[r].rd
       THEN /\ req' = [req EXCEPT ![r].st = "done", ![r].resp = Resp(r, 4, 0, 0, FALSE)]
            /\ UNCHANGED <<cache, pf, xch>>
       ELSE IF d.kind # "forward"
       THEN /\ req' = [req EXCEPT ![r].st = "done", ![r].resp = Resp(r, d.rcode, 0, 0, FALSE)]
            /\ UNCHANGED <<cache, pf, xch>>
       ELSE IF WithCache /\ Live(cache[n])
       THEN /\ req' = [req EXCEPT ![r].st = "done",
                                  ![r].resp = Resp(r, cache[n].rcode, cache[n].tok, Aged(cache[n].ttl, now - cache[n].stored), TRUE)]
            /\ IF NeedPrefetch(cache[n]) /\ n \notin pf
               THEN pf' = pf \cup {n} /\ xch' = xch \cup {[id |-> n, up |-> d.up, name |-> n, pfx |-> TRUE]}
               ELSE UNCHANGED <<pf, xch>>
            /\ UNCHANGED cache
       ELSE /\ req' = [req EXCEPT ![r].st = "waitup"]
            /\ xch' = xch \cup {[id |-> r, up |-> d.up, name |-> n, pfx |-> FALSE]}
            /\ UNCHANGED <<cache, pf>>
    /\ UNCHANGED <<now, rules, prod, ntok>>

LifeT(rcode, ttl) == LET b == IF rcode = 3 THEN Min2(30, ttl) ELSE IF rcode = 2 THEN Min2(1, ttl)
                                ELSE IF rcode = 0 THEN ttl ELSE Min2(5, ttl)
                     IN IF b <= 0 THEN 1 ELSE b

\* cacheCtl.Store: never for TC; negative answers are set-if-absent (the backend keeps a live entry)
Stored(n, tok, rcode, ttl, tc) ==
    IF ~WithCache \/ tc THEN cache
    ELSE IF rcode # 0 /\ Live(cache[n]) THEN cache
    ELSE [cache EXCEPT ![n] = [some |-> TRUE, tok |-> tok, rcode |-> rcode, ttl |-> ttl, stored |-> now,
                               expire |-> now + LifeT(rcode, ttl)]]

UpReply(x, rcode, ttl, tc) ==
    /\ x \in xch /\ ntok < MaxReplies
    /\ ntok' = ntok + 1
    /\ prod' = [t \in DOMAIN prod \cup {ntok + 1} |->
                  IF t = ntok + 1 THEN [up |-> x.up, name |-> x.name, rcode |-> rcode, ttl |-> ttl, t |-> now, tc |-> tc] ELSE prod[t]]
    /\ xch' = xch \ {x}
    /\ IF x.pfx
       THEN /\ pf' = pf \ {x.name} /\ cache' = Stored(x.name, ntok + 1, rcode, ttl, tc) /\ UNCHANGED req
       ELSE /\ UNCHANGED pf
            /\ IF req[x.id].st = "waitup"
               THEN /\ req' = [req EXCEPT ![x.id].st = "done", ![x.id].resp = Resp(x.id, rcode, ntok + 1, ttl, FALSE)]
                    /\ cache' = Stored(x.name, ntok + 1, rcode, ttl, tc)
               ELSE UNCHANGED <<req, cache>>        \* the request was already answered by its deadline: orphan reply
    /\ UNCHANGED <<now, rules>>

UpFail(x) ==
    /\ x \in xch /\ xch' = xch \ {x}
    /\ IF x.pfx THEN pf' = pf \ {x.name} /\ UNCHANGED req
       ELSE /\ UNCHANGED pf
            /\ IF req[x.id].st = "waitup"
               THEN req' = [req EXCEPT ![x.id].st = "done", ![x.id].resp = Resp(x.id, 2, 0, 0, FALSE)]
               ELSE UNCHANGED req
    /\ UNCHANGED <<now, rules, cache, prod, ntok>>

Timeout(r) ==
    /\ req[r].st = "waitup" /\ now >= req[r].sent + DeadlineT
    /\ req' = [req EXCEPT ![r].st = "done", ![r].resp = Resp(r, 2, 0, 0, FALSE)]
    /\ UNCHANGED <<now, rules, cache, pf, xch, prod, ntok>>

Evict(n) == /\ WithEvict /\ cache[n].some /\ cache' = [cache EXCEPT ![n] = None]
            /\ UNCHANGED <<now, rules, req, pf, xch, prod, ntok>>

\* urgency: the clock does not advance while the router itself has an enabled step
Urgent == \E r \in Req : req[r].st = "recv" \/ (req[r].st = "waitup" /\ now >= req[r].sent + DeadlineT)
Tick == /\ now < MaxClock /\ ~Urgent /\ now' = now + 1
        /\ UNCHANGED <<rules, req, cache, pf, xch, prod, ntok>>

Next == \/ \E r \in Req, n \in Names, rd \in BOOLEAN, opt \in BOOLEAN : Send(r, n, rd, opt)
        \/ \E r \in Req : DecideStep(r) \/ Timeout(r)
        \/ \E x \in xch : UpFail(x) \/ \E rc \in Rcodes, t \in Ttls, tc \in BOOLEAN : UpReply(x, rc, t, tc)
        \/ \E n \in Names : Evict(n)
        \/ Tick

Fair == /\ \A r \in Req : WF_vars(DecideStep(r)) /\ WF_vars(Timeout(r))
        /\ WF_vars(Tick)
Spec == Init /\ [][Next]_vars
FairSpec == Spec /\ Fair

-----------------------------------------------------------------------------
Done(r) == req[r].st = "done"
R(r) == req[r].resp

\* C03: mapping of causes to rcodes, echo of RD, one response (resp is written once: st goes to done once)
Inv_C03_Rcode == \A r \in Req : Done(r) =>
    LET d == Dec(req[r].name) IN
    IF ~req[r].rd THEN R(r).rcode = 4
    ELSE IF d.kind = "reject" THEN R(r).rcode = d.rcode
    ELSE IF d.kind = "refused" THEN R(r).rcode = 5
    ELSE R(r).tok = 0 => R(r).rcode = 2
Inv_C03_Header == \A r \in Req : Done(r) => R(r).rd = req[r].rd
Inv_C03_Deadline == \A r \in Req : req[r].st \in {"recv", "waitup"} => now <= req[r].sent + DeadlineT
C03_Once == [][\A r \in Req : Done(r) => (req'[r].st = "idle" \/ req'[r] = req[r])]_vars
C03_Answered == \A r \in Req : (req[r].st = "recv") ~> Done(r)

\* C04 / C10: an answer comes from the decided upstream and was produced for the response's own name
Inv_C04_Provenance == \A r \in Req : (Done(r) /\ R(r).tok # 0) =>
    (prod[R(r).tok].name = req[r].name /\ prod[R(r).tok].up = Dec(req[r].name).up /\ prod[R(r).tok].rcode = R(r).rcode)
Inv_C10_OnlySelected == \A x \in xch : Dec(x.name).kind = "forward" /\ Dec(x.name).up = x.up

\* C07: a cache entry holds an answer produced for its own key
Inv_C07_KeyEq == \A n \in Names : cache[n].some => prod[cache[n].tok].name = n

\* C08: ageing and expiry
Inv_C08_Ttl == \A r \in Req : (Done(r) /\ R(r).cached) =>
    R(r).ttl <= (IF prod[R(r).tok].ttl > req[r].sent - prod[R(r).tok].t THEN prod[R(r).tok].ttl - (req[r].sent - prod[R(r).tok].t) ELSE 1)
Inv_C08_Expiry == \A r \in Req : (Done(r) /\ R(r).cached) =>
    req[r].sent < prod[R(r).tok].t + LifeT(prod[R(r).tok].rcode, prod[R(r).tok].ttl)
Inv_C08_NoTc == \A n \in Names : cache[n].some => ~prod[cache[n].tok].tc
C08_NoDisplace == [][\A n \in Names :
    (Live(cache[n]) /\ cache[n].rcode = 0 /\ cache'[n] # cache[n] /\ cache'[n].some) => cache'[n].rcode = 0]_vars

\* C12: the response carries an OPT iff the (supported) query did
Inv_C12_RespOpt == \A r \in Req : Done(r) => (R(r).opt = (req[r].opt /\ req[r].rd))

\* C19: at most one refresh in flight per name; a hit never waits
Inv_C19_Single == \A n \in Names : Cardinality({x \in xch : x.pfx /\ x.name = n}) <= 1
Inv_C19_PfTracked == \A n \in Names : (n \in pf) = (\E x \in xch : x.pfx /\ x.name = n)

TypeOK == /\ now \in 0..MaxClock /\ ntok \in 0..MaxReplies /\ pf \subseteq Names
=============================================================================
