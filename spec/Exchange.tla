------------------------------ MODULE Exchange ------------------------------
(***************************************************************************)
(* Deadlines and stale connections of one upstream exchange (C14), over    *)
(* the transports of internal/upstream/transport.  Every blocking point of *)
(* an exchange is a wait state annotated with the exits the code's select  *)
(* really has.  The server / network is an adversary: it may refuse, never *)
(* complete the connection, accept and stay silent, kill the connection at *)
(* any point, or answer.  Time advances only when no enabled ctx exit is   *)
(* overdue (urgency), so the deadline invariant holds exactly when every   *)
(* reachable wait state has a ctx exit.                                    *)
(***************************************************************************)
EXTENDS Naturals, FiniteSets, TLC

CONSTANTS Kind,        \* "pipeline" | "reuse" | "stream" (DoQ / DoH worker)
          Deadline, MaxClock, MaxRetry,
          SendBufFull,  \* the peer stopped reading and the socket buffers are full: a blocking Write does not return
          WriteDeadline \* TRUE: pipelineConn.write bounds the write by the exchange deadline (repaired code, D18)

\* exits of each wait state per transport kind, as read from the code
\*   dial : connpool.Get / asyncDial / dialingCall.wait          - all select on ctx
\*   write: pipelineConn.write was a plain blocking c.Write (no exit) before the repair of D18; it now carries the
\*          exchange's deadline; reuse/stream write in a worker goroutine while the caller selects on ctx
\*   reply: select on ctx, connection ctx (pipeline) and the result channel
HasCtxExit(stage) == IF stage = "write" THEN (Kind # "pipeline" \/ WriteDeadline) ELSE TRUE

VARIABLES now, st,      \* exchange stage: "start" | "dial" | "write" | "reply" | "done"
          conn,         \* "none" | "fresh" | "pooled"
          pooledAlive,  \* the pooled connection is still usable (FALSE: the server closed it while idle)
          retries, res, dials
vars == <<now, st, conn, pooledAlive, retries, res, dials>>

Init == /\ now = 0 /\ st = "start" /\ conn = "none" /\ pooledAlive \in BOOLEAN /\ retries = 0 /\ res = "none" /\ dials = 0

Overdue == st \in {"dial", "write", "reply"} /\ now >= Deadline
Finish(r) == st' = "done" /\ res' = r

\* a pooled connection is picked if there is one, otherwise a dial starts
Pick == /\ st = "start"
        /\ \/ conn' = "pooled" /\ st' = "write" /\ UNCHANGED <<dials>>
           \/ conn' = "fresh" /\ st' = "dial" /\ dials' = dials + 1
        /\ UNCHANGED <<now, pooledAlive, retries, res>>
DialOk == st = "dial" /\ st' = "write" /\ UNCHANGED <<now, conn, pooledAlive, retries, res, dials>>
DialFail == st = "dial" /\ Finish("error") /\ UNCHANGED <<now, conn, pooledAlive, retries, dials>>   \* fresh failure: reported, not retried
WriteOk == /\ st = "write" /\ ~SendBufFull /\ (conn = "pooled" => pooledAlive)
           /\ st' = "reply" /\ UNCHANGED <<now, conn, pooledAlive, retries, res, dials>>
\* failure on a connection (write error, read error, connection closed): retried on pooled, reported on fresh
ConnFail == /\ st \in {"write", "reply"} /\ (st = "write" => (~SendBufFull \/ (conn = "pooled" /\ ~pooledAlive)))
            /\ IF conn = "pooled" /\ retries < MaxRetry
               THEN st' = "start" /\ retries' = retries + 1 /\ pooledAlive' = TRUE /\ conn' = "none" /\ UNCHANGED res
               ELSE Finish("error") /\ UNCHANGED <<retries, pooledAlive, conn>>
            /\ UNCHANGED <<now, dials>>
Reply == st = "reply" /\ (conn = "pooled" => pooledAlive) /\ Finish("reply") /\ UNCHANGED <<now, conn, pooledAlive, retries, dials>>
CtxExit == st \in {"dial", "write", "reply"} /\ HasCtxExit(st) /\ now >= Deadline /\ Finish("ctx")
           /\ UNCHANGED <<now, conn, pooledAlive, retries, dials>>
\* steps that do not block are taken before time advances; so is an overdue ctx exit
Urgent == st = "start" \/ (st = "write" /\ ~SendBufFull) \/ (Overdue /\ HasCtxExit(st))
Tick == /\ now < MaxClock /\ ~Urgent /\ now' = now + 1
        /\ UNCHANGED <<st, conn, pooledAlive, retries, res, dials>>

Next == Pick \/ DialOk \/ DialFail \/ WriteOk \/ ConnFail \/ Reply \/ CtxExit \/ Tick
Spec == Init /\ [][Next]_vars

Inv_C14_Deadline == st # "done" => now <= Deadline
Inv_C14_RetryBound == dials <= 1 /\ retries <= MaxRetry
\* a stale pooled connection with a healthy server never surfaces as an error of the first attempt
Inv_C14_StaleNotFatal == (res = "error" /\ retries = 0) => conn = "fresh"
=============================================================================
