------------------------------- MODULE Wire_MC -------------------------------
(* Bounded exhaustive check of the codec model: every message that can be     *)
(* built from the universe below re-encodes (with and without compression)    *)
(* to a wire image that the decoder maps back to the same message, and the    *)
(* uncompressed image has the advertised length.  Label octets are chosen so  *)
(* that label CONTENTS can imitate the encoding of label BOUNDARIES.          *)
EXTENDS Wire, TLC, Json

CONSTANTS MaxAn, MaxAr, KeyWithLen   \* KeyWithLen = FALSE models the pre-repair compression key (D3)

a == <<97>>
b == <<98>>
aOneB == <<97, 1, 98>>        \* "a\x01b": its octets are the wire form of a.b without the first length octet
oneA == <<1, 97>>             \* "\x01a": its octets are the wire form of the name a
mc_Names == {<<>>, <<a>>, <<a, b>>, <<b, a>>, <<aOneB>>, <<oneA>>, <<oneA, b>>, <<b, a, b>>}
mc_Owners == {<<>>, <<a, b>>, <<aOneB>>, <<oneA, b>>, <<b, a, b>>}
RdNames == {<<a, b>>, <<aOneB>>, <<b, a, b>>}
T0 == <<0, 60>>
RRs == {[name |-> o, typ |-> 1, cls |-> 1, ttl |-> T0, rd |-> <<<<"b", <<1, 2, 3, 4>>>>>>] : o \in mc_Owners}
  \cup {[name |-> o, typ |-> 5, cls |-> 1, ttl |-> T0, rd |-> <<<<"n", n>>>>] : o \in mc_Owners, n \in RdNames}
  \cup {[name |-> o, typ |-> 15, cls |-> 1, ttl |-> <<65535, 65535>>, rd |-> <<<<"b", <<0, 10>>>>, <<"n", n>>>>] : o \in mc_Owners, n \in RdNames}
  \cup {[name |-> o, typ |-> 6, cls |-> 1, ttl |-> T0, rd |-> <<<<"n", <<a, b>>>>, <<"n", <<aOneB>>>>, <<"b", [i \in 1..20 |-> i]>>>>] : o \in mc_Owners}
  \cup {[name |-> o, typ |-> 33, cls |-> 1, ttl |-> T0, rd |-> <<<<"b", <<0, 1, 0, 2, 0, 53>>>>, <<"n", <<b, a, b>>>>>>] : o \in mc_Owners}
  \cup {[name |-> <<>>, typ |-> 41, cls |-> 1232, ttl |-> <<0, 0>>, rd |-> <<<<"b", d>>>>] : d \in {<<>>, <<0, 10, 0, 2, 192, 12>>}}
  \cup {[name |-> o, typ |-> 65280, cls |-> 255, ttl |-> T0, rd |-> <<<<"b", <<192, 12, 0>>>>>>] : o \in {<<a, b>>, <<aOneB>>}}
Qs == {[name |-> n, typ |-> 1, cls |-> 1] : n \in mc_Names}

VARIABLE m
Init == m = [id |-> 4660, bits |-> 33152, qd |-> <<>>, an |-> <<>>, ns |-> <<>>, ar |-> <<>>]
AddQ == Len(m.qd) = 0 /\ Len(m.an) = 0 /\ Len(m.ar) = 0 /\ \E q \in Qs : m' = [m EXCEPT !.qd = Append(@, q)]
AddAn == Len(m.an) < MaxAn /\ Len(m.ar) = 0 /\ \E r \in RRs : m' = [m EXCEPT !.an = Append(@, r)]
AddAr == Len(m.ar) < MaxAr /\ \E r \in RRs : m' = [m EXCEPT !.ar = Append(@, r)]
Next == AddQ \/ AddAn \/ AddAr
Spec == Init /\ [][Next]_m

EmitStim == PrintT(<<"STIM", ToJson(m)>>)
Inv_C02_RoundTripPlain == RoundTripOk(m, Encode(m, FALSE))
Inv_C02_RoundTripCompressed == RoundTripOk(m, EncCompressedK(m, KeyWithLen))
Inv_C02_Len == PlainLenOk(m, Encode(m, FALSE))
Inv_CompressedNotLonger == Len(Encode(m, TRUE)) <= MsgLen(m)
=============================================================================
