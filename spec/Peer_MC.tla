------------------------------- MODULE Peer_MC -------------------------------
(* The address table as a (degenerate) state space: one state per row, so that *)
(* TLC enumerates it, evaluates the sanity theorems and exports the rows.      *)
EXTENDS Peer, Json, SequencesExt
VARIABLE row
Init == row \in Rows
Next == UNCHANGED row
Spec == Init /\ [][Next]_row
Emit == PrintT(<<"ROW", ToJson(row)>>)
Inv_PortExplicitOrDefault == LET t == Target(row.s, row.h, row.p, row.d) IN
    t.net # "unix" => (t.port = DefaultPort(row.s) \/ t.port = row.p \/ t.port = DialPort)
Inv_NetByScheme == LET t == Target(row.s, row.h, row.p, row.d) IN t.net \in {"udp", "tcp", "unix"} /\ (t.net = "udp") = (Datagram(row.s) /\ row.d # "unix")
=============================================================================
