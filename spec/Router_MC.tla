------------------------------ MODULE Router_MC ------------------------------
EXTENDS Router, Json, SequencesExt

CONSTANTS r1, r2, r3
mc_Req2 == {r1, r2}
mc_Req3 == {r1, r2, r3}

\* names: <label>.<zone label>; zones 1,2,3 ; sets s1={zone 1}, s2={zone 2}
N1 == <<<<97>>, <<1>>>>
N2 == <<<<98>>, <<2>>>>
N3 == <<<<99>>, <<3>>>>
mc_Names3 == {N1, N2, N3}
mc_Names1 == {N1}
mc_Names2 == {N1, N2}
mc_Sets == [t \in {"s1", "s2"} |-> IF t = "s1" THEN {[kind |-> "domain", name |-> <<<<1>>>>]}
                                       ELSE {[kind |-> "domain", name |-> <<<<2>>>>]}]
Ru(s, rev, rej, f) == [set |-> s, rev |-> rev, reject |-> rej, fwd |-> f]
\* rule shapes: unconditional / set / reversed set, forward u1|u2 / reject / no action
mc_Shapes == {Ru("", FALSE, 0, "u1"), Ru("", FALSE, 0, "u2"), Ru("s1", FALSE, 0, "u1"), Ru("s1", TRUE, 0, "u2"),
              Ru("s2", FALSE, 3, ""), Ru("", FALSE, 5, ""), Ru("s1", FALSE, 0, ""), Ru("s2", FALSE, 0, "u2"),
              Ru("s2", TRUE, 3, ""), Ru("s1", TRUE, 0, "u1")}
Lists(k) == UNION {[1..d -> mc_Shapes] : d \in 0..k}
mc_RuleLists2 == Lists(2)
mc_RuleLists3 == Lists(3)
mc_OneList == {<<Ru("s1", FALSE, 0, "u1"), Ru("", FALSE, 0, "u2")>>}
mc_TtlsTime == {0, 2, 4}
mc_TtlsOne == {4}
mc_RcodesAll == {0, 2, 3}
mc_RcodesOk == {0}

ASSUME PrintT(<<"RULELISTS", ToJson(SetToSeq(mc_RuleLists2))>>)
=============================================================================
